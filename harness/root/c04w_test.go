//go:build verif

package quic

// C04 conformance harness, wire tier: a fingerprint-spec client advertises distinct limits per stream kind;
// the in-tree server (the sender under test) tries to send more than was advertised on streams of every kind;
// the client's qlog shows the STREAM frames it received and the limits it put on the wire.

import (
	"context"
	"fmt"
	"sync"
	"testing"
	"testing/synctest"
	"time"

	"github.com/refraction-networking/uquic/internal/vtrace"
	"github.com/refraction-networking/uquic/qlog"
	"github.com/refraction-networking/uquic/qlogwriter"
)

type vsFlowRecorder struct {
	r *vsRec
}

func (q *vsFlowRecorder) AddProducer() qlogwriter.Recorder { return q }
func (q *vsFlowRecorder) SupportsSchemas(string) bool       { return true }
func (q *vsFlowRecorder) Close() error                      { return nil }
func (q *vsFlowRecorder) RecordEvent(e qlogwriter.Event) {
	switch ev := e.(type) {
	case qlog.PacketReceived:
		for _, f := range ev.Frames {
			if sf, ok := f.Frame.(*qlog.StreamFrame); ok {
				q.r.add(vtrace.Op{"ev": "RxStream", "sid": int(sf.StreamID), "end": int(sf.Offset + sf.Length)})
			}
		}
	case qlog.PacketSent:
		for _, f := range ev.Frames {
			switch fr := f.Frame.(type) {
			case *qlog.MaxStreamDataFrame:
				q.r.add(vtrace.Op{"ev": "TxMaxStreamData", "sid": int(fr.StreamID), "v": int(fr.MaximumStreamData)})
			case *qlog.MaxDataFrame:
				q.r.add(vtrace.Op{"ev": "TxMaxData", "v": int(fr.MaximumData)})
			}
		}
	}
}

func TestVerifC04W(t *testing.T) {
	cases := vtrace.LoadCases(t)
	vtrace.ServerTLS()
	vtrace.RunSharded(t, cases, func(t *testing.T, c vtrace.Case, rec *vtrace.Rec) {
		synctest.Test(t, func(t *testing.T) {
			defer func() {
				if r := recover(); r != nil {
					rec.Add(vtrace.Op{"ev": "Panic", "msg": fmt.Sprint(r)})
				}
			}()
			vfRunFlowWire(c, rec)
		})
	})
}

func vfRunFlowWire(c vtrace.Case, rec *vtrace.Rec) {
	r := &vsRec{rec: rec, start: time.Now()}
	net, cconn, sconn := vtrace.NewNet(5*time.Millisecond, vtrace.FaultsFromOps(c.Ops))
	defer net.Close()
	var frames []vtrace.Frame
	var hello vtrace.ClientHelloView
	net.Tap = func(ev vtrace.NetEvent) {
		if ev.Dir != "c2s" || hello.Complete {
			return
		}
		data := ev.Data
		for len(data) > 0 {
			h := vtrace.ParseHdr(data)
			if h.Kind != "initial" {
				break
			}
			if p := vtrace.OpenInitial(data, h.DCID, true); p.Opened {
				frames = append(frames, p.Frames...)
				b, _, _ := vtrace.Reassemble(frames)
				hello = vtrace.ParseClientHello(b)
			}
			if h.Len <= 0 || h.Len >= len(data) {
				break
			}
			data = data[h.Len:]
		}
	}
	str := &Transport{Conn: sconn}
	ln, err := str.Listen(vtrace.ServerTLS(), &Config{MaxIdleTimeout: 60 * time.Second, MaxIncomingStreams: 100, MaxIncomingUniStreams: 100})
	if err != nil {
		panic(err)
	}
	dial, closeClient, _ := vsDialer(c.Cfg.Str("client"), cconn)
	cconf := &Config{Tracer: func(context.Context, bool, ConnectionID) qlogwriter.Trace { return &vsFlowRecorder{r: r} },
		// the user mirrors / exceeds everything the spec advertises, so that the client itself never objects
		InitialStreamReceiveWindow: 12582912, InitialConnectionReceiveWindow: 25165824,
		MaxStreamReceiveWindow: 1 << 25, MaxConnectionReceiveWindow: 1 << 26, MaxIncomingStreams: 1000, MaxIncomingUniStreams: 1000}
	ctx, cancel := context.WithTimeout(context.Background(), 60*time.Second)
	defer cancel()
	var sc *Conn
	acc := make(chan struct{})
	go func() { defer close(acc); sc, _ = ln.Accept(ctx) }()
	cc, err := dial(ctx, cconf)
	if err != nil {
		r.add(vtrace.Op{"ev": "Note", "msg": "dial: " + vsErrString(err)})
		cancel()
		<-acc
		closeClient()
		ln.Close()
		str.Close()
		return
	}
	<-acc
	tp := func(id uint64) int {
		v, _ := hello.TPVarint(id)
		return int(v)
	}
	r.add(vtrace.Op{"ev": "AdvInit", "adv": map[string]any{"bidi_local": tp(0x05), "bidi_remote": tp(0x06), "uni": tp(0x07), "conn": tp(0x04)}})
	extra := c.Cfg.Int("extra")
	var wg sync.WaitGroup
	push := func(w interface {
		Write([]byte) (int, error)
		SetWriteDeadline(time.Time) error
	}, total int) {
		defer wg.Done()
		w.SetWriteDeadline(time.Now().Add(8 * time.Second))
		buf := make([]byte, 1<<16)
		for done := 0; done < total; {
			n, err := w.Write(buf[:min(len(buf), total-done)])
			done += n
			if err != nil {
				return
			}
		}
	}
	readAll := c.Cfg.Bool("read")
	drain := func(rd interface{ Read([]byte) (int, error) }) {
		buf := make([]byte, 1<<16)
		for {
			if _, err := rd.Read(buf); err != nil {
				return
			}
		}
	}
	// server-initiated bidirectional and unidirectional streams
	if st, err := sc.OpenStreamSync(ctx); err == nil {
		wg.Add(1)
		go push(st, tp(0x06)+extra)
	}
	if st, err := sc.OpenUniStreamSync(ctx); err == nil {
		wg.Add(1)
		go push(st, tp(0x07)+extra)
	}
	// client-initiated bidirectional stream
	if cst, err := cc.OpenStreamSync(ctx); err == nil {
		cst.Write([]byte{1})
		if st, err := sc.AcceptStream(ctx); err == nil {
			wg.Add(1)
			go push(st, tp(0x05)/4+extra)
		}
		if readAll {
			go drain(cst)
		}
	}
	if readAll {
		go func() {
			for {
				st, err := cc.AcceptStream(ctx)
				if err != nil {
					return
				}
				go drain(st)
			}
		}()
		go func() {
			for {
				st, err := cc.AcceptUniStream(ctx)
				if err != nil {
					return
				}
				go drain(st)
			}
		}()
	}
	wg.Wait()
	time.Sleep(200 * time.Millisecond)
	r.add(vtrace.Op{"ev": "End"})
	cancel()
	cc.CloseWithError(0, "")
	sc.CloseWithError(0, "")
	closeClient()
	ln.Close()
	str.Close()
}
