//go:build verif

package quic

// C17 conformance harness: one real connection per case (plain or fingerprint client, in-tree server, simnet in a
// synctest bubble); a set of API calls is blocked on either side, then one cause ends the connection. Every call's
// return (error class, virtual time), the connection contexts, packet deliveries / data-bearing sends (for the idle
// timing) and what is left at the end (calls still blocked, routing entries) are recorded.

import (
	"context"
	"errors"
	"fmt"
	stdnet "net"
	"os"
	"runtime"
	"strings"
	"sync"
	"testing"
	"testing/synctest"
	"time"

	tls "github.com/refraction-networking/utls"

	"github.com/refraction-networking/uquic/internal/qerr"
	"github.com/refraction-networking/uquic/internal/vtrace"
)

func vfErrClass17(err error) string {
	var ae *ApplicationError
	var te *TransportError
	var ie *IdleTimeoutError
	var he *HandshakeTimeoutError
	var re *StatelessResetError
	lr := func(remote bool) string {
		if remote {
			return "remote"
		}
		return "local"
	}
	switch {
	case err == nil:
		return "nil"
	case errors.As(err, &ae):
		return fmt.Sprintf("app:%d:%s", ae.ErrorCode, lr(ae.Remote))
	case errors.As(err, &te):
		return fmt.Sprintf("transport:%d:%s", te.ErrorCode, lr(te.Remote))
	case errors.As(err, &ie):
		return "idle"
	case errors.As(err, &he):
		return "hstimeout"
	case errors.As(err, &re):
		return "reset"
	case errors.Is(err, ErrTransportClosed):
		return "transportclosed"
	case errors.Is(err, ErrServerClosed):
		return "serverclosed"
	case errors.Is(err, context.Canceled):
		return "canceled"
	case errors.Is(err, context.DeadlineExceeded):
		return "deadline"
	}
	_ = qerr.NoError
	return "other:" + strings.SplitN(err.Error(), ":", 2)[0]
}

type vfTD struct {
	r       *vsRec
	mu      sync.Mutex
	nextID  int
	pending map[int]string // call id -> side
	release []func()       // frees calls that are still blocked at the end
	wg      sync.WaitGroup
}

func (td *vfTD) ms() int { return int(time.Since(td.r.start) / time.Millisecond) }

// call runs f in its own goroutine as call of the given kind on side
func (td *vfTD) call(side, kind string, f func() error) {
	td.mu.Lock()
	td.nextID++
	id := td.nextID
	td.pending[id] = side
	td.mu.Unlock()
	td.r.add(vtrace.Op{"ev": "Blocked", "id": id, "side": side, "kind": kind})
	td.wg.Add(1)
	t0 := td.ms()
	go func() {
		defer td.wg.Done()
		err := f()
		td.mu.Lock()
		_, still := td.pending[id]
		delete(td.pending, id)
		td.mu.Unlock()
		if still && err == nil && strings.HasPrefix(kind, "late_") { // a call made after the end must fail with the cause
			td.r.add(vtrace.Op{"ev": "Returned", "id": id, "side": side, "kind": kind, "class": "ok:" + kind, "ok": true, "at": td.ms(), "late": true, "dt": td.ms() - t0})
		} else if still && err == nil { // the call was not blocked after all (e.g. the peer's fingerprint allows more streams): not a teardown event
			td.r.add(vtrace.Op{"ev": "Unblocked", "id": id, "side": side, "kind": kind})
		} else if still {
			td.r.add(vtrace.Op{"ev": "Returned", "id": id, "side": side, "kind": kind, "class": vfErrClass17(err), "at": td.ms(),
				"late": strings.HasPrefix(kind, "late_"), "dt": td.ms() - t0})
		}
	}()
}

// startCalls blocks the requested API calls on conn (side)
func (td *vfTD) startCalls(side string, conn *Conn, kinds []string, endCtx context.Context) {
	var st *Stream
	need := false
	for _, k := range kinds {
		if k == "read" || k == "write" || k == "opensync" {
			need = true
		}
	}
	if need { // the one stream the peer allows: used by read / write, and it makes the next OpenStreamSync block
		s, err := conn.OpenStreamSync(endCtx)
		if err != nil {
			td.r.add(vtrace.Op{"ev": "Note", "msg": "setup open: " + vsErrString(err)})
			return
		}
		s.Write([]byte("x"))
		st = s
		td.release = append(td.release, func() { s.SetDeadline(time.Now()) })
	}
	for _, k := range kinds {
		switch k {
		case "read":
			td.call(side, k, func() error { _, err := st.Read(make([]byte, 10)); return err })
		case "write":
			td.call(side, k, func() error { _, err := st.Write(make([]byte, 3<<20)); return err })
		case "accept", "accept2":
			td.call(side, k, func() error { // an accept loop: streams the peer opens are taken, the call blocks again
				for {
					if _, err := conn.AcceptStream(endCtx); err != nil {
						return err
					}
				}
			})
		case "acceptuni":
			td.call(side, k, func() error {
				for {
					if _, err := conn.AcceptUniStream(endCtx); err != nil {
						return err
					}
				}
			})
		case "opensync":
			td.call(side, k, func() error { _, err := conn.OpenStreamSync(endCtx); return err })
		case "recvdgram":
			td.call(side, k, func() error { _, err := conn.ReceiveDatagram(endCtx); return err })
		}
	}
}

func vfRunTeardown(c vtrace.Case, rec *vtrace.Rec) {
	r := &vsRec{rec: rec, start: time.Now()}
	td := &vfTD{r: r, pending: map[int]string{}}
	net, cconn, sconn := vtrace.NewNet(5*time.Millisecond, nil)
	defer net.Close()
	idle := c.Cfg.Int("idle")
	idleDur := time.Duration(idle) * time.Millisecond
	if idle == 0 {
		idleDur = 60 * time.Second
	}
	cause, cside := c.Cfg.Str("cause"), c.Cfg.Str("side")
	// the two sides may be configured differently, and a fingerprint client may advertise no max_idle_timeout at all
	mul := func(k string) time.Duration {
		if m := c.Cfg.Int(k); m > 1 {
			return time.Duration(m)
		}
		return 1
	}
	cIdle, sIdle := idleDur*mul("cmul"), idleDur*mul("smul")
	fingerprint := c.Cfg.Str("client") != "plain"
	omit := fingerprint && c.Cfg.Bool("omitidle")
	cAdv := int(cIdle / time.Millisecond)
	if omit {
		cAdv = 0
	} else if fingerprint {
		cAdv = -1 // whatever the fingerprint says: read from the spec below
	}
	net.TapDeliver = func(ev vtrace.NetEvent) {
		side := "s"
		if ev.Dir == "s2c" {
			side = "c"
		}
		r.add(vtrace.Op{"ev": "Delivered", "side": side, "at": td.ms()})
	}
	net.Tap = func(ev vtrace.NetEvent) {
		if ev.Len < 60 {
			return // an ACK-only packet does not restart the idle timer
		}
		side := "c"
		if ev.Dir == "s2c" {
			side = "s"
		}
		r.add(vtrace.Op{"ev": "Sent", "side": side, "at": td.ms()})
	}
	key := StatelessResetKey{1, 2, 3}
	str := &Transport{Conn: sconn, StatelessResetKey: &key}
	ctr := &Transport{Conn: cconn}
	sconf := &Config{MaxIdleTimeout: sIdle, MaxIncomingStreams: 1, MaxIncomingUniStreams: 1, EnableDatagrams: true, HandshakeIdleTimeout: 400 * time.Millisecond}
	cconf := &Config{MaxIdleTimeout: cIdle, MaxIncomingStreams: 1, MaxIncomingUniStreams: 1, EnableDatagrams: true, HandshakeIdleTimeout: 400 * time.Millisecond}
	if ka := c.Cfg.Int("keepalive"); ka > 0 {
		cconf.KeepAlivePeriod = time.Duration(ka) * time.Millisecond
	}
	ln, err := str.Listen(vtrace.ServerTLS(), sconf)
	if err != nil {
		panic(err)
	}
	endCtx, endCancel := context.WithCancel(context.Background())
	td.release = append(td.release, endCancel)
	ctls := vtrace.ClientTLS()
	var sp QUICSpec
	if fingerprint {
		var err error
		if sp, err = QUICID2Spec(vsQUICIDs[c.Cfg.Str("client")]); err != nil {
			panic(err)
		}
		if omit {
			sp.SuppressTransportParameters = append(sp.SuppressTransportParameters, 0x01) // max_idle_timeout
		} else {
			cAdv = 0
			if q := vsFindQTP(&sp); q != nil {
				for _, p := range q.TransportParameters {
					if m, ok := p.(tls.MaxIdleTimeout); ok {
						cAdv = int(m)
					}
				}
			}
		}
	}
	r.add(vtrace.Op{"ev": "Start", "ka": c.Cfg.Int("keepalive") > 0,
		"conf": map[string]int{"c": int(cIdle / time.Millisecond), "s": int(sIdle / time.Millisecond)},
		"adv":  map[string]int{"c": cAdv, "s": int(sIdle / time.Millisecond)}})
	dial := func(ctx context.Context) (*Conn, error) {
		if !fingerprint {
			return ctr.Dial(ctx, vtrace.ServerAddr, ctls, cconf)
		}
		return (&UTransport{Transport: ctr, QUICSpec: &sp}).Dial(ctx, vtrace.ServerAddr, ctls, cconf)
	}
	finish := func(conns map[string]*Conn) {
		// what is left: calls still blocked, routing entries
		time.Sleep(3 * time.Second)
		synctest.Wait()
		left := map[string]int{"c": 0, "s": 0}
		td.mu.Lock()
		for id, side := range td.pending {
			left[side]++
			delete(td.pending, id) // reported as left; its late return is not recorded
		}
		td.mu.Unlock()
		routes := func(t *Transport) int {
			t.mutex.Lock()
			defer t.mutex.Unlock()
			return len(t.handlers)
		}
		r.add(vtrace.Op{"ev": "Quiesced", "side": "c", "blocked": left["c"], "routes": routes(ctr)})
		r.add(vtrace.Op{"ev": "Quiesced", "side": "s", "blocked": left["s"], "routes": routes(str)})
		for _, f := range td.release {
			f()
		}
		for _, cn := range conns {
			if cn != nil {
				cn.CloseWithError(0, "")
			}
		}
		td.wg.Wait()
		ln.Close()
		ctr.Close()
		str.Close()
		cconn.Close() // a closed transport no longer reads its socket: unblock the simulated links
		sconn.Close()
		r.add(vtrace.Op{"ev": "End"})
	}
	watch := func(side string, cn *Conn, harnessCause func() bool) {
		go func() {
			<-cn.Context().Done()
			cls := vfErrClass17(context.Cause(cn.Context()))
			if vtrace.Env("VERIF_DEBUG", "") != "" {
				time.Sleep(time.Millisecond)
				r.add(vtrace.Op{"ev": "Note", "msg": fmt.Sprintf("DEBUG %s lastRecv=%v firstAE=%v created=%v idle=%v pto=%v", side, cn.lastPacketReceivedTime.Sub(cn.creationTime), cn.firstAckElicitingPacketAfterIdleSentTime.Sub(cn.creationTime), cn.creationTime, cn.idleTimeout, cn.rttStats.PTO(true))})
			}
			if !harnessCause() {
				r.add(vtrace.Op{"ev": "Cause", "side": side, "kind": "observed", "class": cls, "at": td.ms()})
			}
			r.add(vtrace.Op{"ev": "Ctx", "side": side, "class": cls, "at": td.ms()})
		}()
	}

	// ---- causes during the handshake
	switch cause {
	case "dial_cancel", "hstimeout", "alpn":
		if cause != "alpn" {
			net.SetFaults([]vtrace.Fault{{Dir: "s2c", Kind: "blackout", At: 0, Dur: 600000}})
		} else {
			ctls = vtrace.ClientTLS("nope")
		}
		ctx, cancel := context.WithCancel(context.Background())
		defer cancel()
		if cause == "dial_cancel" {
			go func() {
				time.Sleep(time.Duration(c.Cfg.Int("at")) * time.Millisecond)
				r.add(vtrace.Op{"ev": "Cause", "side": "c", "kind": cause, "class": "canceled", "at": td.ms()})
				cancel()
			}()
		}
		td.call("c", "dial", func() error {
			cn, err := dial(ctx)
			if err == nil {
				cn.CloseWithError(0, "")
			}
			return err
		})
		td.call("s", "accept_conn", func() error {
			actx, acancel := context.WithTimeout(context.Background(), 2500*time.Millisecond)
			defer acancel()
			cn, err := ln.Accept(actx)
			if err == nil {
				<-cn.Context().Done()
				return context.Cause(cn.Context())
			}
			return nil // no connection ever reached the application: nothing to report
		})
		finish(nil)
		return
	}

	// ---- established connection
	var sc *Conn
	acc := make(chan struct{})
	go func() {
		defer close(acc)
		ctx, cancel := context.WithTimeout(context.Background(), 5*time.Second)
		defer cancel()
		sc, _ = ln.Accept(ctx)
	}()
	hctx, hcancel := context.WithTimeout(context.Background(), 5*time.Second)
	cc, err := dial(hctx)
	hcancel()
	<-acc
	if err != nil || sc == nil {
		r.add(vtrace.Op{"ev": "Note", "msg": "handshake failed: " + vsErrString(err)})
		finish(map[string]*Conn{"c": cc, "s": sc})
		return
	}
	conns := map[string]*Conn{"c": cc, "s": sc}
	var hmu sync.Mutex
	harness := map[string]bool{}
	watch("c", cc, func() bool { hmu.Lock(); defer hmu.Unlock(); return harness["c"] })
	watch("s", sc, func() bool { hmu.Lock(); defer hmu.Unlock(); return harness["s"] })
	setCause := func(side, kind, class string, at int) {
		hmu.Lock()
		harness[side] = true
		hmu.Unlock()
		r.add(vtrace.Op{"ev": "Cause", "side": side, "kind": kind, "class": class, "at": at})
	}
	time.Sleep(time.Duration(c.Cfg.Int("settle")) * time.Millisecond)
	if vtrace.Env("VERIF_DEBUG", "") != "" {
		r.add(vtrace.Op{"ev": "Note", "msg": fmt.Sprintf("DEBUG idle c=%v s=%v peer(c)=%v peer(s)=%v", cc.idleTimeout, sc.idleTimeout, cc.peerParams != nil, sc.peerParams.MaxIdleTimeout)})
	}
	var calls = map[string][]string{}
	for _, o := range c.Ops {
		calls[o.Str("side")] = append(calls[o.Str("side")], o.Str("call"))
	}
	td.startCalls("c", cc, calls["c"], endCtx)
	td.startCalls("s", sc, calls["s"], endCtx)
	if c.Cfg.Bool("backlog") { // datagrams nobody reads before the end: what does a ReceiveDatagram made after the end return?
		for side, cn := range map[string]*Conn{"c": cc, "s": sc} {
			reads := false
			for _, k := range calls[map[string]string{"c": "s", "s": "c"}[side]] {
				reads = reads || k == "recvdgram"
			}
			if !reads {
				cn.SendDatagram(make([]byte, 100))
				cn.SendDatagram(make([]byte, 100))
			}
		}
	}
	time.Sleep(40 * time.Millisecond)
	synctest.Wait()

	other := map[string]string{"c": "s", "s": "c"}[cside]
	switch cause {
	case "close":
		lost := c.Cfg.Bool("lossy")
		if lost { // the closing exchange is lost: the peer is on its own
			net.SetFaults([]vtrace.Fault{{Dir: "both", Kind: "blackout", At: td.ms(), Dur: 600000}})
		} else {
			setCause(other, "remote_close", "app:42:remote", td.ms()+5)
		}
		setCause(cside, "local_close", "app:42:local", td.ms())
		conns[cside].CloseWithError(42, "bye")
	case "idle":
		net.SetFaults([]vtrace.Fault{{Dir: "both", Kind: "blackout", At: td.ms(), Dur: 600000}})
		if c.Cfg.Bool("writer") { // the application keeps sending into the void
			stop := time.Now().Add(max(cIdle, sIdle) * 3)
			go func() {
				for time.Now().Before(stop) && cc.Context().Err() == nil {
					cc.SendDatagram(make([]byte, 100))
					time.Sleep(idleDur / 10)
				}
			}()
		}
		time.Sleep(max(cIdle, sIdle)*3 + time.Second)
	case "keepalive":
		time.Sleep(max(cIdle, sIdle) * 4)
		setCause(other, "remote_close", "app:42:remote", td.ms()+5)
		setCause(cside, "local_close", "app:42:local", td.ms())
		conns[cside].CloseWithError(42, "bye")
	case "reset":
		// the server loses every trace of the connection; the client's next packet is answered with a stateless reset
		setCause("s", "destroy", "other:crash", td.ms())
		sc.destroy(errors.New("crash"))
		time.Sleep(20 * time.Millisecond)
		cc.SendDatagram([]byte("anyone there?"))
		time.Sleep(500 * time.Millisecond)
	case "transport_close":
		tr := map[string]*Transport{"c": ctr, "s": str}[cside]
		setCause(cside, "transport_close", "transportclosed", td.ms())
		if cside == "s" {
			ln.Close()
		}
		tr.Close()
	}
	time.Sleep(time.Second)
	synctest.Wait()
	// calls made after the end return at once
	for side, cn := range conns {
		if cn.Context().Err() == nil {
			continue
		}
		cn := cn
		td.call(side, "late_open", func() error { _, err := cn.OpenStreamSync(endCtx); return err })
		td.call(side, "late_accept", func() error { _, err := cn.AcceptStream(endCtx); return err })
		td.call(side, "late_acceptuni", func() error { _, err := cn.AcceptUniStream(endCtx); return err })
		td.call(side, "late_openuni", func() error { _, err := cn.OpenUniStreamSync(endCtx); return err })
		td.call(side, "late_senddgram", func() error { return cn.SendDatagram([]byte("late")) })
		td.call(side, "late_recvdgram", func() error { _, err := cn.ReceiveDatagram(endCtx); return err })
	}
	time.Sleep(50 * time.Millisecond)
	// a side the cause never reached (peer not informed, by design of the scenario) is closed by its application now
	for side, cn := range conns {
		if cn.Context().Err() == nil {
			setCause(side, "local_close", "app:99:local", td.ms())
			cn.CloseWithError(99, "done")
		}
	}
	finish(nil)
	_ = stdnet.ErrClosed
}

func TestVerifC17(t *testing.T) {
	cases := vtrace.LoadCases(t)
	vtrace.ServerTLS()
	vtrace.RunSharded(t, cases, func(t *testing.T, c vtrace.Case, rec *vtrace.Rec) {
		synctest.Test(t, func(t *testing.T) {
			defer func() {
				if vtrace.Env("VERIF_NORECOVER", "") != "" {
					return
				}
				if r := recover(); r != nil {
					rec.Add(vtrace.Op{"ev": "Panic", "msg": fmt.Sprint(r)})
					if dir := vtrace.Env("VERIF_OUT", ""); dir != "" { // debugging aid: where is everybody?
						buf := make([]byte, 1<<22)
						os.WriteFile(fmt.Sprintf("%s/panic.%d.txt", dir, time.Now().UnixNano()), buf[:runtime.Stack(buf, true)], 0o644)
					}
				}
			}()
			vfRunTeardown(c, rec)
		})
	})
}
