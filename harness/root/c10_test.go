//go:build verif

package quic

// C10 / C11 conformance harness: a QUICSpec is built from enumerated knobs, dialled several times into a socket
// that never answers; every Initial packet of the first flight is decrypted by the independent observer and
// logged (header fields, numbering, token, frames, sizes) together with the ClientHello's transport parameters.

import (
	"context"
	"encoding/hex"
	"fmt"
	"slices"
	"testing"
	"testing/synctest"
	"time"

	"github.com/refraction-networking/uquic/internal/vtrace"
	tls "github.com/refraction-networking/utls"
)

func TestVerifC10(t *testing.T) {
	cases := vtrace.LoadCases(t)
	vtrace.ServerTLS()
	vtrace.RunSharded(t, cases, func(t *testing.T, c vtrace.Case, rec *vtrace.Rec) {
		synctest.Test(t, func(t *testing.T) {
			defer func() {
				if vtrace.Env("VERIF_NORECOVER", "") != "" {
					return
				}
				if r := recover(); r != nil {
					rec.Add(vtrace.Op{"ev": "Panic", "msg": fmt.Sprint(r)})
				}
			}()
			vfRunFlight(c, rec)
		})
	})
}

func vsFindQTP(sp *QUICSpec) *tls.QUICTransportParametersExtension {
	for _, ext := range sp.ClientHelloSpec.Extensions {
		if q, ok := ext.(*tls.QUICTransportParametersExtension); ok {
			return q
		}
	}
	return nil
}

// vsBuildSpec derives a QUICSpec from the knobs of the case.
func vsBuildSpec(k vtrace.Op) *QUICSpec {
	id, ok := vsQUICIDs[k.Str("base")]
	if !ok {
		panic("unknown base " + k.Str("base"))
	}
	sp, err := QUICID2Spec(id)
	if err != nil {
		panic(err)
	}
	ips := &sp.InitialPacketSpec
	if k.Has("dcidlen") {
		ips.DestConnIDLength = k.Int("dcidlen")
	}
	if k.Has("scidlen") {
		ips.SrcConnIDLength = k.Int("scidlen")
	}
	if k.Has("pn0") {
		ips.InitPacketNumber = uint64(k.Int("pn0"))
		if k.Int("pn0") < 0 { // beyond 2^62-1
			ips.InitPacketNumber = 1<<62 + 5
		}
	}
	if k.Has("pnlen") {
		ips.InitPacketNumberLength = PacketNumberLen(k.Int("pnlen"))
	}
	if k.Has("pnlens") {
		ips.InitPacketNumberLengths = nil
		for _, l := range k.Ints("pnlens") {
			ips.InitPacketNumberLengths = append(ips.InitPacketNumberLengths, PacketNumberLen(l))
		}
	}
	if k.Has("tokpre") || k.Has("toklen") {
		pre, _ := hex.DecodeString(k.Str("tokpre"))
		ips.ClientTokenPrefix, ips.ClientTokenLength = pre, k.Int("toklen")
	}
	switch k.Str("fb") {
	case "", "base":
	case "nil":
		ips.FrameBuilder = nil
	case "empty":
		ips.FrameBuilder = QUICFrames{}
	case "random":
		o := k.Obj("fbp")
		ips.FrameBuilder = &QUICRandomFrames{MinPING: uint8(o.Int("minping")), MaxPING: uint8(o.Int("maxping")), MinCRYPTO: uint8(o.Int("mincrypto")),
			MaxCRYPTO: uint8(o.Int("maxcrypto")), MinPADDING: uint8(o.Int("minpad")), MaxPADDING: uint8(o.Int("maxpad")), Length: uint16(o.Int("length"))}
	}
	if k.Has("plan") {
		ips.InitialPackets = nil
		for _, p := range k.Ops("plan") {
			ips.InitialPackets = append(ips.InitialPackets, InitialPacketPlan{CryptoLength: p.Int("crypto"), PacketSize: p.Int("size")})
		}
	}
	if k.Has("udpmin") {
		sp.UDPDatagramMinSize = k.Int("udpmin")
	}
	if k.Has("tps") { // replace the transport-parameter list (initial_source_connection_id stays, the server needs it)
		q := vsFindQTP(&sp)
		var list tls.TransportParameters
		for _, p := range k.Ops("tps") {
			switch p.Str("t") {
			case "std":
				switch p.Int("id") {
				case 0x04:
					list = append(list, tls.InitialMaxData(uint64(p.Int("v"))))
				case 0x09:
					list = append(list, tls.InitialMaxStreamsUni(uint64(p.Int("v"))))
				case 0x01:
					list = append(list, tls.MaxIdleTimeout(uint64(p.Int("v"))))
				case 0x07:
					list = append(list, tls.InitialMaxStreamDataUni(uint64(p.Int("v"))))
				case 0x0f:
					list = append(list, tls.InitialSourceConnectionID([]byte{}))
				default:
					list = append(list, &tls.FakeQUICTransportParameter{Id: uint64(p.Int("id")), Val: []byte{byte(p.Int("v"))}})
				}
			case "fake":
				list = append(list, &tls.FakeQUICTransportParameter{Id: uint64(p.Int("id")), Val: []byte{byte(p.Int("v")), 0x55}})
			case "grease":
				list = append(list, &tls.GREASETransportParameter{Length: uint16(p.Int("v"))})
			case "grease_len":
				list = append(list, VariableLengthGREASEQTP(p.Int("v")))
			}
		}
		q.TransportParameters = list
	}
	if k.Has("suppress") {
		for _, id := range k.Ints("suppress") {
			sp.SuppressTransportParameters = append(sp.SuppressTransportParameters, uint64(id))
		}
	}
	if k.Has("randomize") {
		sp.RandomizeTransportParameters = k.Bool("randomize")
		if !k.Bool("randomize") && k.Has("tps") {
			// the list given is the order expected on the wire
		}
	}
	return &sp
}

func vsIsGREASE(v uint16) bool { return v&0x0f0f == 0x0a0a && v>>8 == v&0xff }

// vsExpectedHello: the cipher suites and extension identifiers the ClientHelloSpec of sp prescribes, in order.
// GREASE placeholders are -1; extensions whose identifier cannot be read off the value are -2 (not judged).
func vsExpectedHello(sp *QUICSpec) (exts, ciphers []int) {
	for _, cs := range sp.ClientHelloSpec.CipherSuites {
		if cs == tls.GREASE_PLACEHOLDER || vsIsGREASE(cs) {
			ciphers = append(ciphers, -1)
		} else {
			ciphers = append(ciphers, int(cs))
		}
	}
	for _, ext := range sp.ClientHelloSpec.Extensions {
		id := -2
		switch ext.(type) {
		case *tls.UtlsGREASEExtension:
			id = -1
		case *tls.UtlsPaddingExtension:
			id = 21
		case *tls.SNIExtension:
			id = 0 // the name is filled in from the tls.Config at dial time
		case *tls.QUICTransportParametersExtension:
			id = 57 // not read here: reading it would make utls cache the marshalled parameters before the dial
		default:
			func() {
				defer func() { recover() }()
				buf := make([]byte, ext.Len()+8)
				if n, _ := ext.Read(buf); n >= 2 {
					id = int(buf[0])<<8 | int(buf[1])
				}
			}()
		}
		exts = append(exts, id)
	}
	return
}

// vsHelloMatches: wire carries exactly the prescribed list in order; padding (21) and pre_shared_key (41) may be omitted
func vsHelloMatches(expected []int, wire []uint16, optional map[int]bool) bool {
	j := 0
	for _, e := range expected {
		if e == -2 {
			return true // an extension the harness cannot identify: not judged
		}
		w := -3
		if j < len(wire) {
			w = int(wire[j])
			if vsIsGREASE(wire[j]) {
				w = -1
			}
		}
		if w == e {
			j++
			continue
		}
		if optional[e] {
			continue
		}
		return false
	}
	return j == len(wire)
}

func vfRunFlight(c vtrace.Case, rec *vtrace.Rec) {
	r := &vsRec{rec: rec, start: time.Now()}
	net, cconn, sconn := vtrace.NewNet(5*time.Millisecond, nil)
	defer net.Close()
	go func() { // the silent peer: reads and discards
		buf := make([]byte, 2048)
		for {
			if _, _, err := sconn.ReadFrom(buf); err != nil {
				return
			}
		}
	}()
	defer sconn.Close()
	sp := vsBuildSpec(c.Cfg)
	expExts, expCiphers := vsExpectedHello(sp) // read before any dial touches the spec value
	ids := []int{}
	for _, id := range sp.TransportParameterIDs() {
		ids = append(ids, int(id&0x3fffffff))
	}
	unk := []string{}
	for i, e := range expExts {
		if e == -2 {
			unk = append(unk, fmt.Sprintf("%T", sp.ClientHelloSpec.Extensions[i]))
		}
	}
	r.add(vtrace.Op{"ev": "Reported", "ids": ids, "unk": unk})
	tr := &Transport{Conn: cconn}
	ut := &UTransport{Transport: tr, QUICSpec: sp}
	dial := 0
	var buf []vtrace.Op // lines of the current dial, emitted at its end
	var frames []vtrace.Frame
	var odcid []byte
	pktIdx, dgIdx := 0, 0
	firstPN := sp.InitialPacketSpec.InitPacketNumber // what the observer expects (it knows the spec, a server would start from 0)
	if firstPN > 1<<62-1 {
		firstPN = 0
	}
	chDone := false
	net.Tap = func(ev vtrace.NetEvent) {
		if ev.Dir != "c2s" {
			return
		}
		if time.Since(r.start) > 0 && ev.T > 150*time.Millisecond {
			return // first flight only (before the first PTO)
		}
		data := ev.Data
		first := true
		for len(data) > 0 {
			h := vtrace.ParseHdr(data)
			if h.Kind != "initial" {
				break
			}
			if odcid == nil {
				odcid = append([]byte(nil), h.DCID...)
			}
			p := vtrace.OpenInitialWithPN(data, odcid, true, firstPN+uint64(pktIdx))
			fr := [][]any{}
			ncrypto, nping, npad, cbytes, cmin := 0, 0, 0, 0, -1
			for _, f := range p.Frames {
				fr = append(fr, []any{f.Type, f.Off, f.Len})
				switch f.Type {
				case "crypto":
					ncrypto++
					cbytes += f.Len
					if cmin < 0 || f.Off < cmin {
						cmin = f.Off
					}
				case "ping":
					nping++
				case "padding":
					npad++
				}
			}
			line := vtrace.Op{"ev": "Pkt", "dial": dial, "idx": pktIdx, "dg": dgIdx, "first": first, "dlen": ev.Len, "size": h.Len,
				"dcidlen": len(h.DCID), "scidlen": len(h.SCID), "pn": int(p.PN), "pnlen": p.PNLen, "toklen": len(h.Token),
				"tok": hex.EncodeToString(h.Token), "opened": p.Opened, "err": p.Err, "ncrypto": ncrypto, "nping": nping, "npad": npad,
				"cbytes": cbytes, "cmin": cmin, "frames": fr, "ver": vsVerNum(h.Version)}
			line["cend"] = cmin + cbytes
			buf = append(buf, line)
			pktIdx++
			first = false
			if p.Opened && !chDone {
				frames = append(frames, p.Frames...)
				b, _, conflict := vtrace.Reassemble(frames)
				ch := vtrace.ParseClientHello(b)
				if ch.Complete {
					chDone = true
					tps := [][]any{}
					for _, tp := range ch.TPs {
						cid := int(tp.ID & 0x3fffffff)
						if tp.ID%31 == 27 {
							cid = 27 // canonical GREASE identifier
						}
						tps = append(tps, []any{cid, hex.EncodeToString(tp.Val), tp.ID%31 == 27})
					}
					exts, cs := []int{}, []int{}
					for _, e := range ch.ExtIDs {
						exts = append(exts, int(e))
					}
					for _, s := range ch.CipherSuites {
						cs = append(cs, int(s))
					}
					buf = append(buf, vtrace.Op{"ev": "CH", "dial": dial, "len": ch.Len, "tps": tps, "exts": exts, "ciphers": cs, "conflict": conflict, "tperr": ch.TPErr,
						"extsok": vsHelloMatches(expExts, ch.ExtIDs, map[int]bool{21: true, 41: true}), "ciphersok": vsHelloMatches(expCiphers, ch.CipherSuites, nil), "extsjudged": !slices.Contains(expExts, -2)})
				}
			}
			if h.Len <= 0 || h.Len >= len(data) {
				break
			}
			data = data[h.Len:]
		}
		dgIdx++
	}
	for dial = 1; dial <= c.Cfg.Int("dials"); dial++ {
		net.ResetOrdinals()
		frames, odcid, pktIdx, dgIdx, chDone = nil, nil, 0, 0, false
		if dial > 1 {
			ut.QUICSpec = vsBuildSpec(c.Cfg) // a fresh spec value per dial (reusing one value is C02's subject)
			expExts, expCiphers = vsExpectedHello(ut.QUICSpec)
		}
		r.add(vtrace.Op{"ev": "DialStart", "dial": dial})
		ctx, cancel := context.WithTimeout(context.Background(), 120*time.Millisecond)
		_, err := ut.Dial(ctx, vtrace.ServerAddr, vtrace.ClientTLS(), &Config{})
		cancel()
		time.Sleep(50 * time.Millisecond)
		chLen := 0
		for _, l := range buf {
			if l.Str("ev") == "CH" {
				chLen = l.Int("len")
			}
		}
		pre, _ := hex.DecodeString(c.Cfg.Str("tokpre"))
		for _, l := range buf {
			if l.Str("ev") == "Pkt" {
				l["last"] = l.Int("cbytes") > 0 && l.Int("cend") >= chLen
				tok, _ := hex.DecodeString(l.Str("tok"))
				l["tokpreok"] = len(tok) >= len(pre) && string(tok[:len(pre)]) == string(pre)
			}
			r.add(l)
		}
		buf = nil
		r.add(vtrace.Op{"ev": "DialEnd", "dial": dial, "chdone": chDone, "err": vsErrString(err)})
	}
	r.add(vtrace.Op{"ev": "End"})
	tr.Close()
}
