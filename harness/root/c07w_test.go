//go:build verif

package quic

// C07 at the connection level: whether the ACKs the tracker declares due actually leave the endpoint in time,
// whatever else the connection is busy with (congestion limited, application limited, bulk transfer with loss).
// Both endpoints are real; the 1-RTT packets each of them processed and the ACK frames each of them sent are
// recorded through Config.Tracer in virtual time and validated against specs/AckGen/AckWire.

import (
	"context"
	"fmt"
	"io"
	"strings"
	"sync"
	"sync/atomic"
	"testing"
	"testing/synctest"
	"time"

	"github.com/refraction-networking/uquic/internal/vtrace"
	"github.com/refraction-networking/uquic/qlog"
	"github.com/refraction-networking/uquic/qlogwriter"
)

type vsAckWire struct {
	r    *vsRec
	side string
	done *atomic.Bool
}

func (q *vsAckWire) AddProducer() qlogwriter.Recorder { return q }
func (q *vsAckWire) SupportsSchemas(string) bool       { return true }
func (q *vsAckWire) Close() error                      { return nil }
func (q *vsAckWire) RecordEvent(e qlogwriter.Event) {
	if q.done.Load() {
		return
	}
	switch ev := e.(type) {
	case qlog.PacketReceived:
		if ev.Header.PacketType != qlog.PacketType1RTT && ev.Header.PacketType != qlog.PacketType0RTT {
			return
		}
		ae := false
		for _, f := range ev.Frames {
			// ack-eliciting: everything but ACK and CONNECTION_CLOSE (PADDING is not reported as a frame)
			name := fmt.Sprintf("%T", f.Frame)
			if !strings.HasSuffix(name, ".AckFrame") && !strings.HasSuffix(name, ".ConnectionCloseFrame") {
				ae = true
			}
		}
		q.r.add(vtrace.Op{"ev": "Rx", "side": q.side, "pn": int(ev.Header.PacketNumber), "ae": ae})
	case qlog.PacketSent:
		if ev.Header.PacketType != qlog.PacketType1RTT {
			return
		}
		for _, f := range ev.Frames {
			if a, ok := f.Frame.(*qlog.AckFrame); ok {
				rs := make([][2]int, 0, len(a.AckRanges))
				for _, r := range a.AckRanges {
					rs = append(rs, [2]int{int(r.Smallest), int(r.Largest)})
				}
				q.r.add(vtrace.Op{"ev": "TxAck", "side": q.side, "ranges": rs})
			}
		}
	}
}

func vfRunAckWire(c vtrace.Case, rec *vtrace.Rec) {
	r := &vsRec{rec: rec, start: time.Now()}
	net, cconn, sconn := vtrace.NewNet(5*time.Millisecond, nil)
	defer net.Close()
	var done atomic.Bool
	str := &Transport{Conn: sconn}
	tracer := func(side string) func(context.Context, bool, ConnectionID) qlogwriter.Trace {
		return func(context.Context, bool, ConnectionID) qlogwriter.Trace { return &vsAckWire{r: r, side: side, done: &done} }
	}
	sconf := &Config{EnableDatagrams: true, MaxIdleTimeout: 120 * time.Second, Tracer: tracer("s")}
	cconf := &Config{EnableDatagrams: true, MaxIdleTimeout: 120 * time.Second, Tracer: tracer("c")}
	ln, err := str.Listen(vtrace.ServerTLS(), sconf)
	if err != nil {
		panic(err)
	}
	dial, closeClient, _ := vsDialer(c.Cfg.Str("client"), cconn)
	ctx, cancel := context.WithTimeout(context.Background(), 10*time.Second)
	defer cancel()
	var sc *Conn
	acc := make(chan struct{})
	go func() { defer close(acc); sc, _ = ln.Accept(ctx) }()
	cc, err := dial(ctx, cconf)
	<-acc
	finish := func() {
		done.Store(true)
		if cc != nil {
			cc.CloseWithError(0, "")
		}
		if sc != nil {
			sc.CloseWithError(0, "")
		}
		time.Sleep(100 * time.Millisecond)
		closeClient()
		ln.Close()
		str.Close()
		cconn.Close()
		sconn.Close()
	}
	if err != nil || sc == nil {
		r.add(vtrace.Op{"ev": "Note", "msg": "handshake failed: " + vsErrString(err)})
		finish()
		return
	}
	time.Sleep(500 * time.Millisecond) // the handshake's tail (HANDSHAKE_DONE, NEW_CONNECTION_ID, tokens) is acknowledged
	synctest.Wait()
	conns := map[string]*Conn{"c": cc, "s": sc}
	x := c.Cfg.Str("side") // the endpoint that is kept busy
	y := map[string]string{"c": "s", "s": "c"}[x]
	xy := map[string]string{"c": "c2s", "s": "s2c"}[x]
	yx := map[string]string{"c": "c2s", "s": "s2c"}[y]
	now := func() int { return int(time.Since(r.start) / time.Millisecond) }
	var wg sync.WaitGroup
	switch c.Cfg.Str("scen") {
	case "limited":
		// x writes into a dead network until its congestion window is full; then one lone ack-eliciting packet of y gets through
		delta := c.Cfg.Int("a")
		t0 := now()
		net.SetFaults([]vtrace.Fault{
			{Dir: xy, Kind: "blackout", At: t0, Dur: 600000},
			{Dir: yx, Kind: "blackout", At: t0, Dur: delta - 1},
			{Dir: yx, Kind: "blackout", At: t0 + delta + 2, Dur: 600000},
		})
		st, err := conns[x].OpenUniStream()
		if err != nil {
			panic(err)
		}
		wg.Add(1)
		go func() {
			defer wg.Done()
			st.SetWriteDeadline(time.Now().Add(3 * time.Second))
			st.Write(make([]byte, 400<<10))
		}()
		time.Sleep(time.Duration(delta) * time.Millisecond)
		conns[y].SendDatagram([]byte("lone packet"))
		time.Sleep(1500 * time.Millisecond)
	case "sparse":
		// an application-limited connection: y sends lone packets, a and b ms apart
		gaps := []int{c.Cfg.Int("a"), c.Cfg.Int("b"), c.Cfg.Int("a"), c.Cfg.Int("b"), c.Cfg.Int("a")}
		for i, g := range gaps {
			if i%2 == 0 {
				conns[y].SendDatagram([]byte("lone packet"))
			} else if s, err := conns[y].OpenUniStream(); err == nil {
				s.Write([]byte("x"))
				s.Close()
			}
			time.Sleep(time.Duration(g) * time.Millisecond)
		}
		time.Sleep(200 * time.Millisecond)
	case "bulk":
		// x uploads under random loss (a per mille, seed b), y reads and answers with small messages now and then
		net.SetFaults([]vtrace.Fault{{Dir: "both", Kind: "rand", Arg: c.Cfg.Int("a"), At: c.Cfg.Int("b"), From: 1}})
		st, err := conns[x].OpenUniStream()
		if err != nil {
			panic(err)
		}
		wg.Add(2)
		go func() {
			defer wg.Done()
			st.SetWriteDeadline(time.Now().Add(20 * time.Second))
			st.Write(make([]byte, 300<<10))
			st.Close()
		}()
		go func() {
			defer wg.Done()
			actx, acancel := context.WithTimeout(context.Background(), 20*time.Second)
			defer acancel()
			rs, err := conns[y].AcceptUniStream(actx)
			if err != nil {
				return
			}
			rs.SetReadDeadline(time.Now().Add(20 * time.Second))
			buf := make([]byte, 32<<10)
			n := 0
			for {
				k, err := rs.Read(buf)
				n += k
				if n > 60<<10 {
					n = 0
					conns[y].SendDatagram([]byte("progress"))
				}
				if err != nil {
					if err != io.EOF {
						r.add(vtrace.Op{"ev": "Note", "msg": "read: " + vsErrString(err)})
					}
					return
				}
			}
		}()
		wg.Wait()
		time.Sleep(300 * time.Millisecond)
	}
	synctest.Wait()
	r.add(vtrace.Op{"ev": "End"})
	done.Store(true)
	net.SetFaults(nil)
	finish()
	wg.Wait()
}

func TestVerifC07W(t *testing.T) {
	cases := vtrace.LoadCases(t)
	vtrace.ServerTLS()
	vtrace.RunSharded(t, cases, func(t *testing.T, c vtrace.Case, rec *vtrace.Rec) {
		synctest.Test(t, func(t *testing.T) {
			defer func() {
				if r := recover(); r != nil {
					rec.Add(vtrace.Op{"ev": "Panic", "msg": fmt.Sprint(r)})
				}
			}()
			vfRunAckWire(c, rec)
		})
	})
}
