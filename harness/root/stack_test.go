//go:build verif

package quic

// Shared whole-stack helpers: client (plain Transport or UTransport with a fingerprint spec) and the
// in-tree server over the simulated network of package vtrace, inside a synctest bubble.

import (
	"context"
	"fmt"
	"strings"
	"sync"
	"time"

	"github.com/refraction-networking/uquic/internal/protocol"
	"github.com/refraction-networking/uquic/internal/vtrace"
	"github.com/refraction-networking/uquic/testutils/simnet"
)

// vsRec is the globally ordered recorder of one execution: every event is appended under one mutex.
type vsRec struct {
	mu    sync.Mutex
	rec   *vtrace.Rec
	start time.Time
}

func (r *vsRec) add(o vtrace.Op) {
	r.mu.Lock()
	o["t"] = int(time.Since(r.start) / time.Microsecond)
	r.rec.Add(o)
	r.mu.Unlock()
}

var vsQUICIDs = map[string]QUICID{
	"chrome115": QUICChrome_115_IPv4, "chrome115v6": QUICChrome_115_IPv6,
	"firefox116": QUICFirefox_116A, "firefox116b": QUICFirefox_116B, "firefox116c": QUICFirefox_116C,
	"chrome146": QUICChrome_146_IPv4, "chrome146v6": QUICChrome_146_IPv6,
}

func vsVersion(v int) protocol.Version {
	if v == 2 {
		return protocol.Version2
	}
	return protocol.Version1
}

// vsDialer returns a dial function for the client kind ("plain", "unil" = UTransport without spec, or a QUICID name).
// The returned spec pointer is shared by every dial made through the dialer.
func vsDialer(kind string, conn *simnet.SimConn) (dial func(ctx context.Context, conf *Config) (*Conn, error), closeTr func(), spec *QUICSpec) {
	tr := &Transport{Conn: conn}
	switch kind {
	case "plain":
		return func(ctx context.Context, conf *Config) (*Conn, error) {
			return tr.Dial(ctx, vtrace.ServerAddr, vtrace.ClientTLS(), conf)
		}, func() { tr.Close() }, nil
	case "unil":
		ut := &UTransport{Transport: tr}
		return func(ctx context.Context, conf *Config) (*Conn, error) {
			return ut.Dial(ctx, vtrace.ServerAddr, vtrace.ClientTLS(), conf)
		}, func() { tr.Close() }, nil
	}
	base, variant, _ := strings.Cut(kind, "+")
	id, ok := vsQUICIDs[base]
	if !ok {
		panic("unknown client kind " + kind)
	}
	sp, err := QUICID2Spec(id)
	if err != nil {
		panic(err)
	}
	// derived specs (C02: "a spec derived from one without removing parameters the peer requires")
	for _, v := range strings.Split(variant, "+") {
		switch v {
		case "":
		case "nofb": // default framing of the Initial CRYPTO stream
			sp.InitialPacketSpec.FrameBuilder = nil
		case "emptyfb":
			sp.InitialPacketSpec.FrameBuilder = QUICFrames{}
		case "plan999":
			sp.InitialPacketSpec.FrameBuilder = nil
			sp.InitialPacketSpec.InitialPackets = []InitialPacketPlan{{CryptoLength: 999, PacketSize: 1200}}
		case "tok": // synthesised token
			sp.InitialPacketSpec.ClientTokenPrefix = []byte{0xc3, 0xec, 0x05}
			sp.InitialPacketSpec.ClientTokenLength = 32
		case "pn": // unusual first packet number and encodings
			sp.InitialPacketSpec.InitPacketNumber = 70000
			sp.InitialPacketSpec.InitPacketNumberLength = 0
			sp.InitialPacketSpec.InitPacketNumberLengths = []PacketNumberLen{4, 3, 4}
		case "shuffle":
			sp.RandomizeTransportParameters = true
		case "cid":
			sp.InitialPacketSpec.SrcConnIDLength = 7
			sp.InitialPacketSpec.DestConnIDLength = 17
		case "suppress": // drop real parameters from the wire: idle timeout, datagram support, bidi stream count
			sp.SuppressTransportParameters = []uint64{0x01, 0x20, 0x08}
		case "udp1350":
			sp.UDPDatagramMinSize = 1350
		default:
			panic("unknown spec variant " + v)
		}
	}
	ut := &UTransport{Transport: tr, QUICSpec: &sp}
	return func(ctx context.Context, conf *Config) (*Conn, error) {
		return ut.Dial(ctx, vtrace.ServerAddr, vtrace.ClientTLS(), conf)
	}, func() { tr.Close() }, &sp
}

func vsContent(s, off int) byte { return byte(off*31 + s*17 + (off/251)*7 + 3) }

func vsFill(s, off, n int) []byte {
	b := make([]byte, n)
	for i := range b {
		b[i] = vsContent(s, off+i)
	}
	return b
}

func vsContentOK(s int, b []byte, off int) bool {
	for i := range b {
		if b[i] != vsContent(s, off+i) {
			return false
		}
	}
	return true
}

func vsErrString(err error) string {
	if err == nil {
		return ""
	}
	return fmt.Sprintf("%T:%v", err, err)
}
