//go:build verif

package quic

// C13 conformance harness: handshakes with faults and an attacker who injects forged Version Negotiation,
// Retry and Initial packets at enumerated points (reusing the dial harness of C02), and 0-RTT
// accept / reject scenarios.

import (
	"context"
	"fmt"
	"io"
	"strconv"
	"strings"
	"sync"
	"testing"
	"testing/synctest"
	"time"

	"github.com/refraction-networking/uquic/internal/vtrace"
	tls "github.com/refraction-networking/utls"
)

func TestVerifC13(t *testing.T) {
	cases := vtrace.LoadCases(t)
	vtrace.ServerTLS()
	vtrace.RunSharded(t, cases, func(t *testing.T, c vtrace.Case, rec *vtrace.Rec) {
		synctest.Test(t, func(t *testing.T) {
			defer func() {
				if r := recover(); r != nil {
					rec.Add(vtrace.Op{"ev": "Panic", "msg": fmt.Sprint(r)})
				}
			}()
			if c.Cfg.Str("scenario") == "zerortt" {
				vfRunZeroRTT(c, rec)
			} else {
				vfRunDials(c, rec)
			}
		})
	})
}

func vfRunZeroRTT(c vtrace.Case, rec *vtrace.Rec) {
	r := &vsRec{rec: rec, start: time.Now()}
	net, cconn, sconn := vtrace.NewNet(5*time.Millisecond, nil)
	defer net.Close()
	newDial := vsWireTaps(net, r, nil)
	stls := vtrace.ServerTLS()
	ctls := vtrace.ClientTLS()
	ctls.ClientSessionCache = tls.NewLRUClientSessionCache(10)
	ctr := &Transport{Conn: cconn}
	str := &Transport{Conn: sconn}
	accept2 := c.Cfg.Bool("accept")
	nEarly := c.Cfg.Int("streams")

	for dial := 1; dial <= 2; dial++ {
		sconf := &Config{MaxIdleTimeout: 20 * time.Second, Allow0RTT: dial == 1 || accept2}
		ln, err := str.ListenEarly(stls, sconf)
		if err != nil {
			panic(err)
		}
		net.ResetOrdinals()
		if dial == 2 {
			net.SetFaults(vtrace.FaultsFromOps(c.Ops))
		}
		newDial()
		r.add(vtrace.Op{"ev": "DialStart", "i": dial})
		ctx, cancel := context.WithTimeout(context.Background(), 15*time.Second)
		var wg sync.WaitGroup
		wg.Add(1)
		go func() { // server: accept the connection, read every stream, echo non-early ones
			defer wg.Done()
			sc, err := ln.Accept(ctx)
			if err != nil {
				r.add(vtrace.Op{"ev": "AcceptEnd", "res": "err", "ver": 0, "err": vsErrString(err)})
				return
			}
			go func() {
				select {
				case <-sc.HandshakeComplete():
					r.add(vtrace.Op{"ev": "AcceptEnd", "res": "ok", "ver": vsVerNum(uint32(sc.ConnectionState().Version))})
				case <-sc.Context().Done():
					r.add(vtrace.Op{"ev": "AcceptEnd", "res": "err", "ver": 0, "err": vsErrString(context.Cause(sc.Context()))})
				}
			}()
			for {
				st, err := sc.AcceptStream(context.Background())
				if err != nil {
					return
				}
				go func() {
					b, err := io.ReadAll(st)
					if err != nil {
						return
					}
					if strings.HasPrefix(string(b), "early-") {
						sid, _ := strconv.Atoi(strings.TrimPrefix(string(b), "early-"))
						r.add(vtrace.Op{"ev": "EarlyDelivered", "sid": sid})
						st.Close()
						return
					}
					st.Write(b)
					st.Close()
				}()
			}
		}()
		var cc *Conn
		if dial == 1 {
			cc, err = ctr.Dial(ctx, vtrace.ServerAddr, ctls, &Config{MaxIdleTimeout: 20 * time.Second})
		} else {
			cc, err = ctr.DialEarly(ctx, vtrace.ServerAddr, ctls, &Config{MaxIdleTimeout: 20 * time.Second})
		}
		if err != nil {
			r.add(vtrace.Op{"ev": "DialEnd", "res": "err", "ver": 0, "err": vsErrString(err)})
		} else {
			if dial == 2 {
				for sid := 1; sid <= nEarly; sid++ {
					st, err := cc.OpenStream()
					if err != nil {
						break
					}
					r.add(vtrace.Op{"ev": "EarlyWrite", "sid": sid})
					st.Write([]byte("early-" + strconv.Itoa(sid)))
					st.Close()
				}
				select {
				case <-cc.HandshakeComplete():
				case <-cc.Context().Done():
				}
				if cc.ConnectionState().Used0RTT {
					r.add(vtrace.Op{"ev": "EarlyOutcome", "used": "accepted"})
				} else {
					r.add(vtrace.Op{"ev": "EarlyOutcome", "used": "rejected"})
					if nc, err := cc.NextConnection(ctx); err == nil {
						cc = nc
					}
				}
			}
			select {
			case <-cc.HandshakeComplete():
				r.add(vtrace.Op{"ev": "DialEnd", "res": "ok", "ver": vsVerNum(uint32(cc.ConnectionState().Version))})
			case <-cc.Context().Done():
				r.add(vtrace.Op{"ev": "DialEnd", "res": "err", "ver": 0, "err": vsErrString(context.Cause(cc.Context()))})
			}
			ok := false
			payload := vsFill(9, 0, 2000)
			if st, err := cc.OpenStreamSync(ctx); err == nil {
				st.Write(payload)
				st.Close()
				b, err := io.ReadAll(st)
				ok = err == nil && string(b) == string(payload)
			}
			r.add(vtrace.Op{"ev": "Echo", "ok": ok})
			time.Sleep(300 * time.Millisecond) // session ticket / late retransmissions
			cc.CloseWithError(0, "")
		}
		cancel()
		time.Sleep(300 * time.Millisecond)
		ln.Close()
		wg.Wait()
		r.add(vtrace.Op{"ev": "DialDone"})
	}
	ctr.Close()
	str.Close()
}
