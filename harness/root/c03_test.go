//go:build verif

package quic

// C03 conformance harness: executes TLC-generated stimulus sequences on the real
// frameSorter / ReceiveStream (+ real StreamFlowController) / cryptoStream and records
// what the code did, for validation against specs/Reassembly/Reassembly_Trace.tla.

import (
	"errors"
	"fmt"
	"io"
	"strings"
	"sync"
	"testing"
	"testing/synctest"

	"github.com/refraction-networking/uquic/internal/flowcontrol"
	"github.com/refraction-networking/uquic/internal/monotime"
	"github.com/refraction-networking/uquic/internal/protocol"
	"github.com/refraction-networking/uquic/internal/qerr"
	"github.com/refraction-networking/uquic/internal/utils"
	"github.com/refraction-networking/uquic/internal/vtrace"
	"github.com/refraction-networking/uquic/internal/wire"
)

// position-derived content: a shifted, duplicated or stale byte shows as a mismatch
func vfContent(off int) byte { return byte(off*31 + (off/251)*7 + 11) }

func vfFill(off, n int) []byte {
	b := make([]byte, n)
	for i := range b {
		b[i] = vfContent(off + i)
	}
	return b
}

func vfContentOK(b []byte, off int) bool {
	for i := range b {
		if b[i] != vfContent(off+i) {
			return false
		}
	}
	return true
}

// release tracking: every buffer handed to the code under test has an id; its release
// callback records the id and poisons the bytes.
type vfBuf struct {
	id   int
	data []byte
	st   *vfRel
}

type vfRel struct {
	mu  sync.Mutex
	rel []int
}

func (r *vfRel) release(b *vfBuf) {
	r.mu.Lock()
	r.rel = append(r.rel, b.id)
	r.mu.Unlock()
	for i := range b.data {
		b.data[i] ^= 0xff
	}
}

func (r *vfRel) take() []int {
	r.mu.Lock()
	defer r.mu.Unlock()
	out := r.rel
	r.rel = nil
	if out == nil {
		out = []int{}
	}
	return out
}

var (
	vfFrames   sync.Map // *wire.StreamFrame -> *vfBuf
	vfHookOnce sync.Once
)

func vfInstallHook() {
	vfHookOnce.Do(func() {
		wire.VerifPutStreamFrame = func(f *wire.StreamFrame) {
			if v, ok := vfFrames.Load(f); ok {
				b := v.(*vfBuf)
				b.st.release(b)
			}
		}
	})
}

type vfSender struct {
	mu        sync.Mutex
	completed int
}

func (s *vfSender) onHasConnectionData()                                             {}
func (s *vfSender) onHasStreamData(protocol.StreamID, *SendStream)                   {}
func (s *vfSender) onHasStreamControlFrame(protocol.StreamID, streamControlFrameGetter) {}
func (s *vfSender) onStreamCompleted(protocol.StreamID) {
	s.mu.Lock()
	s.completed++
	s.mu.Unlock()
}
func (s *vfSender) count() int { s.mu.Lock(); defer s.mu.Unlock(); return s.completed }

var errVfShutdown = errors.New("vf shutdown")

func vfClassify(err error) (string, int) {
	if err == nil {
		return "ok", -1
	}
	if err == io.EOF {
		return "eof", -1
	}
	if err == errVfShutdown {
		return "shutdown", -1
	}
	var se *StreamError
	if errors.As(err, &se) {
		if se.Remote {
			return "reset", int(se.ErrorCode)
		}
		return "cancelled", int(se.ErrorCode)
	}
	var te *qerr.TransportError
	if errors.As(err, &te) {
		switch te.ErrorCode {
		case qerr.FinalSizeError:
			return "FINAL_SIZE_ERROR", -1
		case qerr.FlowControlError:
			return "FLOW_CONTROL_ERROR", -1
		case qerr.CryptoBufferExceeded:
			return "CRYPTO_BUFFER_EXCEEDED", -1
		case qerr.ProtocolViolation:
			return "PROTOCOL_VIOLATION", -1
		}
		return "transport:" + te.ErrorCode.String(), -1
	}
	if strings.Contains(err.Error(), "too many gaps") {
		return "gaps", -1
	}
	return "other:" + err.Error(), -1
}

func TestVerifC03(t *testing.T) {
	cases := vtrace.LoadCases(t)
	vfInstallHook()
	vtrace.RunSharded(t, cases, func(t *testing.T, c vtrace.Case, rec *vtrace.Rec) {
		switch c.Cfg.Str("impl") {
		case "stream":
			synctest.Test(t, func(t *testing.T) {
				defer func() {
					if r := recover(); r != nil {
						rec.Add(vtrace.Op{"ev": "Panic", "msg": fmt.Sprint(r)})
					}
				}()
				vfRunStream(c, rec)
			})
		case "sorter":
			vfRunSorter(c, rec)
		case "crypto":
			vfRunCrypto(c, rec)
		default:
			panic("unknown impl " + c.Cfg.Str("impl"))
		}
	})
}

type vfReadRes struct {
	n   int
	err error
	buf []byte
}

func vfRunStream(c vtrace.Case, rec *vtrace.Rec) {
	off := c.Cfg.Ints("off")
	limit := protocol.ByteCount(c.Cfg.Int("limit"))
	rtt := utils.NewRTTStats()
	cfc := flowcontrol.NewConnectionFlowController(1<<30, 1<<30, func(protocol.ByteCount) bool { return true }, rtt, utils.DefaultLogger)
	sfc := flowcontrol.NewStreamFlowController(3, cfc, limit, limit*4, 1<<20, rtt, utils.DefaultLogger)
	sender := &vfSender{}
	str := newReceiveStream(3, sender, sfc)
	rel := &vfRel{}
	readPos := 0
	connErr := false
	var pend chan vfReadRes
	pendKind := ""
	nextBuf := 0
	var mine []*wire.StreamFrame
	defer func() {
		for _, f := range mine {
			vfFrames.Delete(f)
		}
		if pend != nil { // let the bubble end
			str.closeForShutdown(errVfShutdown)
			str.CancelRead(0)
			<-pend
		}
	}()

	outcome := func(kind string, r vfReadRes) vtrace.Op {
		res, code := vfClassify(r.err)
		o := vtrace.Op{"n": r.n, "res": res, "cok": vfContentOK(r.buf[:r.n], readPos)}
		if code >= 0 {
			o["code"] = code
		}
		if kind == "read" {
			readPos += r.n
		}
		return o
	}
	// after every stimulus: quiesce, then report a completed blocked call
	settle := func() {
		synctest.Wait()
		if pend == nil {
			return
		}
		select {
		case r := <-pend:
			o := outcome(pendKind, r)
			o["ev"] = "Done"
			o["rel"] = rel.take()
			o["compl"] = sender.count()
			rec.Add(o)
			pend = nil
		default:
		}
	}

	for i, op := range c.Ops {
		line := vtrace.Op{"ev": op.Str("op"), "i": i}
		switch op.Str("op") {
		case "Push":
			if connErr {
				continue
			}
			a, b := op.Int("a"), op.Int("b")
			f := &wire.StreamFrame{StreamID: 3, Offset: protocol.ByteCount(off[a]), Data: vfFill(off[a], off[b]-off[a]), Fin: op.Bool("fin")}
			nextBuf++
			vfFrames.Store(f, &vfBuf{id: nextBuf, data: f.Data, st: rel})
			mine = append(mine, f)
			err := str.handleStreamFrame(f, monotime.Now())
			res, _ := vfClassify(err)
			connErr = err != nil
			line["a"], line["b"], line["fin"], line["buf"], line["res"] = a, b, op.Bool("fin"), nextBuf, res
		case "ResetStream":
			if connErr {
				continue
			}
			fp, rp, code := op.Int("fp"), op.Int("rp"), op.Int("code")
			err := str.handleResetStreamFrame(&wire.ResetStreamFrame{
				StreamID: 3, ErrorCode: qerr.StreamErrorCode(code),
				FinalSize: protocol.ByteCount(off[fp]), ReliableSize: protocol.ByteCount(off[rp]),
			}, monotime.Now())
			res, _ := vfClassify(err)
			connErr = err != nil
			line["fp"], line["rp"], line["code"], line["res"] = fp, rp, code, res
		case "Cancel":
			str.CancelRead(StreamErrorCode(op.Int("code")))
			line["code"] = op.Int("code")
		case "Shutdown":
			str.closeForShutdown(errVfShutdown)
		case "WindowUpdate":
			v := 0
			for {
				fr, ok, _ := str.getControlFrame(monotime.Now())
				if !ok {
					break
				}
				if m, isMax := fr.Frame.(*wire.MaxStreamDataFrame); isMax && int(m.MaximumStreamData) > v {
					v = int(m.MaximumStreamData)
				}
			}
			line["v"] = v
		case "Read", "Peek":
			if pend != nil {
				continue // Read/Peek are serialised by the implementation; the stimulus is void
			}
			k := op.Int("k")
			ch := make(chan vfReadRes, 1)
			kind := "read"
			if op.Str("op") == "Peek" {
				kind = "peek"
			}
			go func() {
				buf := make([]byte, k)
				var n int
				var err error
				if kind == "read" {
					n, err = str.Read(buf)
				} else {
					n, err = str.Peek(buf)
				}
				ch <- vfReadRes{n, err, buf}
			}()
			synctest.Wait()
			line["k"] = k
			select {
			case r := <-ch:
				for k, v := range outcome(kind, r) {
					line[k] = v
				}
			default:
				pend, pendKind = ch, kind
				line["n"], line["res"], line["cok"] = 0, "blocked", true
			}
		default:
			panic("unknown op " + op.Str("op"))
		}
		line["rel"] = rel.take()
		line["compl"] = sender.count()
		rec.Add(line)
		settle()
	}
}

func vfRunSorter(c vtrace.Case, rec *vtrace.Rec) {
	off := c.Cfg.Ints("off")
	s := newFrameSorter()
	rel := &vfRel{}
	readPos, nextBuf := 0, 0
	connErr := false
	for i, op := range c.Ops {
		line := vtrace.Op{"ev": op.Str("op"), "i": i}
		switch op.Str("op") {
		case "Push":
			if connErr {
				continue
			}
			a, b := op.Int("a"), op.Int("b")
			nextBuf++
			bf := &vfBuf{id: nextBuf, data: vfFill(off[a], off[b]-off[a]), st: rel}
			err := s.Push(bf.data, protocol.ByteCount(off[a]), func() { rel.release(bf) })
			res, _ := vfClassify(err)
			connErr = err != nil
			line["a"], line["b"], line["fin"], line["buf"], line["res"] = a, b, false, nextBuf, res
		case "Pop":
			o, data, cb := s.Pop()
			if data == nil {
				line["n"], line["res"], line["cok"], line["at"] = 0, "none", true, true
			} else {
				line["n"], line["res"] = len(data), "ok"
				line["cok"] = vfContentOK(data, readPos)
				line["at"] = int(o) == readPos
				readPos += len(data)
				if cb != nil {
					cb() // the consumer is done with the bytes
				}
			}
		default:
			continue
		}
		line["rel"] = rel.take()
		rec.Add(line)
	}
}

func vfRunCrypto(c vtrace.Case, rec *vtrace.Rec) {
	off := c.Cfg.Ints("off")
	s := newCryptoStream()
	readPos := 0
	connErr := false
	for i, op := range c.Ops {
		line := vtrace.Op{"ev": op.Str("op"), "i": i, "rel": []int{}}
		switch op.Str("op") {
		case "Push":
			if connErr {
				continue
			}
			a, b := op.Int("a"), op.Int("b")
			err := s.HandleCryptoFrame(&wire.CryptoFrame{Offset: protocol.ByteCount(off[a]), Data: vfFill(off[a], off[b]-off[a])})
			res, _ := vfClassify(err)
			connErr = err != nil
			line["a"], line["b"], line["fin"], line["buf"], line["res"] = a, b, false, 0, res
		case "Pop":
			data := s.GetCryptoData()
			if data == nil {
				line["n"], line["res"], line["cok"], line["at"] = 0, "none", true, true
			} else {
				line["n"], line["res"] = len(data), "ok"
				line["cok"] = vfContentOK(data, readPos)
				line["at"] = true
				readPos += len(data)
			}
		case "Finish":
			if connErr {
				continue
			}
			err := s.Finish()
			res, _ := vfClassify(err)
			connErr = err != nil
			line["res"] = res
		default:
			continue
		}
		rec.Add(line)
	}
}
