//go:build verif

package quic

// C15 conformance harness: drives the real streamsMap (all four maps behind it) with peer frames
// and local Open / OpenStreamSync / AcceptStream calls made by goroutines in a synctest bubble.

import (
	"context"
	"errors"
	"fmt"
	"sort"
	"sync"
	"testing"
	"testing/synctest"

	"github.com/refraction-networking/uquic/internal/flowcontrol"
	"github.com/refraction-networking/uquic/internal/monotime"
	"github.com/refraction-networking/uquic/internal/protocol"
	"github.com/refraction-networking/uquic/internal/qerr"
	"github.com/refraction-networking/uquic/internal/utils"
	"github.com/refraction-networking/uquic/internal/vtrace"
	"github.com/refraction-networking/uquic/internal/wire"
)

type vfCall struct {
	id     int
	kind   string // "open" | "accept"
	cancel context.CancelFunc
	done   chan struct{}
	n      int // ordinal returned (0 = error)
	err    error
}

func TestVerifC15(t *testing.T) {
	cases := vtrace.LoadCases(t)
	vtrace.RunSharded(t, cases, func(t *testing.T, c vtrace.Case, rec *vtrace.Rec) {
		synctest.Test(t, func(t *testing.T) {
			defer func() {
				if r := recover(); r != nil {
					rec.Add(vtrace.Op{"ev": "Panic", "msg": fmt.Sprint(r)})
				}
			}()
			vfRunStreamsMap(c, rec)
		})
	})
}

func vfRunStreamsMap(c vtrace.Case, rec *vtrace.Rec) {
	pers := protocol.PerspectiveClient
	if c.Cfg.Str("persp") == "server" {
		pers = protocol.PerspectiveServer
	}
	uni := c.Cfg.Bool("uni")
	typ := protocol.StreamTypeBidi
	if uni {
		typ = protocol.StreamTypeUni
	}
	limit := uint64(c.Cfg.Int("limit"))
	var fmu sync.Mutex
	var maxStreams, blocked []int
	queue := func(f wire.Frame) {
		fmu.Lock()
		defer fmu.Unlock()
		switch fr := f.(type) {
		case *wire.MaxStreamsFrame:
			if fr.Type == typ {
				maxStreams = append(maxStreams, int(fr.MaxStreamNum))
			}
		case *wire.StreamsBlockedFrame:
			if fr.Type == typ {
				blocked = append(blocked, int(fr.StreamLimit))
			}
		}
	}
	takeFrames := func(line vtrace.Op) {
		fmu.Lock()
		defer fmu.Unlock()
		if maxStreams == nil {
			maxStreams = []int{}
		}
		if blocked == nil {
			blocked = []int{}
		}
		line["ms"], line["fr"] = maxStreams, blocked
		maxStreams, blocked = nil, nil
	}
	rtt := utils.NewRTTStats()
	cfc := flowcontrol.NewConnectionFlowController(1<<20, 1<<20, func(protocol.ByteCount) bool { return true }, rtt, utils.DefaultLogger)
	m := newStreamsMap(context.Background(), &vfSender{}, queue,
		func(id protocol.StreamID) flowcontrol.StreamFlowController {
			return flowcontrol.NewStreamFlowController(id, cfc, 1<<16, 1<<16, 1<<16, rtt, utils.DefaultLogger)
		}, limit, limit, pers)
	peerMax0 := c.Cfg.Int("peermax")
	m.HandleTransportParameters(&wire.TransportParameters{
		MaxBidiStreamNum: protocol.StreamNum(peerMax0), MaxUniStreamNum: protocol.StreamNum(peerMax0),
		InitialMaxStreamDataBidiRemote: 1 << 16, InitialMaxStreamDataUni: 1 << 16,
	})
	takeFrames(vtrace.Op{})
	inID := func(n int) protocol.StreamID { return protocol.StreamNum(n).StreamID(typ, pers.Opposite()) }
	outID := func(n int) protocol.StreamID { return protocol.StreamNum(n).StreamID(typ, pers) }
	ordinal := func(id protocol.StreamID) int { return int(id.StreamNum()) }

	classify := func(err error) string {
		if err == nil {
			return "ok"
		}
		var te *qerr.TransportError
		if errors.As(err, &te) {
			switch te.ErrorCode {
			case qerr.StreamLimitError:
				return "STREAM_LIMIT_ERROR"
			case qerr.StreamStateError:
				return "STREAM_STATE_ERROR"
			}
			return "transport:" + te.ErrorCode.String()
		}
		return "other:" + err.Error()
	}

	pending := map[int]*vfCall{}
	var openOrder []int // OpenStreamSync callers in arrival order
	var acceptPending bool
	connErr, closed := false, false
	errClosed := errors.New("vf closed")

	startCall := func(id int, kind string) *vfCall {
		ctx, cancel := context.WithCancel(context.Background())
		call := &vfCall{id: id, kind: kind, cancel: cancel, done: make(chan struct{})}
		go func() {
			defer close(call.done)
			if kind == "open" {
				if uni {
					s, err := m.OpenUniStreamSync(ctx)
					if err == nil {
						call.n = ordinal(s.StreamID())
					}
					call.err = err
				} else {
					s, err := m.OpenStreamSync(ctx)
					if err == nil {
						call.n = ordinal(s.StreamID())
					}
					call.err = err
				}
			} else {
				if uni {
					s, err := m.AcceptUniStream(ctx)
					if err == nil {
						call.n = ordinal(s.StreamID())
					}
					call.err = err
				} else {
					s, err := m.AcceptStream(ctx)
					if err == nil {
						call.n = ordinal(s.StreamID())
					}
					call.err = err
				}
			}
		}()
		return call
	}
	isDone := func(call *vfCall) bool {
		select {
		case <-call.done:
			return true
		default:
			return false
		}
	}
	// report blocked calls that have returned, lowest ordinal first (arrival order is judged by the spec)
	settle := func(skip int) {
		synctest.Wait()
		var done []*vfCall
		for id, call := range pending {
			if id != skip && isDone(call) {
				done = append(done, call)
			}
		}
		sort.Slice(done, func(i, j int) bool {
			if (done[i].err == nil) != (done[j].err == nil) {
				return done[i].err == nil
			}
			if done[i].n != done[j].n {
				return done[i].n < done[j].n
			}
			return done[i].id < done[j].id
		})
		for _, call := range done {
			delete(pending, call.id)
			if call.kind == "accept" {
				acceptPending = false
			}
			line := vtrace.Op{"ev": "Done", "c": call.id, "kind": call.kind}
			switch {
			case call.err == nil:
				line["res"] = call.n
			case call.err == errClosed:
				line["res"] = -2
			case errors.Is(call.err, context.Canceled):
				line["res"] = -3
			default:
				line["res"] = -9
				line["err"] = call.err.Error()
			}
			takeFrames(line)
			rec.Add(line)
		}
	}
	defer func() {
		for _, call := range pending {
			call.cancel()
		}
		synctest.Wait()
	}()

	for i, op := range c.Ops {
		line := vtrace.Op{"ev": op.Str("op"), "i": i}
		emitted := false
		switch op.Str("op") {
		case "PeerIncoming":
			if connErr || closed {
				continue
			}
			n := op.Int("n")
			var err error
			switch op.Int("k") {
			case 0:
				err = m.HandleStreamFrame(&wire.StreamFrame{StreamID: inID(n), Data: []byte{1}}, monotime.Now())
			case 1:
				err = m.HandleResetStreamFrame(&wire.ResetStreamFrame{StreamID: inID(n), FinalSize: 1}, monotime.Now())
			default:
				if uni {
					err = m.HandleStreamDataBlockedFrame(&wire.StreamDataBlockedFrame{StreamID: inID(n)})
				} else {
					err = m.HandleMaxStreamDataFrame(&wire.MaxStreamDataFrame{StreamID: inID(n), MaximumStreamData: 10})
				}
			}
			line["n"], line["res"] = n, classify(err)
			connErr = err != nil
		case "PeerOutgoing":
			if connErr || closed {
				continue
			}
			n := op.Int("n")
			var err error
			if op.Int("k") == 0 || uni {
				err = m.HandleMaxStreamDataFrame(&wire.MaxStreamDataFrame{StreamID: outID(n), MaximumStreamData: 10})
			} else {
				err = m.HandleStreamFrame(&wire.StreamFrame{StreamID: outID(n), Data: []byte{1}}, monotime.Now())
			}
			line["n"], line["res"] = n, classify(err)
			connErr = err != nil
		case "PeerWrongDirection":
			if connErr || closed || !uni {
				continue
			}
			var err error
			if op.Int("k") == 0 {
				err = m.HandleStreamFrame(&wire.StreamFrame{StreamID: outID(op.Int("n")), Data: []byte{1}}, monotime.Now())
			} else {
				err = m.HandleStopSendingFrame(&wire.StopSendingFrame{StreamID: inID(op.Int("n"))})
			}
			line["res"] = classify(err)
			connErr = err != nil
		case "MaxStreams", "MaxStreamsThenOpen", "MaxStreamsThenCancel":
			if closed {
				continue
			}
			n := op.Int("n")
			var cancelled *vfCall
			if op.Str("op") == "MaxStreamsThenCancel" {
				// the head waiter's context is cancelled at the very moment the credit arrives
				for _, cid := range openOrder {
					if call, ok := pending[cid]; ok && call.kind == "open" {
						cancelled = call
						break
					}
				}
				if cancelled != nil {
					cancelled.cancel()
				}
			}
			m.HandleMaxStreamsFrame(&wire.MaxStreamsFrame{Type: typ, MaxStreamNum: protocol.StreamNum(n)})
			line["ev"], line["n"] = "MaxStreams", n
			takeFrames(line)
			rec.Add(line)
			emitted = true
			switch op.Str("op") {
			case "MaxStreamsThenOpen": // a new caller arrives while the head waiter is being woken
				cid := op.Int("c")
				if _, busy := pending[cid]; busy {
					break
				}
				call := startCall(cid, "open")
				pending[cid] = call
				openOrder = append(openOrder, cid)
				synctest.Wait()
				// waiters served with a lower ordinal than the newcomer come first
				var before []*vfCall
				for id, w := range pending {
					if id != cid && isDone(w) && w.err == nil && (!isDone(call) || call.err != nil || w.n < call.n) {
						before = append(before, w)
					}
				}
				sort.Slice(before, func(a, b int) bool { return before[a].n < before[b].n })
				for _, w := range before {
					delete(pending, w.id)
					l2 := vtrace.Op{"ev": "Done", "c": w.id, "kind": w.kind, "res": w.n}
					takeFrames(l2)
					rec.Add(l2)
				}
				l3 := vtrace.Op{"ev": "OpenSync", "i": i, "c": cid}
				if isDone(call) {
					delete(pending, cid)
					if call.err == nil {
						l3["res"] = call.n
					} else {
						l3["res"] = -9
					}
				} else {
					l3["res"] = -1
				}
				takeFrames(l3)
				rec.Add(l3)
			case "MaxStreamsThenCancel":
				if cancelled != nil {
					synctest.Wait()
					if isDone(cancelled) {
						delete(pending, cancelled.id)
						if cancelled.err != nil {
							rec.Add(vtrace.Op{"ev": "CancelOpen", "i": i, "c": cancelled.id})
						} else {
							l2 := vtrace.Op{"ev": "Done", "c": cancelled.id, "kind": "open", "res": cancelled.n}
							takeFrames(l2)
							rec.Add(l2)
						}
					}
				}
			}
		case "Open":
			if closed {
				continue
			}
			var err error
			n := 0
			if uni {
				var s *SendStream
				s, err = m.OpenUniStream()
				if err == nil {
					n = ordinal(s.StreamID())
				}
			} else {
				var s *Stream
				s, err = m.OpenStream()
				if err == nil {
					n = ordinal(s.StreamID())
				}
			}
			var lim *StreamLimitReachedError
			if err != nil && !errors.As(err, &lim) {
				line["err"] = err.Error()
			}
			line["res"] = n
		case "OpenSync", "Accept":
			if closed {
				continue
			}
			cid := op.Int("c")
			if _, busy := pending[cid]; busy {
				continue
			}
			kind := "open"
			if op.Str("op") == "Accept" {
				if acceptPending {
					continue // one acceptor at a time (no order is promised among several)
				}
				kind = "accept"
			}
			call := startCall(cid, kind)
			synctest.Wait()
			line["c"] = cid
			if isDone(call) {
				if call.err != nil {
					line["res"], line["err"] = -9, call.err.Error()
				} else {
					line["res"] = call.n
				}
			} else {
				pending[cid] = call
				if kind == "accept" {
					acceptPending = true
				} else {
					openOrder = append(openOrder, cid)
				}
				line["res"] = -1
			}
		case "Cancel":
			cid := op.Int("c")
			call, ok := pending[cid]
			if !ok {
				continue
			}
			call.cancel()
			synctest.Wait()
			if !isDone(call) {
				panic("cancelled call did not return")
			}
			delete(pending, cid)
			if call.kind == "accept" {
				acceptPending = false
				line["ev"] = "CancelAccept"
			} else {
				line["ev"] = "CancelOpen"
			}
			line["c"] = cid
			if call.err == nil { // it had been served in the meantime
				line["ev"], line["kind"], line["res"] = "Done", call.kind, call.n
			}
		case "CompleteIn":
			if connErr {
				continue
			}
			err := m.DeleteStream(inID(op.Int("n")))
			line["n"], line["res"] = op.Int("n"), classify(err)
			connErr = err != nil
		case "CompleteOut":
			if connErr {
				continue
			}
			err := m.DeleteStream(outID(op.Int("n")))
			line["n"], line["res"] = op.Int("n"), classify(err)
			connErr = err != nil
		case "Close":
			if closed {
				continue
			}
			m.CloseWithError(errClosed)
			closed = true
		default:
			panic("unknown op " + op.Str("op"))
		}
		if !emitted {
			takeFrames(line)
			rec.Add(line)
		}
		settle(-1)
		// quiescent: every call is blocked or has returned.  Frames that turn up only now belong to nobody in particular
		// and are reported with the marker
		sl := vtrace.Op{"ev": "Settled"}
		takeFrames(sl)
		rec.Add(sl)
	}
}
