//go:build verif

package quic

// C14 conformance harness.
//   wire tier:  real handshakes (plain / fingerprint clients) against the in-tree server holding a large
//               certificate, with and without Retry, under fault schedules (losses of client datagrams,
//               duplicates, delays) and injected junk from the client's address (undecryptable 0-RTT
//               packets, datagrams of many coalesced header-only packets); the router records every
//               datagram delivered to the server and every datagram the server sends.
//   token tier: handshake.TokenGenerator tokens through the server's decode-and-validate sequence.

import (
	"bytes"
	"context"
	"encoding/binary"
	"fmt"
	"io"
	stdnet "net"
	"testing"
	"testing/synctest"
	"time"

	"github.com/refraction-networking/uquic/internal/handshake"
	"github.com/refraction-networking/uquic/internal/protocol"
	"github.com/refraction-networking/uquic/internal/vtrace"
	tls "github.com/refraction-networking/utls"
)

func vfJunkLong(typ byte, ver uint32, dcid, scid []byte, total int) []byte {
	// long header: 1 | 1 | type(2) | reserved/pnlen ; version ; dcid ; scid ; [token len] ; length ; payload
	b := []byte{0xc0 | typ<<4 | 0x01}
	if ver == vtrace.ObsV2 { // v2 renumbers the types: initial 01, 0-RTT 10
		t2 := map[byte]byte{0: 1, 1: 2, 2: 3}[typ]
		b[0] = 0xc0 | t2<<4 | 0x01
	}
	b = binary.BigEndian.AppendUint32(b, ver)
	b = append(b, byte(len(dcid)))
	b = append(b, dcid...)
	b = append(b, byte(len(scid)))
	b = append(b, scid...)
	if typ == 0 {
		b = append(b, 0) // token length
	}
	rest := total - len(b) - 2
	if rest < 20 {
		rest = 20
	}
	b = append(b, 0x40|byte(rest>>8), byte(rest))
	for i := 0; i < rest; i++ {
		b = append(b, byte(i*7+3))
	}
	return b
}

func vfRunAmp(c vtrace.Case, rec *vtrace.Rec) {
	r := &vsRec{rec: rec, start: time.Now()}
	net, cconn, sconn := vtrace.NewNet(5*time.Millisecond, vtrace.FaultsFromOps(c.Ops))
	defer net.Close()
	stls, ctls := vtrace.BigCertTLS(c.Cfg.Int("certkb"))
	str := &Transport{Conn: sconn}
	retry := c.Cfg.Bool("retry")
	if retry {
		str.VerifySourceAddress = func(stdnet.Addr) bool { return true }
	}
	ln, err := str.Listen(stls, &Config{MaxIdleTimeout: 20 * time.Second})
	if err != nil {
		panic(err)
	}
	ctr := &Transport{Conn: cconn}
	vfAmpTaps(net, r, c)()
	ctx, cancel := context.WithTimeout(context.Background(), 12*time.Second)
	srvDone := make(chan struct{})
	go func() {
		defer close(srvDone)
		sc, err := ln.Accept(ctx)
		if err != nil {
			return
		}
		<-sc.Context().Done()
	}()
	cconf := &Config{MaxIdleTimeout: 20 * time.Second}
	cc, derr := func() (*Conn, error) {
		if c.Cfg.Str("client") == "plain" {
			return ctr.Dial(ctx, vtrace.ServerAddr, ctls, cconf)
		}
		sp, err := QUICID2Spec(vsQUICIDs[c.Cfg.Str("client")])
		if err != nil {
			panic(err)
		}
		return (&UTransport{Transport: ctr, QUICSpec: &sp}).Dial(ctx, vtrace.ServerAddr, ctls, cconf)
	}()
	r.add(vtrace.Op{"ev": "Note", "msg": "dial: " + vsErrString(derr)})
	if derr == nil {
		cc.CloseWithError(0, "")
	}
	cancel()
	<-srvDone
	time.Sleep(300 * time.Millisecond)
	net.Tap, net.TapDeliver = nil, nil
	r.add(vtrace.Op{"ev": "End", "ok": derr == nil})
	ctr.Close()
	ln.Close()
	str.Close()
}

// vfAmpTaps installs the router observers of the wire tier; the returned function starts a new connection attempt.
func vfAmpTaps(net *vtrace.Net, r *vsRec, c vtrace.Case) (attempt func()) {
	var odcid, cscid []byte
	var cver uint32
	sawRetry := false
	nC2S := 0
	type inj struct {
		what  string
		after int
		done  bool
	}
	var plan []*inj
	for _, o := range c.Ops {
		if o.Str("op") == "inject" {
			plan = append(plan, &inj{what: o.Str("what"), after: o.Int("after")})
		}
	}
	attempt = func() {
		odcid, cscid, cver, sawRetry, nC2S = nil, nil, 0, false, 0
		for _, p := range plan {
			p.done = false
		}
		r.add(vtrace.Op{"ev": "Attempt"})
	}
	net.Tap = func(ev vtrace.NetEvent) {
		if ev.Dir == "s2c" {
			if vtrace.ParseHdr(ev.Data).Kind == "retry" {
				sawRetry = true
			}
			r.add(vtrace.Op{"ev": "S2C", "size": ev.Len})
			return
		}
		if h := vtrace.ParseHdr(ev.Data); h.Kind == "initial" && odcid == nil {
			odcid, cscid, cver = append([]byte(nil), h.DCID...), append([]byte(nil), h.SCID...), h.Version
		}
	}
	net.TapDeliver = func(ev vtrace.NetEvent) {
		if ev.Dir != "c2s" {
			return
		}
		injected := ev.Fault == "injected"
		proves := false
		if !injected { // a genuine client Handshake packet, or an Initial carrying the token of the Retry just received
			data := ev.Data
			for len(data) > 0 {
				h := vtrace.ParseHdr(data)
				if h.Kind == "handshake" {
					proves = true
				}
				if h.Kind == "initial" && sawRetry && len(h.Token) > 0 {
					proves = true
				}
				if (h.Kind == "initial" || h.Kind == "handshake" || h.Kind == "0rtt") && h.Len > 0 && h.Len < len(data) {
					data = data[h.Len:]
					continue
				}
				break
			}
			nC2S++
		}
		r.add(vtrace.Op{"ev": "C2S", "size": ev.Len, "proves": proves, "inj": injected})
		if injected || odcid == nil {
			return
		}
		for _, p := range plan {
			if p.done || p.after != nC2S {
				continue
			}
			p.done = true
			switch p.what {
			case "junk0rtt": // undecryptable 0-RTT packets: queued until keys exist, then processed again
				for i := 0; i < 3; i++ {
					net.InjectTo("c2s", vfJunkLong(1, cver, odcid, cscid, 1200))
				}
			case "junkcoalesced": // one datagram of 20 header-only Initial packets with the connection's DCID
				var d []byte
				for i := 0; i < 20; i++ {
					d = append(d, vfJunkLong(0, cver, odcid, cscid, 60)...)
				}
				net.InjectTo("c2s", d)
			case "junkhandshake":
				net.InjectTo("c2s", vfJunkLong(2, cver, odcid, cscid, 1200))
			}
		}
	}
	return attempt
}

// vfRunAmp0RTT: a resumed connection with 0-RTT data; the server answers the early stream with 200 kB at once, the
// client's later datagrams (all its Handshake packets) are lost for a while.
func vfRunAmp0RTT(c vtrace.Case, rec *vtrace.Rec) {
	r := &vsRec{rec: rec, start: time.Now()}
	net, cconn, sconn := vtrace.NewNet(5*time.Millisecond, nil)
	defer net.Close()
	stls, ctls := vtrace.BigCertTLS(0)
	ctls.ClientSessionCache = tls.NewLRUClientSessionCache(10)
	str := &Transport{Conn: sconn}
	ctr := &Transport{Conn: cconn}
	ln, err := str.ListenEarly(stls, &Config{MaxIdleTimeout: 20 * time.Second, Allow0RTT: true})
	if err != nil {
		panic(err)
	}
	attempt := vfAmpTaps(net, r, c)
	for dial := 1; dial <= 2; dial++ {
		net.ResetOrdinals()
		if dial == 2 {
			net.SetFaults(vtrace.FaultsFromOps(c.Ops))
		}
		attempt()
		ctx, cancel := context.WithTimeout(context.Background(), 12*time.Second)
		srvDone := make(chan struct{})
		go func() {
			defer close(srvDone)
			sc, err := ln.Accept(ctx)
			if err != nil {
				return
			}
			if dial == 2 { // 0.5-RTT data: far more than three times what the client sent
				if st, err := sc.OpenUniStream(); err == nil {
					st.Write(make([]byte, 200_000))
					st.Close()
				}
			}
			<-sc.Context().Done()
		}()
		var cc *Conn
		var derr error
		if dial == 1 {
			cc, derr = ctr.Dial(ctx, vtrace.ServerAddr, ctls, &Config{MaxIdleTimeout: 20 * time.Second})
			if derr == nil {
				time.Sleep(100 * time.Millisecond) // the session ticket arrives
			}
		} else {
			cc, derr = ctr.DialEarly(ctx, vtrace.ServerAddr, ctls, &Config{MaxIdleTimeout: 20 * time.Second})
			if derr == nil {
				if st, err := cc.OpenStream(); err == nil {
					st.Write([]byte("early data"))
					st.Close()
				}
				used := false
				select {
				case <-cc.HandshakeComplete():
					used = cc.ConnectionState().Used0RTT
				case <-ctx.Done():
				}
				r.add(vtrace.Op{"ev": "Note", "msg": fmt.Sprintf("0-RTT used: %v", used)})
				if us, err := cc.AcceptUniStream(ctx); err == nil {
					io.Copy(io.Discard, us)
				}
			}
		}
		r.add(vtrace.Op{"ev": "Note", "msg": "dial: " + vsErrString(derr)})
		if derr == nil {
			cc.CloseWithError(0, "")
		}
		cancel()
		<-srvDone
		time.Sleep(300 * time.Millisecond)
		r.add(vtrace.Op{"ev": "End", "ok": derr == nil})
	}
	net.Tap, net.TapDeliver = nil, nil
	ctr.Close()
	ln.Close()
	str.Close()
}

var vfAddrs = map[string]stdnet.Addr{
	"a":   &stdnet.UDPAddr{IP: stdnet.ParseIP("10.0.0.1"), Port: 1000},
	"a2":  &stdnet.UDPAddr{IP: stdnet.ParseIP("10.0.0.1"), Port: 2000}, // same host, other port: the token binds the IP
	"b":   &stdnet.UDPAddr{IP: stdnet.ParseIP("10.0.0.2"), Port: 1000},
	"a6":  &stdnet.UDPAddr{IP: stdnet.ParseIP("2001:db8::1"), Port: 1000},
	"b6":  &stdnet.UDPAddr{IP: stdnet.ParseIP("2001:db8::2"), Port: 1000},
	"am":  &stdnet.UDPAddr{IP: stdnet.ParseIP("::ffff:10.0.0.1"), Port: 1000}, // IPv4-mapped form of a
	"tcp": &stdnet.TCPAddr{IP: stdnet.ParseIP("10.0.0.1"), Port: 1000},
}

// hosts that are the same for address validation
var vfHost = map[string]string{"a": "a", "a2": "a", "am": "a", "b": "b", "a6": "a6", "b6": "b6", "tcp": "tcp"}

func vfRunTokens(c vtrace.Case, rec *vtrace.Rec) {
	var key, key2 handshake.TokenProtectorKey
	for i := range key {
		key[i], key2[i] = byte(i), byte(200-i)
	}
	gen, gen2 := handshake.NewTokenGenerator(key), handshake.NewTokenGenerator(key2)
	retryLife, tokLife := time.Duration(c.Cfg.Int("retrylife"))*time.Millisecond, time.Duration(c.Cfg.Int("toklife"))*time.Millisecond
	srv := &baseServer{tokenGenerator: gen, maxTokenAge: tokLife, config: populateConfig(&Config{HandshakeIdleTimeout: retryLife / 2})} // a Retry token lives for the handshake timeout = 2 x HandshakeIdleTimeout
	start := time.Now()
	nowMs := func() int { return int(time.Since(start) / time.Millisecond) }
	toks := map[int][]byte{}
	ids := map[int][2]protocol.ConnectionID{}
	for _, op := range c.Ops {
		switch op.Str("op") {
		case "Issue":
			id := op.Int("id")
			addr := vfAddrs[op.Str("addr")]
			var b []byte
			var err error
			kind := op.Str("kind")
			life := tokLife
			idl := []int{}
			if kind == "retry" {
				od := protocol.ParseConnectionID([]byte{0xd0, byte(id), 1, 2, 3, 4, 5, 6, 7})
				rs := protocol.ParseConnectionID([]byte{0xe0, byte(id), 9, 9})
				ids[id] = [2]protocol.ConnectionID{od, rs}
				b, err = gen.NewRetryToken(addr, od, rs)
				life = retryLife
				idl = []int{0xd0*256 + id, 0xe0*256 + id}
			} else {
				b, err = gen.NewToken(addr, 33*time.Millisecond)
			}
			if err != nil {
				panic(err)
			}
			toks[id] = b
			rec.Add(vtrace.Op{"ev": "Issue", "id": id, "kind": kind, "addr": vfHost[op.Str("addr")], "ids": idl, "life": int(life / time.Millisecond)})
		case "Tick":
			time.Sleep(time.Duration(op.Int("d")) * time.Millisecond)
			rec.Add(vtrace.Op{"ev": "Tick", "now": nowMs()})
		case "Present":
			id := op.Int("id")
			b, ok := toks[id]
			if !ok {
				continue
			}
			b = append([]byte(nil), b...)
			mut := op.Str("mut")
			switch mut {
			case "trunc":
				b = b[:max(0, len(b)-1-op.Int("k")%len(b))]
			case "flip":
				i := op.Int("k") % (len(b) * 8)
				b[i/8] ^= 1 << (i % 8)
			case "extend":
				b = append(b, byte(op.Int("k")))
			case "empty":
				b = nil
			case "prefix":
				b = append([]byte{byte(op.Int("k"))}, b...)
			}
			g := gen
			if op.Bool("otherkey") {
				g = gen2
			}
			accepted := false
			idsback := []int{}
			// server.go handleInitialImpl: a token is looked at only if present and decodable, then validated
			if len(b) > 0 {
				if tok, err := g.DecodeToken(b); err == nil {
					srv.tokenGenerator = g
					accepted = srv.validateToken(tok, vfAddrs[op.Str("addr")])
					if tok.IsRetryToken {
						od, rs := tok.OriginalDestConnectionID.Bytes(), tok.RetrySrcConnectionID.Bytes()
						if len(od) >= 2 && len(rs) >= 2 && bytes.Equal(od, ids[id][0].Bytes()) && bytes.Equal(rs, ids[id][1].Bytes()) {
							idsback = []int{int(od[0])*256 + int(od[1]), int(rs[0])*256 + int(rs[1])}
						} else {
							idsback = []int{-1}
						}
					}
				}
			}
			rec.Add(vtrace.Op{"ev": "Present", "id": id, "mut": mut, "samekey": !op.Bool("otherkey"), "addr": vfHost[op.Str("addr")],
				"accepted": accepted, "idsback": idsback})
		}
	}
}

func TestVerifC14(t *testing.T) {
	cases := vtrace.LoadCases(t)
	vtrace.ServerTLS()
	for _, kb := range []int{0, 6, 16} {
		vtrace.BigCertTLS(kb)
	}
	vtrace.RunSharded(t, cases, func(t *testing.T, c vtrace.Case, rec *vtrace.Rec) {
		synctest.Test(t, func(t *testing.T) {
			defer func() {
				if vtrace.Env("VERIF_NORECOVER", "") != "" {
					return
				}
				if r := recover(); r != nil {
					rec.Add(vtrace.Op{"ev": "Panic", "msg": fmt.Sprint(r)})
				}
			}()
			if c.Cfg.Str("tier") == "tokens" {
				vfRunTokens(c, rec)
			} else if c.Cfg.Bool("zerortt") {
				vfRunAmp0RTT(c, rec)
			} else {
				vfRunAmp(c, rec)
			}
		})
	})
}
