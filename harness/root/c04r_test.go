//go:build verif

package quic

// C04 conformance harness (receive-stream tier): real ReceiveStreams on real stream flow controllers sharing one
// real connection flow controller.  STREAM / RESET_STREAM frames, reads, CancelRead and window-update retrievals
// arrive in any order; what the stream does to its flow controller is recorded at the controller's interface
// (thin recording wrappers: UpdateHighestReceived, AddBytesRead, Abandon, connection-level credit), what the stream
// answered to each frame is recorded at the frame's return, and both are validated against FlowControl.

import (
	"errors"
	"fmt"
	"testing"
	"time"

	"github.com/refraction-networking/uquic/internal/flowcontrol"
	"github.com/refraction-networking/uquic/internal/monotime"
	"github.com/refraction-networking/uquic/internal/protocol"
	"github.com/refraction-networking/uquic/internal/qerr"
	"github.com/refraction-networking/uquic/internal/utils"
	"github.com/refraction-networking/uquic/internal/vtrace"
	"github.com/refraction-networking/uquic/internal/wire"
)

type vfConnFCI interface {
	flowcontrol.ConnectionFlowController
	EnsureMinimumWindowSize(protocol.ByteCount, monotime.Time)
	IncrementHighestReceived(protocol.ByteCount, monotime.Time) error
}

// vfConnFC counts the connection-level credit (bytes read) the stream flow controllers hand in
type vfConnFC struct {
	vfConnFCI
	credited int
}

func (c *vfConnFC) AddBytesRead(n protocol.ByteCount) bool {
	c.credited += int(n)
	return c.vfConnFCI.AddBytesRead(n)
}

// vfStreamFC records what the ReceiveStream does to its flow controller
type vfStreamFC struct {
	flowcontrol.StreamFlowController
	s    int
	conn *vfConnFC
	rec  *vtrace.Rec
}

func vfFCRes(err error) string {
	var te *qerr.TransportError
	if errors.As(err, &te) {
		switch te.ErrorCode {
		case qerr.FinalSizeError:
			return "FINAL_SIZE_ERROR"
		case qerr.FlowControlError:
			return "FLOW_CONTROL_ERROR"
		}
		return "transport:" + te.ErrorCode.String()
	}
	if err != nil {
		return "other:" + err.Error()
	}
	return "ok"
}

func (f *vfStreamFC) UpdateHighestReceived(off protocol.ByteCount, final bool, now monotime.Time) error {
	err := f.StreamFlowController.UpdateHighestReceived(off, final, now)
	f.rec.Add(vtrace.Op{"ev": "Recv", "s": f.s, "off": int(off), "fin": final, "res": vfFCRes(err), "cr": f.conn.credited})
	return err
}

func (f *vfStreamFC) AddBytesRead(n protocol.ByteCount) (bool, bool) {
	a, b := f.StreamFlowController.AddBytesRead(n)
	f.rec.Add(vtrace.Op{"ev": "Consume", "s": f.s, "n": int(n), "cr": f.conn.credited})
	return a, b
}

func (f *vfStreamFC) Abandon() {
	f.StreamFlowController.Abandon()
	f.rec.Add(vtrace.Op{"ev": "Abandon", "s": f.s, "cr": f.conn.credited})
}

type vfDoneSender struct {
	vfSender
	done map[protocol.StreamID]bool
}

func (s *vfDoneSender) onStreamCompleted(id protocol.StreamID) { s.done[id] = true }

func vfRunRecvStreams(c vtrace.Case, rec *vtrace.Rec) {
	n := c.Cfg.Int("streams")
	rtt := utils.NewRTTStats()
	if ms := c.Cfg.Int("rtt_ms"); ms > 0 {
		rtt.UpdateRTT(time.Duration(ms)*time.Millisecond, 0)
	}
	real := flowcontrol.NewConnectionFlowController(protocol.ByteCount(c.Cfg.Int("cw0")), protocol.ByteCount(c.Cfg.Int("cmaxw")),
		func(protocol.ByteCount) bool { return true }, rtt, utils.DefaultLogger)
	cfc := &vfConnFC{vfConnFCI: real}
	sender := &vfDoneSender{done: map[protocol.StreamID]bool{}}
	strs := make([]*ReceiveStream, n+1)
	hi := make([]int, n+1)      // highest offset the stream accepted
	rp := make([]int, n+1)      // bytes the application read
	ended := make([]bool, n+1)  // CancelRead / reset / EOF: no more reads
	adv := make([]int, n+1)     // stream limits this endpoint has advertised (as retrieved)
	cadv, chi := c.Cfg.Int("cw0"), 0
	for s := 1; s <= n; s++ {
		adv[s] = c.Cfg.Int("w0")
	}
	for s := 1; s <= n; s++ {
		id := protocol.StreamID(4*s + 3)
		fc := flowcontrol.NewStreamFlowController(id, cfc, protocol.ByteCount(c.Cfg.Int("w0")), protocol.ByteCount(c.Cfg.Int("maxw")),
			protocol.ByteCount(c.Cfg.Int("slim0")), rtt, utils.DefaultLogger)
		strs[s] = newReceiveStream(id, sender, &vfStreamFC{StreamFlowController: fc, s: s, conn: cfc, rec: rec})
	}
	buf := make([]byte, 1<<20)
	for i, op := range c.Ops {
		s := op.Int("s")
		if s < 1 || s > n {
			s = 1
		}
		str := strs[s]
		now := monotime.Now()
		switch op.Str("op") {
		case "Recv":
			off, fin := op.Int("off"), op.Bool("fin")
			if op.Str("rel") != "" {
				// relative to the credit this endpoint has advertised so far (adaptive stimulus: the trace records the offsets used)
				room := max(0, min(adv[s]-hi[s], cadv-chi))
				switch op.Str("rel") {
				case "within":
					off = hi[s] + room*op.Int("k")/4
				case "stream+": // beyond the stream's limit by "over" bytes
					off = adv[s] + op.Int("over")
				case "conn+": // beyond the connection's limit
					off = hi[s] + max(0, cadv-chi) + op.Int("over")
				case "old":
					off = max(0, hi[s]-op.Int("over"))
				}
			}
			start := min(hi[s], off) // contiguous with what is there, or a retransmission of the tail
			if off <= hi[s] {
				start = max(0, off-16)
			}
			f := &wire.StreamFrame{StreamID: str.StreamID(), Offset: protocol.ByteCount(start), Data: make([]byte, off-start), Fin: fin}
			err := str.handleStreamFrame(f, now)
			res := vfFCRes(err)
			rec.Add(vtrace.Op{"ev": "Frame", "i": i, "s": s, "off": off, "fin": fin, "res": res, "cr": cfc.credited})
			if err != nil {
				rec.Add(vtrace.Op{"ev": "End", "done": []int{}})
				return // a connection error: nothing after it matters
			}
			chi += max(0, off-hi[s])
			hi[s] = max(hi[s], off)
		case "Reset":
			off := op.Int("off")
			if op.Str("rel") == "within" {
				off = hi[s] + max(0, min(adv[s]-hi[s], cadv-chi))*op.Int("k")/4
			}
			err := str.handleResetStreamFrame(&wire.ResetStreamFrame{StreamID: str.StreamID(), ErrorCode: 9, FinalSize: protocol.ByteCount(off)}, now)
			res := vfFCRes(err)
			rec.Add(vtrace.Op{"ev": "Frame", "i": i, "s": s, "off": off, "fin": true, "res": res, "cr": cfc.credited})
			if err != nil {
				rec.Add(vtrace.Op{"ev": "End", "done": []int{}})
				return
			}
			chi += max(0, off-hi[s])
			hi[s] = max(hi[s], off)
			ended[s] = true
		case "Consume":
			k := min(op.Int("n"), hi[s]-rp[s], len(buf))
			if ended[s] || k <= 0 {
				continue
			}
			m, err := str.Read(buf[:k])
			rp[s] += m
			if err != nil {
				ended[s] = true
			}
		case "Abandon":
			str.CancelRead(7)
			ended[s] = true
		case "StreamUpdate": // everything the stream has queued: STOP_SENDING, MAX_STREAM_DATA
			v := 0
			for {
				fr, ok, _ := str.getControlFrame(now)
				if !ok {
					break
				}
				if m, isMax := fr.Frame.(*wire.MaxStreamDataFrame); isMax && int(m.MaximumStreamData) > v {
					v = int(m.MaximumStreamData)
				}
			}
			adv[s] = max(adv[s], v)
			rec.Add(vtrace.Op{"ev": "StreamUpdate", "i": i, "s": s, "v": v})
		case "ConnUpdate":
			v := int(cfc.GetWindowUpdate(now))
			cadv = max(cadv, v)
			rec.Add(vtrace.Op{"ev": "ConnUpdate", "i": i, "v": v})
		}
	}
	// the streams whose end was reported to the connection: everything they received has been credited
	done := []int{}
	for s := 1; s <= n; s++ {
		if sender.done[strs[s].StreamID()] {
			done = append(done, s)
		}
	}
	rec.Add(vtrace.Op{"ev": "End", "done": done})
}

func TestVerifC04R(t *testing.T) {
	cases := vtrace.LoadCases(t)
	vtrace.RunSharded(t, cases, func(t *testing.T, c vtrace.Case, rec *vtrace.Rec) {
		defer func() {
			if r := recover(); r != nil {
				rec.Add(vtrace.Op{"ev": "Panic", "msg": fmt.Sprint(r)})
			}
		}()
		vfRunRecvStreams(c, rec)
	})
}
