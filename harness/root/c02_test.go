//go:build verif

package quic

// C02 / C13 conformance harness: successive dials through one dialer (one spec value) against the in-tree
// server; the router taps classify every datagram (client Initials are decrypted by the independent
// observer) so that the Handshake specification can follow both endpoints from the wire.

import (
	stdnet "net"
	"context"
	"encoding/hex"
	"fmt"
	"io"
	"testing"
	"testing/synctest"
	"time"

	"github.com/refraction-networking/uquic/internal/vtrace"
)

func TestVerifC02(t *testing.T) {
	cases := vtrace.LoadCases(t)
	vtrace.ServerTLS()
	vtrace.RunSharded(t, cases, func(t *testing.T, c vtrace.Case, rec *vtrace.Rec) {
		synctest.Test(t, func(t *testing.T) {
			defer func() {
				if r := recover(); r != nil {
					rec.Add(vtrace.Op{"ev": "Panic", "msg": fmt.Sprint(r)})
				}
			}()
			vfRunDials(c, rec)
		})
	})
}

func vsVerNum(v uint32) int {
	switch v {
	case vtrace.ObsV1:
		return 1
	case vtrace.ObsV2:
		return 2
	case 0:
		return 0
	}
	return 7
}

// vsWireTaps installs the taps that turn datagrams into Handshake trace events.
type vsInject struct {
	what  string // "vn_other" | "vn_offered" | "retry_bad" | "close" | "replay"
	dir   string // count deliveries in this direction
	after int    // inject right after this many deliveries
	done  bool
}

func vsWireTaps(net *vtrace.Net, r *vsRec, plan []*vsInject) (newDial func()) {
	var odcids [][]byte // candidate key sources for client Initials of the current dial
	crypto := map[string][]vtrace.Frame{}
	var cver uint32
	var cscid, sscid, firstInitial []byte
	delivered := map[string]int{}
	sentHs := false
	newDial = func() {
		odcids, crypto, cver, cscid, sscid, firstInitial, sentHs = nil, map[string][]vtrace.Frame{}, 0, nil, nil, nil, false
		delivered = map[string]int{}
		for _, p := range plan {
			p.done = false
		}
	}
	inject := func(p *vsInject) {
		if len(odcids) == 0 {
			return
		}
		od := odcids[0]
		line := vtrace.Op{"ev": "Inject", "what": p.what}
		switch p.what {
		case "vn_other":
			net.InjectTo("s2c", vtrace.VNPacket(cscid, od, []uint32{0x1a2a3a4a}))
		case "vn_v1":
			net.InjectTo("s2c", vtrace.VNPacket(cscid, od, []uint32{vtrace.ObsV1}))
		case "vn_offered":
			net.InjectTo("s2c", vtrace.VNPacket(cscid, od, []uint32{cver, 0x1a2a3a4a}))
		case "retry_bad":
			net.InjectTo("s2c", vtrace.RetryPacket(cver, od, cscid, []byte{0xde, 0xad, 0xbe, 0xef, 1, 2, 3, 4}, []byte("forged-token"), false))
		case "close":
			src := sscid
			if src == nil {
				src = []byte{9, 9, 9, 9}
			}
			payload := []byte{0x1c, 0x0a, 0x00, 0x06, 'f', 'o', 'r', 'g', 'e', 'd'}
			net.InjectTo("s2c", vtrace.SealInitial(cver, od, cscid, src, nil, 20, payload, false, 1162))
			r.add(vtrace.Op{"ev": "InjClose"})
		case "replay":
			if firstInitial != nil {
				net.InjectTo("c2s", firstInitial)
			}
		}
		r.add(line)
	}
	net.Tap = func(ev vtrace.NetEvent) {
		if ev.Dir != "c2s" {
			return
		}
		data := ev.Data
		if firstInitial == nil {
			firstInitial = append([]byte(nil), ev.Data...)
		}
		for len(data) > 0 {
			h := vtrace.ParseHdr(data)
			if h.Kind == "handshake" && !sentHs {
				sentHs = true
				r.add(vtrace.Op{"ev": "CHandshake"})
			}
			if h.Kind != "initial" {
				if (h.Kind == "handshake" || h.Kind == "0rtt") && h.Len > 0 && h.Len < len(data) {
					data = data[h.Len:]
					continue
				}
				break
			}
			cver, cscid = h.Version, append([]byte(nil), h.SCID...)
			line := vtrace.Op{"ev": "CInitial", "ver": vsVerNum(h.Version), "dcid": hex.EncodeToString(h.DCID),
				"scid": hex.EncodeToString(h.SCID), "tok": len(h.Token), "ord": ev.Ord, "iscid": "", "opened": false}
			cands := append([][]byte{h.DCID}, odcids...)
			for _, od := range cands {
				p := vtrace.OpenInitial(data, od, true)
				if p.Opened {
					line["opened"] = true
					if string(od) == string(h.DCID) {
						odcids = append(odcids, append([]byte(nil), od...))
					}
					key := hex.EncodeToString(od)
					crypto[key] = append(crypto[key], p.Frames...)
					chb, _, _ := vtrace.Reassemble(crypto[key])
					ch := vtrace.ParseClientHello(chb)
					if ch.Complete {
						if v, ok := ch.TP(0x0f); ok {
							line["iscid"] = hex.EncodeToString(v)
						} else {
							line["iscid"] = "absent"
						}
					}
					break
				}
			}
			r.add(line)
			if h.Len <= 0 || h.Len >= len(data) {
				break
			}
			data = data[h.Len:]
		}
	}
	net.TapDeliver = func(ev vtrace.NetEvent) {
		inj := ev.Fault == "injected"
		if !inj {
			delivered[ev.Dir]++
			defer func() {
				for _, p := range plan {
					if !p.done && p.dir == ev.Dir && delivered[ev.Dir] == p.after {
						p.done = true
						inject(p)
					}
				}
			}()
		}
		if ev.Dir != "s2c" {
			return
		}
		h := vtrace.ParseHdr(ev.Data)
		switch h.Kind {
		case "vn":
			vs := []int{}
			for _, v := range h.Versions {
				vs = append(vs, vsVerNum(v))
			}
			r.add(vtrace.Op{"ev": "VN", "versions": vs, "inj": inj})
		case "retry":
			ok := false
			for _, od := range odcids {
				if vtrace.RetryTagOK(ev.Data, od) {
					ok = true
				}
			}
			r.add(vtrace.Op{"ev": "Retry", "scid": hex.EncodeToString(h.SCID), "tagok": ok, "inj": inj})
		case "initial", "handshake":
			if !inj && ev.Fault != "flip" && ev.Fault != "trunc" {
				sscid = append([]byte(nil), h.SCID...)
				r.add(vtrace.Op{"ev": "SPacket", "scid": hex.EncodeToString(h.SCID), "kind": h.Kind, "dcid": hex.EncodeToString(h.DCID), "ord": ev.Ord})
			}
		}
	}
	return newDial
}

func vfRunDials(c vtrace.Case, rec *vtrace.Rec) {
	r := &vsRec{rec: rec, start: time.Now()}
	net, cconn, sconn := vtrace.NewNet(5*time.Millisecond, vtrace.FaultsFromOps(c.Ops))
	defer net.Close()
	var plan []*vsInject
	for _, o := range c.Ops {
		if o.Str("op") == "inject" {
			plan = append(plan, &vsInject{what: o.Str("what"), dir: o.Str("dir"), after: o.Int("after")})
		}
	}
	newDial := vsWireTaps(net, r, plan)
	sconf := &Config{MaxIdleTimeout: 20 * time.Second}
	switch c.Cfg.Str("server") {
	case "v2only":
		sconf.Versions = []Version{Version2}
	case "smallwin":
		sconf.InitialStreamReceiveWindow, sconf.MaxStreamReceiveWindow = 1000, 2000
		sconf.InitialConnectionReceiveWindow, sconf.MaxConnectionReceiveWindow = 1500, 3000
	}
	str := &Transport{Conn: sconn}
	if c.Cfg.Str("server") == "retry" {
		str.VerifySourceAddress = func(stdnet.Addr) bool { return true }
	}
	ln, err := str.Listen(vtrace.ServerTLS(), sconf)
	if err != nil {
		panic(err)
	}
	dial, closeClient, _ := vsDialer(c.Cfg.Str("client"), cconn)
	cconf := &Config{MaxIdleTimeout: 20 * time.Second}
	if c.Cfg.Str("server") == "v2only" {
		cconf.Versions = []Version{Version1, Version2}
	}
	payload := vsFill(7, 0, 3000)

	for i := 1; i <= c.Cfg.Int("dials"); i++ {
		net.ResetOrdinals()
		newDial()
		r.add(vtrace.Op{"ev": "DialStart", "i": i})
		ctx, cancel := context.WithTimeout(context.Background(), 15*time.Second)
		srvDone := make(chan struct{})
		go func() { // server: accept, echo one stream
			defer close(srvDone)
			sc, err := ln.Accept(ctx)
			if err != nil {
				r.add(vtrace.Op{"ev": "AcceptEnd", "res": "err", "ver": 0, "err": vsErrString(err)})
				return
			}
			r.add(vtrace.Op{"ev": "AcceptEnd", "res": "ok", "ver": vsVerNum(uint32(sc.ConnectionState().Version))})
			st, err := sc.AcceptStream(ctx)
			if err != nil {
				return
			}
			b, _ := io.ReadAll(st)
			st.Write(b)
			st.Close()
			<-sc.Context().Done()
		}()
		cc, err := dial(ctx, cconf.Clone())
		if err != nil {
			r.add(vtrace.Op{"ev": "DialEnd", "res": "err", "ver": 0, "err": vsErrString(err)})
			cancel()
			<-srvDone
			r.add(vtrace.Op{"ev": "DialDone"})
			continue
		}
		r.add(vtrace.Op{"ev": "DialEnd", "res": "ok", "ver": vsVerNum(uint32(cc.ConnectionState().Version))})
		ok := false
		if st, err := cc.OpenStreamSync(ctx); err == nil {
			st.Write(payload)
			st.Close()
			b, err := io.ReadAll(st)
			ok = err == nil && string(b) == string(payload)
			if !ok {
				r.add(vtrace.Op{"ev": "Note", "msg": "echo: " + vsErrString(err)})
			}
		} else {
			r.add(vtrace.Op{"ev": "Note", "msg": "open: " + vsErrString(err)})
		}
		r.add(vtrace.Op{"ev": "Echo", "ok": ok})
		cc.CloseWithError(0, "")
		cancel()
		<-srvDone
		time.Sleep(200 * time.Millisecond) // drain the closing exchange before the next dial
		r.add(vtrace.Op{"ev": "DialDone"})
	}
	closeClient()
	ln.Close()
	str.Close()
}
