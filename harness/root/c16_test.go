//go:build verif

package quic

// C16 conformance harness.
//   manager tier:   the real connIDManager (IDs issued by the peer) is fed NEW_CONNECTION_ID frames in any
//                   order, rotation, path probing; after every call the sequence numbers it holds, the
//                   RETIRE_CONNECTION_ID frames it queued and the reset tokens it registered are recorded.
//   generator tier: the real connIDGenerator (own IDs) wired, as connection.go wires it, to a real
//                   packetHandlerMap; after every call the NEW_CONNECTION_ID frames queued and the contents
//                   of the routing table are recorded (synctest bubble: the closed-connection stand-ins expire
//                   on a real timer).

import (
	"errors"
	"fmt"
	stdnet "net"
	"sort"
	"testing"
	"testing/synctest"
	"time"

	"github.com/refraction-networking/uquic/internal/monotime"
	"github.com/refraction-networking/uquic/internal/protocol"
	"github.com/refraction-networking/uquic/internal/qerr"
	"github.com/refraction-networking/uquic/internal/utils"
	"github.com/refraction-networking/uquic/internal/vtrace"
	"github.com/refraction-networking/uquic/internal/wire"
)

func vfCID(seq, variant int) protocol.ConnectionID {
	return protocol.ParseConnectionID([]byte{0xc0, byte(seq), byte(seq >> 8), 0, 0, 0, 0, byte(variant)})
}

func vfTok(seq, variant int) protocol.StatelessResetToken {
	var t protocol.StatelessResetToken
	t[0], t[1], t[15] = byte(seq), byte(seq>>8), byte(variant)
	return t
}

func vfErrKind(err error) string {
	var te *qerr.TransportError
	switch {
	case err == nil:
		return "ok"
	case errors.As(err, &te) && te.ErrorCode == qerr.ConnectionIDLimitError:
		return "limit"
	case errors.As(err, &te) && te.ErrorCode == qerr.ProtocolViolation:
		return "violation"
	}
	return "error"
}

func vfSortedInts(m map[int]int) []int {
	out := []int{}
	for k, n := range m {
		for i := 0; i < n; i++ {
			out = append(out, k)
		}
	}
	sort.Ints(out)
	return out
}

func vfRunManager(c vtrace.Case, rec *vtrace.Rec) {
	toks := map[int]int{}
	label := func(t protocol.StatelessResetToken) int { return int(t[0]) | int(t[1])<<8 }
	var retires []int
	initial := vfCID(0, 0)
	if c.Cfg.Bool("zerolen") {
		initial = protocol.ConnectionID{}
	}
	m := newConnIDManager(initial,
		func(t protocol.StatelessResetToken) { toks[label(t)]++ },
		func(t protocol.StatelessResetToken) {
			toks[label(t)]--
			if toks[label(t)] == 0 {
				delete(toks, label(t))
			}
		},
		func(f wire.Frame) {
			if r, ok := f.(*wire.RetireConnectionIDFrame); ok {
				retires = append(retires, int(r.SequenceNumber))
			}
		})
	if l := c.Cfg.Int("limit"); l > 0 {
		m.SetConnectionIDLimit(uint64(l))
	}
	observe := func(line vtrace.Op) {
		q, p := []int{}, []int{}
		for _, e := range m.queue {
			q = append(q, int(e.SequenceNumber))
		}
		for _, e := range m.pathProbing {
			p = append(p, int(e.SequenceNumber))
		}
		sort.Ints(p)
		if retires == nil {
			retires = []int{}
		}
		line["retires"], line["active"], line["queue"], line["probing"], line["tokens"] = retires, int(m.activeSequenceNumber), q, p, vfSortedInts(toks)
		retires = nil
		rec.Add(line)
	}
	for _, op := range c.Ops {
		switch op.Str("op") {
		case "Add":
			seq, rpt, v := op.Int("seq"), op.Int("rpt"), op.Int("var")
			err := m.Add(&wire.NewConnectionIDFrame{SequenceNumber: uint64(seq), RetirePriorTo: uint64(rpt), ConnectionID: vfCID(seq, v), StatelessResetToken: vfTok(seq, v)})
			observe(vtrace.Op{"ev": "NewConnID", "seq": seq, "rpt": rpt, "var": v, "res": vfErrKind(err)})
			if err != nil {
				return // the connection is closed with this error
			}
		case "Get":
			m.Get()
			observe(vtrace.Op{"ev": "Get"})
		case "SentPackets":
			m.packetsSinceLastChange += uint32(op.Int("n"))
			m.SentPacket()
			observe(vtrace.Op{"ev": "SentPackets"})
		case "HandshakeComplete":
			m.SetHandshakeComplete()
			observe(vtrace.Op{"ev": "HandshakeComplete"})
		case "GetForPath":
			m.GetConnIDForPath(pathID(op.Int("p")))
			observe(vtrace.Op{"ev": "GetForPath"})
		case "RetireForPath":
			m.RetireConnIDForPath(pathID(op.Int("p")))
			observe(vtrace.Op{"ev": "RetireForPath"})
		case "SetToken":
			if m.activeSequenceNumber != 0 || m.activeStatelessResetToken != nil {
				continue // the transport parameter arrives once, while the handshake ID is in use
			}
			m.SetStatelessResetToken(vfTok(0, 0))
			observe(vtrace.Op{"ev": "SetToken"})
		case "Close":
			m.Close()
			rec.Add(vtrace.Op{"ev": "ManagerClose", "tokens": vfSortedInts(toks)})
			return
		}
	}
}

type vfPH struct{ got int }

func (h *vfPH) handlePacket(p receivedPacket) {
	h.got++
	p.buffer.MaybeRelease()
}
func (*vfPH) destroy(error)                                      {}
func (*vfPH) closeWithTransportError(qerr.TransportErrorCode)    {}

type vfCIDGen struct {
	n   int
	len int
}

func (g *vfCIDGen) GenerateConnectionID() (protocol.ConnectionID, error) {
	g.n++
	if g.len == 0 {
		return protocol.ConnectionID{}, nil
	}
	return protocol.ParseConnectionID([]byte{0xa0, byte(g.n), 0, 0, 0, 0, 0, 1}), nil
}
func (g *vfCIDGen) ConnectionIDLen() int { return g.len }

func vfRunGenerator(c vtrace.Case, rec *vtrace.Rec) {
	tr := &Transport{}
	tr.handlers = make(map[protocol.ConnectionID]packetHandler)
	tr.resetTokens = make(map[protocol.StatelessResetToken]packetHandler)
	tr.closeQueue = make(chan closePacket, 4)
	tr.logger = utils.DefaultLogger
	tr.connIDLen = 8
	tr.StatelessResetKey = &StatelessResetKey{7}
	tr.statelessResetQueue = make(chan receivedPacket, 4)
	phm := (*packetHandlerMap)(tr)
	conn := &vfPH{}
	cidLen := 8
	if c.Cfg.Bool("zerolen") {
		cidLen = 0
	}
	labels := map[protocol.ConnectionID]int{}
	cids := map[int]protocol.ConnectionID{}
	var newSeqs []int
	initial := protocol.ParseConnectionID([]byte{0xa0, 0, 0, 0, 0, 0, 0, 1})
	if cidLen == 0 {
		initial = protocol.ConnectionID{}
	}
	labels[initial], cids[0] = 0, initial
	var odcid *protocol.ConnectionID
	issued := []int{0}
	if c.Cfg.Bool("server") {
		o := protocol.ParseConnectionID([]byte{0xdd, 1, 2, 3, 4, 5, 6, 7})
		odcid = &o
		labels[o], cids[-1] = -1, o
		issued = []int{-1, 0}
		phm.AddWithConnID(o, initial, conn) // as the server does for a new connection
	} else {
		phm.Add(initial, conn)
	}
	gen := newConnIDGenerator(phm, initial, odcid, newStatelessResetter(nil),
		connRunnerCallbacks{
			AddConnectionID:    func(id protocol.ConnectionID) { phm.Add(id, conn) },
			RemoveConnectionID: phm.Remove,
			ReplaceWithClosed:  phm.ReplaceWithClosed,
		},
		func(f wire.Frame) {
			if n, ok := f.(*wire.NewConnectionIDFrame); ok {
				labels[n.ConnectionID], cids[int(n.SequenceNumber)] = int(n.SequenceNumber), n.ConnectionID
				newSeqs = append(newSeqs, int(n.SequenceNumber))
			}
		},
		&vfCIDGen{len: cidLen})
	now := 0 // ms
	mt := func(ms int) monotime.Time { return monotime.Time(1_000_000_000 + int64(ms)*1_000_000) }
	observe := func(line vtrace.Op) {
		cn, cl := []int{}, []int{}
		tr.mutex.Lock()
		for id, h := range tr.handlers {
			l, ok := labels[id]
			if !ok {
				l = 999
			}
			if h == packetHandler(conn) {
				cn = append(cn, l)
			} else {
				cl = append(cl, l)
			}
		}
		tr.mutex.Unlock()
		sort.Ints(cn)
		sort.Ints(cl)
		if newSeqs == nil {
			newSeqs = []int{}
		}
		line["conn"], line["closedl"], line["newseqs"] = cn, cl, newSeqs
		newSeqs = nil
		rec.Add(line)
	}
	observe(vtrace.Op{"ev": "InitGen", "issued": issued})
	closed := false
	peerLimit := 0
	hsDone := false
	for _, op := range c.Ops {
		if closed && op.Str("op") != "Tick" && op.Str("op") != "Packet" {
			continue
		}
		switch op.Str("op") {
		case "SetMax":
			if op.Int("limit") < peerLimit {
				continue // the peer's limit is a transport parameter: it is not reduced (0-RTT: RFC 9000 7.4.1)
			}
			peerLimit = op.Int("limit")
			err := gen.SetMaxActiveConnIDs(uint64(op.Int("limit")))
			observe(vtrace.Op{"ev": "SetPeerLimit", "limit": op.Int("limit"), "res": vfErrKind(err)})
		case "Retire":
			seq := op.Int("seq")
			dest := protocol.ParseConnectionID([]byte{0xee, 0, 0, 0, 0, 0, 0, 0}) // some other ID of ours
			if id, ok := cids[seq]; ok && op.Bool("same") {
				dest = id
			}
			same := op.Bool("same")
			if _, ok := cids[seq]; !ok {
				same = false
			}
			err := gen.Retire(uint64(seq), dest, mt(now+op.Int("exp")))
			observe(vtrace.Op{"ev": "PeerRetires", "seq": seq, "samedest": same, "expiry": now + op.Int("exp"), "res": vfErrKind(err)})
			if err != nil {
				return
			}
		case "HandshakeDone":
			if hsDone {
				continue // once per connection
			}
			hsDone = true
			gen.SetHandshakeComplete(mt(now + op.Int("exp")))
			observe(vtrace.Op{"ev": "HandshakeDone", "expiry": now + op.Int("exp")})
		case "Tick":
			time.Sleep(time.Duration(op.Int("d")) * time.Millisecond)
			synctest.Wait()
			now += op.Int("d")
			observe(vtrace.Op{"ev": "Tick", "now": now})
		case "Packet": // a short-header packet addressed to one of our IDs (or to an ID that was never ours) reaches the transport
			dst := protocol.ParseConnectionID([]byte{0xee, 1, 2, 3, 4, 5, 6, 7})
			label := 999
			if id, ok := cids[op.Int("seq")]; ok && id.Len() == 8 {
				dst, label = id, op.Int("seq")
			}
			if cidLen == 0 {
				continue
			}
			data := append([]byte{0x40}, dst.Bytes()...)
			data = append(data, make([]byte, 50)...)
			buf := getPacketBuffer()
			buf.Data = append(buf.Data[:0], data...)
			before := conn.got
			tr.handlePacket(receivedPacket{data: buf.Data, buffer: buf, remoteAddr: &stdnet.UDPAddr{IP: stdnet.IPv4(9, 9, 9, 9), Port: 9}})
			to := "dropped"
			switch {
			case conn.got > before:
				to = "conn"
			case len(tr.statelessResetQueue) > 0:
				(<-tr.statelessResetQueue).buffer.MaybeRelease()
				to = "reset"
			default:
				if h, ok := phm.Get(dst); ok && h != packetHandler(conn) {
					to = "closed"
				}
			}
			observe(vtrace.Op{"ev": "Packet", "seq": label, "to": to})
		case "Sweep":
			gen.RemoveRetiredConnIDs(mt(now))
			observe(vtrace.Op{"ev": "Sweep"})
		case "Close":
			closed = true
			if op.Str("mode") == "immediate" {
				gen.RemoveAll()
			} else {
				var pkt []byte
				if op.Bool("local") {
					pkt = []byte{1, 2, 3}
				}
				gen.ReplaceWithClosed(pkt, time.Duration(op.Int("exp"))*time.Millisecond)
			}
			observe(vtrace.Op{"ev": "Close", "mode": op.Str("mode"), "until": now + op.Int("exp")})
		}
	}
}

func TestVerifC16(t *testing.T) {
	cases := vtrace.LoadCases(t)
	vtrace.RunSharded(t, cases, func(t *testing.T, c vtrace.Case, rec *vtrace.Rec) {
		if c.Cfg.Str("tier") == "manager" {
			vfRunManager(c, rec)
			return
		}
		synctest.Test(t, func(t *testing.T) {
			defer func() {
				if r := recover(); r != nil {
					rec.Add(vtrace.Op{"ev": "Panic", "msg": fmt.Sprint(r)})
				}
			}()
			vfRunGenerator(c, rec)
			time.Sleep(time.Hour) // let every stand-in timer fire before the bubble ends
		})
	})
}
