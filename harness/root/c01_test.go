//go:build verif

package quic

// C01 conformance harness: scripted transfer scenarios between a client and the in-tree server over a
// network that applies a TLC-enumerated fault schedule; records what writers offered and readers obtained.

import (
	"context"
	"encoding/binary"
	"errors"
	"fmt"
	"io"
	"sync"
	"testing"
	"testing/synctest"
	"time"

	"github.com/refraction-networking/uquic/internal/vtrace"
)

func TestVerifC01(t *testing.T) {
	cases := vtrace.LoadCases(t)
	vtrace.ServerTLS() // generate the certificate outside any bubble
	vtrace.RunSharded(t, cases, func(t *testing.T, c vtrace.Case, rec *vtrace.Rec) {
		synctest.Test(t, func(t *testing.T) {
			defer func() {
				if r := recover(); r != nil {
					rec.Add(vtrace.Op{"ev": "Panic", "msg": fmt.Sprint(r)})
				}
			}()
			vfRunTransfer(c, rec)
		})
	})
}

type vsReadAgg struct {
	n   int
	cok bool
}

func vfRunTransfer(c vtrace.Case, rec *vtrace.Rec) {
	r := &vsRec{rec: rec, start: time.Now()}
	net, cconn, sconn := vtrace.NewNet(5*time.Millisecond, vtrace.FaultsFromOps(c.Ops))
	defer net.Close()
	conf := func() *Config {
		idle := 20 * time.Second
		if ms := c.Cfg.Int("idle"); ms > 0 {
			idle = time.Duration(ms) * time.Millisecond
		}
		// (no path MTU probing in the quiet scenario: probes are traffic of their own and would end the quiet period)
		return &Config{EnableDatagrams: true, MaxIdleTimeout: idle, DisablePathMTUDiscovery: c.Cfg.Str("scenario") == "quiet", Versions: []Version{vsVersion(c.Cfg.Int("version"))},
			MaxIncomingStreams: 100, MaxIncomingUniStreams: 100}
	}
	str := &Transport{Conn: sconn}
	ln, err := str.Listen(vtrace.ServerTLS(), conf())
	if err != nil {
		panic(err)
	}
	dial, closeClient, _ := vsDialer(c.Cfg.Str("client"), cconn)
	ctx, cancel := context.WithTimeout(context.Background(), 60*time.Second)
	defer cancel()

	var wg sync.WaitGroup // transfers
	var serverConn *Conn
	accepted := make(chan struct{})
	go func() {
		defer close(accepted)
		sc, err := ln.Accept(ctx)
		if err != nil {
			r.add(vtrace.Op{"ev": "ConnError", "side": "server", "err": vsErrString(err)})
			return
		}
		serverConn = sc
	}()
	cc, err := dial(ctx, conf())
	if err != nil {
		r.add(vtrace.Op{"ev": "ConnError", "side": "client", "err": vsErrString(err)})
		cancel()
		<-accepted
		closeClient()
		str.Close()
		r.add(vtrace.Op{"ev": "End"})
		return
	}
	<-accepted
	if serverConn == nil {
		cc.CloseWithError(0, "")
		closeClient()
		str.Close()
		r.add(vtrace.Op{"ev": "End"})
		return
	}

	// writer: offers total bytes in chunks, closes after closeDelay
	writer := func(s int, w io.WriteCloser, total, chunk int, closeDelay time.Duration) {
		defer wg.Done()
		off := 0
		for off < total {
			n := min(chunk, total-off)
			r.add(vtrace.Op{"ev": "WriteStart", "s": s, "n": n})
			m, err := w.Write(vsFill(s, off, n))
			r.add(vtrace.Op{"ev": "WriteEnd", "s": s, "n": m, "ok": err == nil, "err": vsErrString(err)})
			if err != nil {
				return
			}
			off += m
		}
		if closeDelay > 0 {
			time.Sleep(closeDelay)
		}
		r.add(vtrace.Op{"ev": "CloseW", "s": s})
		w.Close()
	}
	// reader: reads with a fixed buffer size; consecutive successful reads are logged in aggregate
	reader := func(s int, rd io.Reader, bufSize int) {
		defer wg.Done()
		buf := make([]byte, bufSize)
		off := 0
		agg := vsReadAgg{cok: true}
		cnt := 0
		flush := func(res, errs string) {
			if agg.n > 0 || res != "ok" {
				o := vtrace.Op{"ev": "Read", "s": s, "n": agg.n, "cok": agg.cok, "res": res}
				if errs != "" {
					o["err"] = errs
				}
				r.add(o)
			}
			agg = vsReadAgg{cok: true}
			cnt = 0
		}
		for {
			n, err := rd.Read(buf)
			if n > 0 {
				agg.n += n
				agg.cok = agg.cok && vsContentOK(s, buf[:n], off)
				off += n
				cnt++
			}
			if err == io.EOF {
				flush("eof", "")
				return
			}
			if err != nil {
				flush("err", vsErrString(err))
				return
			}
			if cnt >= 64 || !agg.cok {
				flush("ok", "")
			}
		}
	}
	openC := func() *Stream {
		s, err := cc.OpenStreamSync(ctx)
		if err != nil {
			panic(err)
		}
		return s
	}

	var dgramWG sync.WaitGroup
	switch c.Cfg.Str("scenario") {
	case "multi":
		// stream ids: client bidi 0 -> s1, client bidi 4 -> s2, client uni 2 -> s4, server uni 3 -> s3
		s1, s2 := openC(), openC()
		u4, err := cc.OpenUniStreamSync(ctx)
		if err != nil {
			panic(err)
		}
		wg.Add(4)
		go writer(1, s1, 3000, 3000, 30*time.Millisecond)
		go writer(2, s2, 20000, 1000, 0)
		go writer(4, u4, 400, 1, 15*time.Millisecond)
		go func() {
			u3, err := serverConn.OpenUniStreamSync(ctx)
			if err != nil {
				wg.Done()
				r.add(vtrace.Op{"ev": "ConnError", "side": "server", "err": vsErrString(err)})
				return
			}
			writer(3, u3, 64000, 64000, 0)
		}()
		wg.Add(4)
		go func() { // server side readers
			for i := 0; i < 2; i++ {
				st, err := serverConn.AcceptStream(ctx)
				if err != nil {
					r.add(vtrace.Op{"ev": "ConnError", "side": "server", "err": vsErrString(err)})
					for ; i < 2; i++ {
						wg.Done()
					}
					return
				}
				if st.StreamID() == 0 {
					go reader(1, st, 100)
				} else {
					go reader(2, st, 4096)
				}
			}
		}()
		go func() {
			st, err := serverConn.AcceptUniStream(ctx)
			if err != nil {
				r.add(vtrace.Op{"ev": "ConnError", "side": "server", "err": vsErrString(err)})
				wg.Done()
				return
			}
			reader(4, st, 3)
		}()
		go func() {
			st, err := cc.AcceptUniStream(ctx)
			if err != nil {
				r.add(vtrace.Op{"ev": "ConnError", "side": "client", "err": vsErrString(err)})
				wg.Done()
				return
			}
			reader(3, st, 977)
		}()
	case "many":
		// 100 client streams written and closed at staggered times under random loss; s = 1..100
		nstr := 100
		wg.Add(2 * nstr)
		go func() {
			for i := 0; i < nstr; i++ {
				st, err := serverConn.AcceptStream(ctx)
				if err != nil {
					r.add(vtrace.Op{"ev": "ConnError", "side": "server", "err": vsErrString(err)})
					for ; i < nstr; i++ {
						wg.Done()
					}
					return
				}
				go reader(int(st.StreamID())/4+1, st, 512)
			}
		}()
		for i := 0; i < nstr; i++ {
			st := openC()
			s := int(st.StreamID())/4 + 1
			go writer(s, st, 1500+17*i, 700, time.Duration((i*7)%40)*time.Millisecond)
			if i%10 == 9 {
				time.Sleep(3 * time.Millisecond)
			}
		}
	case "quiet":
		// an application-idle period that is a large part of the idle timeout, then an upload whose acknowledgements meet a
		// short outage right away: the path is never dead for as long as the idle timeout, the transfer must complete
		time.Sleep(time.Duration(c.Cfg.Int("quiet")) * time.Millisecond)
		net.SetFaults([]vtrace.Fault{{Dir: c.Cfg.Str("odir"), Kind: "blackout", At: int(time.Since(r.start) / time.Millisecond), Dur: c.Cfg.Int("outage")}})
		up, down, downName := cc, serverConn, "server"
		if c.Cfg.Str("up") == "s" {
			up, down, downName = serverConn, cc, "client"
		}
		s1, err := up.OpenStreamSync(ctx)
		if err != nil {
			panic(err)
		}
		wg.Add(2)
		go writer(1, s1, 300000, 65536, 0)
		go func() {
			st, err := down.AcceptStream(ctx)
			if err != nil {
				r.add(vtrace.Op{"ev": "ConnError", "side": downName, "err": vsErrString(err)})
				wg.Done()
				return
			}
			reader(1, st, 32768)
		}()
	case "bulk", "dgram":
		size := 1 << 21
		if c.Cfg.Str("scenario") == "dgram" {
			size = 300000
		}
		s1 := openC()
		wg.Add(2)
		go writer(1, s1, size, 65536, 0)
		go func() {
			st, err := serverConn.AcceptStream(ctx)
			if err != nil {
				r.add(vtrace.Op{"ev": "ConnError", "side": "server", "err": vsErrString(err)})
				wg.Done()
				return
			}
			reader(1, st, 32768)
		}()
		if c.Cfg.Str("scenario") == "dgram" {
			wg.Add(1)
			go func() {
				defer wg.Done()
				for id := 1; id <= 200; id++ {
					b := vsFill(100, id*7, 100)
					binary.BigEndian.PutUint32(b, uint32(id))
					r.add(vtrace.Op{"ev": "DgramSend", "id": id})
					if err := cc.SendDatagram(b); err != nil {
						r.add(vtrace.Op{"ev": "ConnError", "side": "client", "err": vsErrString(err)})
						return
					}
					time.Sleep(time.Millisecond)
				}
			}()
			dgramWG.Add(1)
			go func() {
				defer dgramWG.Done()
				for {
					b, err := serverConn.ReceiveDatagram(context.Background())
					if err != nil {
						return
					}
					id := 0
					intact := false
					if len(b) == 100 {
						id = int(binary.BigEndian.Uint32(b))
						want := vsFill(100, id*7, 100)
						binary.BigEndian.PutUint32(want, uint32(id))
						intact = string(want) == string(b)
					}
					r.add(vtrace.Op{"ev": "DgramRecv", "id": id, "intact": intact})
				}
			}()
		}
	default:
		panic("unknown scenario")
	}

	done := make(chan struct{})
	go func() { wg.Wait(); close(done) }()
	select {
	case <-done:
	case <-time.After(90 * time.Second):
		r.add(vtrace.Op{"ev": "ConnError", "side": "harness", "err": "transfers did not finish within 90 s of virtual time"})
	}
	if c.Cfg.Str("scenario") == "dgram" {
		time.Sleep(500 * time.Millisecond) // late (delayed / retransmitted) datagrams
	}
	// was either connection terminated by an error nobody asked for?
	for side, cn := range map[string]*Conn{"client": cc, "server": serverConn} {
		select {
		case <-cn.Context().Done():
			r.add(vtrace.Op{"ev": "ConnError", "side": side, "err": vsErrString(context.Cause(cn.Context()))})
		default:
		}
	}
	cc.CloseWithError(0, "")
	serverConn.CloseWithError(0, "")
	dgramWG.Wait()
	<-done
	cancel()
	closeClient()
	ln.Close()
	str.Close()
	var appErr *ApplicationError
	_ = errors.As(nil, &appErr)
	r.add(vtrace.Op{"ev": "End"})
}
