//go:build verif

package quic

// C04 conformance harness, send-stream tier: real SendStreams with real flow controllers; writes, packetisation
// with arbitrary budgets, losses (retransmission), MAX_* updates, Close / reliable boundary / CancelWrite /
// STOP_SENDING. Recorded: how many *new* bytes each popped frame carries and the send window before.

import (
	"context"
	"fmt"
	"testing"
	"testing/synctest"
	"time"

	"github.com/refraction-networking/uquic/internal/ackhandler"
	"github.com/refraction-networking/uquic/internal/flowcontrol"
	"github.com/refraction-networking/uquic/internal/protocol"
	"github.com/refraction-networking/uquic/internal/utils"
	"github.com/refraction-networking/uquic/internal/vtrace"
	"github.com/refraction-networking/uquic/internal/wire"
)

func TestVerifC04S(t *testing.T) {
	cases := vtrace.LoadCases(t)
	vtrace.RunSharded(t, cases, func(t *testing.T, c vtrace.Case, rec *vtrace.Rec) {
		synctest.Test(t, func(t *testing.T) {
			defer func() {
				if r := recover(); r != nil {
					rec.Add(vtrace.Op{"ev": "Panic", "msg": fmt.Sprint(r)})
				}
			}()
			vfRunSendStreams(c, rec)
		})
	})
}

func vfRunSendStreams(c vtrace.Case, rec *vtrace.Rec) {
	n := c.Cfg.Int("streams")
	rtt := utils.NewRTTStats()
	cfc := flowcontrol.NewConnectionFlowController(1<<20, 1<<20, func(protocol.ByteCount) bool { return true }, rtt, utils.DefaultLogger)
	cfc.UpdateSendWindow(protocol.ByteCount(c.Cfg.Int("cslim0")))
	sender := &vfSender{}
	strs := make([]*SendStream, n+1)
	fcs := make([]flowcontrol.StreamFlowController, n+1)
	high := make([]int, n+1) // highest offset sent so far
	for s := 1; s <= n; s++ {
		fcs[s] = flowcontrol.NewStreamFlowController(protocol.StreamID(4*s), cfc, 1<<20, 1<<20, protocol.ByteCount(c.Cfg.Int("slim0")), rtt, utils.DefaultLogger)
		strs[s] = newSendStream(context.Background(), protocol.StreamID(4*s), sender, fcs[s], true)
	}
	var inflight []ackhandler.StreamFrame
	var writers []chan struct{}
	pendingW := make([]chan struct{}, n+1)
	ended := make([]bool, n+1)
	defer func() {
		for s := 1; s <= n; s++ {
			if !strs[s].mutex.TryLock() {
				// a panic of the code under test left the stream's mutex locked
			}
			strs[s].mutex.Unlock()
			strs[s].closeForShutdown(errVfShutdown)
			strs[s].SetWriteDeadline(time.Now().Add(-time.Second))
			strs[s].CancelWrite(0)
		}
		for _, w := range writers {
			<-w
		}
	}()
	for i, op := range c.Ops {
		s := op.Int("s")
		if s < 1 || s > n {
			s = 1
		}
		line := vtrace.Op{"ev": op.Str("op"), "i": i, "s": s, "cr": 0}
		switch op.Str("op") {
		case "Write":
			if pendingW[s] != nil {
				select {
				case <-pendingW[s]:
				default:
					continue // one writer per stream at a time
				}
			}
			done := make(chan struct{})
			pendingW[s] = done
			writers = append(writers, done)
			data := make([]byte, op.Int("n"))
			go func() { defer close(done); strs[s].Write(data) }()
			synctest.Wait()
			continue
		case "Pop":
			sw := int(fcs[s].SendWindowSize())
			f, _, _ := strs[s].popStreamFrame(protocol.ByteCount(op.Int("n")), protocol.Version1)
			newBytes := 0
			if f.Frame != nil {
				end := int(f.Frame.Offset) + len(f.Frame.Data)
				if end > high[s] {
					newBytes = end - high[s]
					high[s] = end
				}
				inflight = append(inflight, f)
			}
			line["ev"], line["n"], line["sw"] = "Send", newBytes, sw
			synctest.Wait()
		case "Lose":
			if len(inflight) == 0 {
				continue
			}
			k := op.Int("n") % len(inflight)
			f := inflight[k]
			inflight = append(inflight[:k], inflight[k+1:]...)
			f.Handler.OnLost(f.Frame)
			continue
		case "Ack":
			if len(inflight) == 0 {
				continue
			}
			f := inflight[0]
			inflight = inflight[1:]
			f.Handler.OnAcked(f.Frame)
			continue
		case "MaxStreamData":
			strs[s].updateSendWindow(protocol.ByteCount(op.Int("v")))
			line["v"] = op.Int("v")
			synctest.Wait()
		case "MaxData":
			cfc.UpdateSendWindow(protocol.ByteCount(op.Int("v")))
			line["v"] = op.Int("v")
		case "Close":
			strs[s].Close()
			continue
		case "Boundary":
			if ended[s] {
				continue // the reliable boundary is chosen before the stream is reset
			}
			strs[s].SetReliableBoundary()
			continue
		case "Cancel":
			ended[s] = true
			strs[s].CancelWrite(7)
			synctest.Wait()
			continue
		case "StopSending":
			ended[s] = true
			strs[s].handleStopSendingFrame(&wire.StopSendingFrame{StreamID: protocol.StreamID(4 * s), ErrorCode: 9})
			synctest.Wait()
			continue
		default:
			panic("unknown op " + op.Str("op"))
		}
		rec.Add(line)
	}
}
