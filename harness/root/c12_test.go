//go:build verif

package quic

// C12 conformance harness: a spec-driven client connects to the in-tree server; the transport parameters it
// advertised are read from the wire; the server side then exercises one advertised limit up to its boundary.

import (
	"context"
	"errors"
	"fmt"
	"sync"
	"testing"
	"testing/synctest"
	"time"

	"github.com/refraction-networking/uquic/internal/protocol"
	"github.com/refraction-networking/uquic/internal/vtrace"
	"github.com/refraction-networking/uquic/internal/wire"
	"github.com/refraction-networking/uquic/qlog"
	"github.com/refraction-networking/uquic/qlogwriter"
)

type vsParamRecorder struct {
	mu  sync.Mutex
	set *qlog.ParametersSet
}

func (r *vsParamRecorder) AddProducer() qlogwriter.Recorder { return r }
func (r *vsParamRecorder) SupportsSchemas(string) bool       { return true }
func (r *vsParamRecorder) Close() error                      { return nil }
func (r *vsParamRecorder) RecordEvent(e qlogwriter.Event) {
	if ps, ok := e.(qlog.ParametersSet); ok && ps.Initiator == qlog.InitiatorLocal && !ps.Restore {
		r.mu.Lock()
		if r.set == nil {
			r.set = &ps
		}
		r.mu.Unlock()
	}
}

func TestVerifC12(t *testing.T) {
	cases := vtrace.LoadCases(t)
	vtrace.ServerTLS()
	vtrace.RunSharded(t, cases, func(t *testing.T, c vtrace.Case, rec *vtrace.Rec) {
		synctest.Test(t, func(t *testing.T) {
			defer func() {
				if r := recover(); r != nil {
					rec.Add(vtrace.Op{"ev": "Panic", "msg": fmt.Sprint(r)})
				}
			}()
			vfRunLimits(c, rec)
		})
	})
}

func vfRunLimits(c vtrace.Case, rec *vtrace.Rec) {
	r := &vsRec{rec: rec, start: time.Now()}
	lat := 5 * time.Millisecond
	if c.Cfg.Str("kind") == "stream_uni_read" {
		lat = 100 * time.Millisecond // a real bandwidth-delay product, so that receive-window auto-tuning runs
	}
	net, cconn, sconn := vtrace.NewNet(lat, nil)
	defer net.Close()
	// the ClientHello's transport parameters, from the wire
	var frames []vtrace.Frame
	var hello vtrace.ClientHelloView
	net.Tap = func(ev vtrace.NetEvent) {
		if ev.Dir != "c2s" || hello.Complete {
			return
		}
		data := ev.Data
		for len(data) > 0 {
			h := vtrace.ParseHdr(data)
			if h.Kind != "initial" {
				break
			}
			if p := vtrace.OpenInitial(data, h.DCID, true); p.Opened {
				frames = append(frames, p.Frames...)
				b, _, _ := vtrace.Reassemble(frames)
				hello = vtrace.ParseClientHello(b)
			}
			if h.Len <= 0 || h.Len >= len(data) {
				break
			}
			data = data[h.Len:]
		}
	}
	sconf := &Config{MaxIdleTimeout: 120 * time.Second, EnableDatagrams: true, MaxIncomingStreams: 1000, MaxIncomingUniStreams: 1000,
		InitialStreamReceiveWindow: 1 << 24, InitialConnectionReceiveWindow: 1 << 25}
	str := &Transport{Conn: sconn}
	ln, err := str.Listen(vtrace.ServerTLS(), sconf)
	if err != nil {
		panic(err)
	}
	dial, closeClient, _ := vsDialer(c.Cfg.Str("client"), cconn)
	prec := &vsParamRecorder{}
	cconf := &Config{Tracer: func(context.Context, bool, ConnectionID) qlogwriter.Trace { return prec }}
	switch c.Cfg.Str("config") {
	case "small":
		cconf.InitialStreamReceiveWindow, cconf.MaxStreamReceiveWindow = 1 << 16, 1 << 17
		cconf.InitialConnectionReceiveWindow, cconf.MaxConnectionReceiveWindow = 1 << 17, 1 << 18
		cconf.MaxIncomingStreams, cconf.MaxIncomingUniStreams = 10, 10
	case "large":
		cconf.InitialStreamReceiveWindow, cconf.MaxStreamReceiveWindow = 1 << 24, 1 << 25
		cconf.InitialConnectionReceiveWindow, cconf.MaxConnectionReceiveWindow = 1 << 25, 1 << 26
		cconf.MaxIncomingStreams, cconf.MaxIncomingUniStreams = 1000, 1000
		cconf.EnableDatagrams = true
		cconf.MaxIdleTimeout = 90 * time.Second
	case "dgram":
		cconf.EnableDatagrams = true
	case "idle5":
		cconf.MaxIdleTimeout = 5 * time.Second
	case "mirror": // the user mirrors the advertised windows in Config, with maximum windows below them
		if len(c.Cfg.Str("client")) >= 7 && c.Cfg.Str("client")[:7] == "firefox" {
			cconf.InitialStreamReceiveWindow, cconf.InitialConnectionReceiveWindow = 12582912, 25165824
		} else {
			cconf.InitialStreamReceiveWindow, cconf.InitialConnectionReceiveWindow = 6291456, 15728640
		}
		cconf.MaxStreamReceiveWindow, cconf.MaxConnectionReceiveWindow = 1<<20, 1<<21
		cconf.MaxIncomingStreams, cconf.MaxIncomingUniStreams = 1000, 1000
		cconf.EnableDatagrams = true
		cconf.MaxIdleTimeout = 90 * time.Second
	case "maxwin": // maximum window below the advertised initial one
		cconf.MaxStreamReceiveWindow, cconf.MaxConnectionReceiveWindow = 1 << 20, 1 << 21
	}
	ctx, cancel := context.WithTimeout(context.Background(), 400*time.Second)
	defer cancel()
	var sc *Conn
	acc := make(chan struct{})
	go func() {
		defer close(acc)
		sc, _ = ln.Accept(ctx)
	}()
	cc, err := dial(ctx, cconf)
	finish := func() {
		cancel()
		<-acc
		if cc != nil {
			cc.CloseWithError(0, "")
		}
		if sc != nil {
			sc.CloseWithError(0, "")
		}
		closeClient()
		ln.Close()
		str.Close()
	}
	if err != nil {
		r.add(vtrace.Op{"ev": "ClientErr", "err": "dial: " + vsErrString(err)})
		r.add(vtrace.Op{"ev": "End"})
		finish()
		return
	}
	<-acc
	if sc == nil {
		r.add(vtrace.Op{"ev": "ClientErr", "err": "server did not accept"})
		r.add(vtrace.Op{"ev": "End"})
		finish()
		return
	}
	tp := func(id uint64, def int) int {
		if v, ok := hello.TPVarint(id); ok {
			return int(v)
		}
		return def
	}
	dg := tp(0x20, 0)
	if dg > 1100 {
		dg = 1100 // the largest DATAGRAM frame that fits the packets of this path
	}
	adv := map[string]any{
		"stream_uni": tp(0x07, 0), "stream_bidi_local": tp(0x05, 0), "stream_bidi_remote": tp(0x06, 0), "conn": tp(0x04, 0),
		"streams_uni": tp(0x09, 0), "streams_bidi": tp(0x08, 0), "cids": tp(0x0e, 2), "cids_rpt": tp(0x0e, 2),
		"datagram": dg, "idle": tp(0x01, 0),
	}
	r.add(vtrace.Op{"ev": "Adv", "adv": adv})
	prec.mu.Lock()
	if ps := prec.set; ps != nil {
		rdg := int(ps.MaxDatagramFrameSize)
		if ps.MaxDatagramFrameSize == protocol.InvalidByteCount {
			rdg = 0
		}
		if rdg > 1100 {
			rdg = 1100
		}
		rcid := int(ps.ActiveConnectionIDLimit)
		if _, onWire := hello.TPVarint(0x0e); !onWire && rcid == 0 {
			rcid = 2 // the parameter is absent from the wire: the record leaves it unset, which means the default
		}
		r.add(vtrace.Op{"ev": "Record", "rec": map[string]any{
			"stream_uni": int(ps.InitialMaxStreamDataUni), "stream_bidi_local": int(ps.InitialMaxStreamDataBidiLocal),
			"stream_bidi_remote": int(ps.InitialMaxStreamDataBidiRemote), "conn": int(ps.InitialMaxData),
			"streams_uni": int(ps.InitialMaxStreamsUni), "streams_bidi": int(ps.InitialMaxStreamsBidi),
			"cids": rcid, "cids_rpt": rcid, "datagram": rdg,
			"idle": int(ps.MaxIdleTimeout / time.Millisecond),
		}})
	}
	prec.mu.Unlock()

	kind := c.Cfg.Str("kind")
	advN, _ := adv[kind].(int)
	// watch the client connection
	var once sync.Once
	clientDied := func() bool {
		select {
		case <-cc.Context().Done():
			once.Do(func() { r.add(vtrace.Op{"ev": "ClientErr", "err": vsErrString(context.Cause(cc.Context()))}) })
			return true
		default:
			return false
		}
	}
	use := func(n int) { r.add(vtrace.Op{"ev": "Use", "kind": kind, "n": n}) }
	writeAll := func(w interface{ Write([]byte) (int, error) }, total int) int {
		buf := make([]byte, 1<<16)
		done := 0
		for done < total {
			n := min(len(buf), total-done)
			m, err := w.Write(buf[:n])
			done += m
			if err != nil {
				break
			}
		}
		return done
	}
	opctx, opcancel := context.WithTimeout(ctx, 150*time.Second)
	defer opcancel()
	deadline := func(s interface{ SetWriteDeadline(time.Time) error }) { s.SetWriteDeadline(time.Now().Add(150 * time.Second)) }
	switch kind {
	case "stream_uni", "stream_bidi_remote":
		if (kind == "stream_uni" && adv["streams_uni"].(int) == 0) || (kind == "stream_bidi_remote" && adv["streams_bidi"].(int) == 0) {
			advN = 0 // the peer may not open such a stream at all
		}
		r.add(vtrace.Op{"ev": "Plan", "kind": kind, "n": advN})
		if advN > 0 {
			if kind == "stream_uni" {
				if st, err := sc.OpenUniStreamSync(opctx); err == nil {
					deadline(st)
					use(writeAll(st, advN))
				}
			} else if st, err := sc.OpenStreamSync(opctx); err == nil {
				deadline(st)
				use(writeAll(st, advN))
			}
		}
	case "stream_uni_read":
		// the reader consumes the first 60% as fast as it arrives (window auto-tuning kicks in), then stalls;
		// the peer keeps sending until the advertised window plus what was consumed is used up
		advN = adv["stream_uni"].(int)
		if adv["streams_uni"].(int) == 0 {
			advN = 0
		}
		kind = "stream_uni"
		r.add(vtrace.Op{"ev": "Plan", "kind": kind, "n": advN})
		if advN > 0 {
			readN := advN * 6 / 10
			go func() {
				st, err := cc.AcceptUniStream(opctx)
				if err != nil {
					return
				}
				buf := make([]byte, 1<<16)
				got := 0
				for got < readN {
					n, err := st.Read(buf[:min(len(buf), readN-got)])
					got += n
					if err != nil {
						return
					}
				}
			}()
			if st, err := sc.OpenUniStreamSync(opctx); err == nil {
				deadline(st)
				use(writeAll(st, advN))
			}
		}
	case "stream_bidi_local":
		r.add(vtrace.Op{"ev": "Plan", "kind": kind, "n": advN})
		if cst, err := cc.OpenStreamSync(opctx); err == nil && advN > 0 {
			cst.Write([]byte{1})
			if st, err := sc.AcceptStream(opctx); err == nil {
				deadline(st)
				use(writeAll(st, advN))
			}
		}
	case "conn":
		// the connection limit can only be reached if the stream limits leave room for it (a fingerprint with a
		// suppressed stream-count parameter may not): otherwise nothing is planned against it
		if capacity := adv["streams_uni"].(int)*adv["stream_uni"].(int) + adv["streams_bidi"].(int)*adv["stream_bidi_remote"].(int); capacity < advN {
			r.add(vtrace.Op{"ev": "Plan", "kind": kind, "n": 0})
			break
		}
		r.add(vtrace.Op{"ev": "Plan", "kind": kind, "n": advN})
		total := 0
		for i := 0; total < advN; i++ {
			var w interface {
				Write([]byte) (int, error)
				SetWriteDeadline(time.Time) error
			}
			per := 0
			if i%2 == 0 && adv["stream_uni"].(int) > 0 && i/2 < adv["streams_uni"].(int) {
				if st, err := sc.OpenUniStreamSync(opctx); err == nil {
					w, per = st, adv["stream_uni"].(int)
				}
			} else if adv["stream_bidi_remote"].(int) > 0 && i/2 < adv["streams_bidi"].(int) {
				if st, err := sc.OpenStreamSync(opctx); err == nil {
					w, per = st, adv["stream_bidi_remote"].(int)
				}
			}
			if w == nil {
				if i > 2*(adv["streams_uni"].(int)+adv["streams_bidi"].(int)) {
					break
				}
				continue
			}
			deadline(w)
			n := writeAll(w, min(per, advN-total))
			total += n
			use(total)
			if n == 0 {
				break
			}
		}
	case "streams_uni", "streams_bidi":
		r.add(vtrace.Op{"ev": "Plan", "kind": kind, "n": advN})
		for i := 1; i <= advN; i++ {
			var err error
			if kind == "streams_uni" {
				var st *SendStream
				if st, err = sc.OpenUniStreamSync(opctx); err == nil {
					st.Write([]byte{1})
				}
			} else {
				var st *Stream
				if st, err = sc.OpenStreamSync(opctx); err == nil {
					st.Write([]byte{1})
				}
			}
			if err != nil {
				break
			}
			use(i)
		}
	case "cids":
		// the in-tree server issues connection IDs up to min(advertised limit, 6) on its own
		r.add(vtrace.Op{"ev": "Plan", "kind": kind, "n": 0})
	case "cids_rpt":
		// the peer fills the advertised limit, then replaces the ID in use in one frame:
		// NEW_CONNECTION_ID(next sequence number, Retire Prior To = active + 1) - allowed by RFC 9000 5.1.1
		r.add(vtrace.Op{"ev": "Plan", "kind": kind, "n": advN})
		time.Sleep(300 * time.Millisecond)
		if cc.connIDManager.activeConnectionID.Len() > 0 && !clientDied() {
			// quiescent: read the client's view (projection) and the server generator's numbering
			queued := len(cc.connIDManager.queue)
			active := cc.connIDManager.activeSequenceNumber
			seq := sc.connIDGenerator.highestSeq
			issue := func(rpt uint64) {
				seq++
				sc.connIDGenerator.highestSeq = seq
				sc.queueControlFrame(&wire.NewConnectionIDFrame{SequenceNumber: seq, RetirePriorTo: rpt,
					ConnectionID: protocol.ParseConnectionID([]byte{0xee, byte(seq), 3, 4}), StatelessResetToken: protocol.StatelessResetToken{byte(seq), 1}})
			}
			r.add(vtrace.Op{"ev": "Note", "msg": fmt.Sprintf("client: active seq %d, %d queued; server highest seq %d", active, queued, seq)})
			for ; queued+1 < advN; queued++ { // active + queued = advertised limit
				issue(0)
			}
			sc.scheduleSending()
			time.Sleep(200 * time.Millisecond)
			r.add(vtrace.Op{"ev": "Note", "msg": fmt.Sprintf("after fill: client active seq %d, %d queued", cc.connIDManager.activeSequenceNumber, len(cc.connIDManager.queue))})
			if !clientDied() {
				active = cc.connIDManager.activeSequenceNumber
				// this frame is the replacement for the retired ID: the server's own generator must not issue another one
				delete(sc.connIDGenerator.activeSrcConnIDs, active)
				issue(active + 1)
				sc.scheduleSending()
				time.Sleep(300 * time.Millisecond)
			}
			if !clientDied() {
				use(advN)
			}
		} else if !clientDied() {
			use(advN)
		}
	case "datagram":
		r.add(vtrace.Op{"ev": "Plan", "kind": kind, "n": advN})
		if advN > 0 {
			got := make(chan int, 1)
			go func() {
				b, err := cc.ReceiveDatagram(opctx)
				if err != nil {
					got <- 0
					return
				}
				got <- len(b)
			}()
			if err := sc.SendDatagram(make([]byte, advN-3)); err == nil { // frame = type + length + payload
				if n := <-got; n > 0 {
					use(advN)
				}
			} else {
				r.add(vtrace.Op{"ev": "Note", "msg": "server SendDatagram: " + vsErrString(err)})
			}
		}
	case "idle":
		// silence until just below the advertised idle timeout, then the peer speaks
		r.add(vtrace.Op{"ev": "Plan", "kind": kind, "n": advN})
		if advN > 2000 {
			time.Sleep(time.Duration(advN-1500) * time.Millisecond)
			if !clientDied() {
				lctx, lcancel := context.WithTimeout(ctx, 5*time.Second)
				defer lcancel()
				if st, err := sc.OpenUniStreamSync(lctx); err == nil {
					st.Write([]byte{1})
					actx, acancel := context.WithTimeout(ctx, 5*time.Second)
					if _, err := cc.AcceptUniStream(actx); err == nil {
						use(advN)
					}
					acancel()
				}
			}
		} else {
			use(advN)
		}
	}
	time.Sleep(300 * time.Millisecond)
	clientDied()
	var te *TransportError
	_ = errors.As(nil, &te)
	r.add(vtrace.Op{"ev": "End"})
	finish()
}
