//go:build verif

package quic

// C09 conformance harness. Three tiers, one trace vocabulary (Start / Frame / Learn / End):
//   builder   - FrameBuilder.Build / BuildForDatagram / BuildFlight (+ validateInitialFlight, as
//               planInitialFlight applies it) on generated CRYPTO data whose bytes are derived from
//               their absolute stream position; the returned payload is read by the independent
//               frame reader of internal/vtrace.
//   scrambler - initialCryptoStream.Write / PopCryptoFrame on generated ClientHellos (SNI / ECH at
//               any position), popped with varying frame budgets.
//   wire      - real dials into a socket that never answers, long enough for PTO retransmissions;
//               every Initial packet is decrypted by the independent observer.

import (
	"context"
	"encoding/binary"
	"fmt"
	"testing"
	"testing/synctest"
	"time"

	"github.com/refraction-networking/uquic/internal/protocol"
	"github.com/refraction-networking/uquic/internal/vtrace"
)

func vfTruth(i int) byte { return byte((i*131 + (i>>8)*17 + 7) % 251) }

func vfRandomFrames(o vtrace.Op) QUICRandomFrames {
	return QUICRandomFrames{MinPING: uint8(o.Int("minping")), MaxPING: uint8(o.Int("maxping")), MinCRYPTO: uint8(o.Int("mincrypto")),
		MaxCRYPTO: uint8(o.Int("maxcrypto")), MinPADDING: uint8(o.Int("minpad")), MaxPADDING: uint8(o.Int("maxpad")), Length: uint16(o.Int("length"))}
}

func vfFrameList(items []vtrace.Op) QUICFrames {
	qfs := QUICFrames{}
	for _, it := range items {
		switch it.Str("t") {
		case "c":
			qfs = append(qfs, QUICFrameCrypto{Offset: it.Int("o"), Length: it.Int("l")})
		case "p":
			qfs = append(qfs, QUICFramePadding{Length: it.Int("l")})
		case "g":
			qfs = append(qfs, QUICFramePing{})
		}
	}
	return qfs
}

// vfFrameBuilder builds the FrameBuilder a case describes
func vfFrameBuilder(o vtrace.Op) QUICFrameBuilder {
	switch o.Str("kind") {
	case "nil":
		return nil
	case "frames":
		return vfFrameList(o.Ops("items"))
	case "random":
		rf := vfRandomFrames(o)
		return &rf
	case "multi":
		m := &QUICMultiDatagramFrames{}
		for _, p := range o.Ops("per") {
			m.PerDatagram = append(m.PerDatagram, vfRandomFrames(p))
		}
		return m
	case "flight":
		f := &QUICFlightFrames{}
		for _, d := range o.Ops("datagrams") {
			f.Datagrams = append(f.Datagrams, vfFrameList(d.Ops("items")))
		}
		return f
	case "rflight":
		f := &QUICRandomFlightFrames{}
		for _, d := range o.Ops("per") {
			dg := QUICRandomFlightDatagram{Frames: vfRandomFrames(d.Obj("frames"))}
			for _, r := range d.Ops("ranges") {
				dg.CryptoRanges = append(dg.CryptoRanges, QUICCryptoRange{Offset: r.Int("o"), Length: r.Int("l")})
			}
			f.PerDatagram = append(f.PerDatagram, dg)
		}
		return f
	}
	panic("fb kind " + o.Str("kind"))
}

func vfEmitFrames(rec *vtrace.Rec, payload []byte, truth func(int) byte) {
	frames, err := vtrace.ParseFrames(payload)
	for _, f := range frames {
		match := true
		if f.Type == "crypto" {
			for i, b := range f.Data {
				if b != truth(f.Off+i) {
					match = false
					break
				}
			}
		}
		rec.Add(vtrace.Op{"ev": "Frame", "type": f.Type, "off": f.Off, "len": f.Len, "match": match})
	}
	if err != nil {
		rec.Add(vtrace.Op{"ev": "Frame", "type": "unparsable:" + err.Error(), "off": 0, "len": 0, "match": false})
	}
}

func vfRunBuilder(c vtrace.Case, rec *vtrace.Rec) {
	n, base, dg := c.Cfg.Int("n"), c.Cfg.Int("base"), c.Cfg.Int("dg")
	origin := base // absolute stream position of data[0]
	if c.Cfg.Has("origin") {
		origin = c.Cfg.Int("origin")
	}
	data := make([]byte, n)
	for i := range data {
		data[i] = vfTruth(origin + i)
	}
	fb := vfFrameBuilder(c.Cfg.Obj("fb"))
	for d := 0; d < max(1, c.Cfg.Int("draws")); d++ {
		rec.Add(vtrace.Op{"ev": "Start", "lo": origin, "hi": origin + n})
		var payloads [][]byte
		var err error
		switch b := fb.(type) {
		case QUICFlightFrameBuilder:
			var budgets []InitialDatagramBudget
			for _, bo := range c.Cfg.Ops("budgets") {
				budgets = append(budgets, InitialDatagramBudget{MaxFrameBytes: bo.Int("max")})
			}
			if len(budgets) == 0 {
				budgets = []InitialDatagramBudget{{MaxFrameBytes: 1162}}
			}
			payloads, err = b.BuildFlight(data, budgets)
			if err == nil { // planInitialFlight: nothing is sent unless the plan validates
				err = validateInitialFlight(payloads, budgets, len(data))
			}
		case QUICFrameBuilderEx:
			var p []byte
			if c.Cfg.Bool("plainbuild") && base == 0 {
				p, err = b.Build(data)
			} else {
				p, err = b.BuildForDatagram(dg, data, uint64(base))
			}
			payloads = [][]byte{p}
		default:
			var p []byte
			p, err = fb.Build(data)
			payloads = [][]byte{p}
		}
		if err != nil {
			rec.Add(vtrace.Op{"ev": "End", "err": true, "stuck": false, "msg": err.Error()})
			continue
		}
		for _, p := range payloads {
			vfEmitFrames(rec, p, vfTruth)
		}
		rec.Add(vtrace.Op{"ev": "End", "err": false, "stuck": false})
	}
}

// vfClientHello builds a syntactically valid ClientHello from a list of extensions
// ({t: type, n: body length} / {t: "sni", name: length, extra: other name entries before} / {t: "ech", n: body length})
func vfClientHello(c vtrace.Op) []byte {
	var exts []byte
	for _, e := range c.Ops("exts") {
		var typ uint16
		var body []byte
		switch e.Str("t") {
		case "sni":
			typ = 0
			var list []byte
			for i := 0; i < e.Int("other"); i++ { // name entries of another type ahead of the host name
				list = append(list, 1, 0, 3, 'x', 'y', 'z')
			}
			if e.Int("name") >= 0 {
				name := make([]byte, e.Int("name"))
				for i := range name {
					name[i] = 'a' + byte(i%26)
				}
				list = append(list, 0, byte(len(name)>>8), byte(len(name)))
				list = append(list, name...)
			}
			body = binary.BigEndian.AppendUint16(nil, uint16(len(list)))
			body = append(body, list...)
		case "ech":
			typ = 0xfe0d
			body = make([]byte, e.Int("n"))
		default:
			typ = uint16(0x1000 + e.Int("id"))
			body = make([]byte, e.Int("n"))
		}
		for i := range body {
			if body[i] == 0 && e.Str("t") != "sni" {
				body[i] = byte(0x80 + i%100)
			}
		}
		exts = binary.BigEndian.AppendUint16(exts, typ)
		exts = binary.BigEndian.AppendUint16(exts, uint16(len(body)))
		exts = append(exts, body...)
	}
	msg := []byte{3, 3}
	for i := 0; i < 32; i++ {
		msg = append(msg, byte(i))
	}
	sid := make([]byte, c.Int("sid"))
	msg = append(msg, byte(len(sid)))
	msg = append(msg, sid...)
	msg = append(msg, 0, 4, 0x13, 0x01, 0x13, 0x02)
	msg = append(msg, 1, 0)
	msg = binary.BigEndian.AppendUint16(msg, uint16(len(exts)))
	msg = append(msg, exts...)
	out := []byte{1, byte(len(msg) >> 16), byte(len(msg) >> 8), byte(len(msg))}
	return append(out, msg...)
}

func vfRunScrambler(c vtrace.Case, rec *vtrace.Rec) {
	ch := vfClientHello(c.Cfg)
	s := newInitialCryptoStream(true)
	rec.Add(vtrace.Op{"ev": "Start", "lo": 0, "hi": len(ch)})
	// written in the chunks given (uTLS writes it in one piece, crypto/tls may not)
	pos := 0
	var werr error
	for _, k := range append(c.Cfg.Ints("chunks"), len(ch)) {
		end := min(len(ch), pos+k)
		if end > pos {
			if _, err := s.Write(ch[pos:end]); err != nil {
				werr = err
				break
			}
		}
		pos = end
	}
	if werr != nil {
		rec.Add(vtrace.Op{"ev": "End", "err": true, "stuck": false, "msg": werr.Error()})
		return
	}
	budgets := c.Cfg.Ints("budgets")
	idle := 0
	for i := 0; i < 20000 && s.HasData(); i++ {
		b := protocol.ByteCount(budgets[i%len(budgets)])
		f := s.PopCryptoFrame(b)
		if f == nil {
			if b >= 1000 {
				idle++
			}
			if idle > 20 { // data pending, a whole packet's room, nothing handed out
				rec.Add(vtrace.Op{"ev": "End", "err": false, "stuck": true})
				return
			}
			continue
		}
		idle = 0
		match := true
		for j, x := range f.Data {
			if int(f.Offset)+j >= len(ch) || x != ch[int(f.Offset)+j] {
				match = false
				break
			}
		}
		rec.Add(vtrace.Op{"ev": "Frame", "type": "crypto", "off": int(f.Offset), "len": len(f.Data), "match": match})
	}
	rec.Add(vtrace.Op{"ev": "End", "err": false, "stuck": s.HasData()})
}

func vfRunWire(c vtrace.Case, rec *vtrace.Rec) {
	net, cconn, sconn := vtrace.NewNet(5*time.Millisecond, nil)
	defer net.Close()
	go func() {
		buf := make([]byte, 2048)
		for {
			if _, _, err := sconn.ReadFrom(buf); err != nil {
				return
			}
		}
	}()
	defer sconn.Close()
	sp := vsBuildSpec(c.Cfg)
	if c.Cfg.Has("fbx") {
		sp.InitialPacketSpec.FrameBuilder = vfFrameBuilder(c.Cfg.Obj("fbx"))
	}
	tr := &Transport{Conn: cconn}
	ut := &UTransport{Transport: tr, QUICSpec: sp}
	if c.Cfg.Str("base") == "plain" {
		ut = nil
	}
	var odcid []byte
	seen := map[int]byte{}
	pktIdx := 0
	sent := 0
	var all []vtrace.Frame
	rec.Add(vtrace.Op{"ev": "Start", "lo": 0, "hi": -1})
	var lines []vtrace.Op
	net.Tap = func(ev vtrace.NetEvent) {
		if ev.Dir != "c2s" {
			return
		}
		data := ev.Data
		for len(data) > 0 {
			h := vtrace.ParseHdr(data)
			if h.Kind != "initial" {
				break
			}
			if odcid == nil {
				odcid = append([]byte(nil), h.DCID...)
			}
			p := vtrace.OpenInitialWithPN(data, odcid, true, sp.InitialPacketSpec.InitPacketNumber+uint64(pktIdx))
			pktIdx++
			sent++
			if !p.Opened {
				lines = append(lines, vtrace.Op{"ev": "Frame", "type": "undecryptable:" + p.Err, "off": 0, "len": 0, "match": false})
			}
			for _, f := range p.Frames {
				match := true
				if f.Type == "crypto" {
					for i, b := range f.Data {
						if old, ok := seen[f.Off+i]; ok && old != b {
							match = false
						}
						seen[f.Off+i] = b
					}
					all = append(all, f)
				}
				lines = append(lines, vtrace.Op{"ev": "Frame", "type": f.Type, "off": f.Off, "len": f.Len, "match": match, "pkt": pktIdx - 1})
			}
			if h.Len <= 0 || h.Len >= len(data) {
				break
			}
			data = data[h.Len:]
		}
	}
	ctx, cancel := context.WithTimeout(context.Background(), time.Duration(c.Cfg.Int("ms"))*time.Millisecond)
	var err error
	if ut != nil {
		_, err = ut.Dial(ctx, vtrace.ServerAddr, vtrace.ClientTLS(), &Config{})
	} else {
		_, err = tr.Dial(ctx, vtrace.ServerAddr, vtrace.ClientTLS(), &Config{})
	}
	cancel()
	time.Sleep(50 * time.Millisecond)
	net.Tap = nil
	if sent == 0 {
		rec.Add(vtrace.Op{"ev": "End", "err": true, "stuck": false, "msg": vsErrString(err)})
		tr.Close()
		return
	}
	// the ClientHello announces its own length; the reassembled bytes must parse as one
	b, _, _ := vtrace.Reassemble(all)
	hi := -1
	if len(b) >= 4 && b[0] == 1 {
		hi = 4 + (int(b[1])<<16 | int(b[2])<<8 | int(b[3]))
		if len(b) >= hi && !vtrace.ParseClientHello(b[:hi]).Complete {
			hi = -1
		}
	}
	rec.Add(vtrace.Op{"ev": "Learn", "hi": hi})
	for _, l := range lines {
		rec.Add(l)
	}
	rec.Add(vtrace.Op{"ev": "End", "err": false, "stuck": false, "pkts": sent, "msg": vsErrString(err)})
	tr.Close()
}

func TestVerifC09(t *testing.T) {
	cases := vtrace.LoadCases(t)
	vtrace.ServerTLS()
	vtrace.RunSharded(t, cases, func(t *testing.T, c vtrace.Case, rec *vtrace.Rec) {
		switch c.Cfg.Str("tier") {
		case "builder":
			vfRunBuilder(c, rec)
		case "scrambler":
			vfRunScrambler(c, rec)
		case "wire":
			synctest.Test(t, func(t *testing.T) {
				defer func() {
					if vtrace.Env("VERIF_NORECOVER", "") != "" {
						return
					}
					if r := recover(); r != nil {
						rec.Add(vtrace.Op{"ev": "Panic", "msg": fmt.Sprint(r)})
					}
				}()
				vfRunWire(c, rec)
			})
		}
	})
}
