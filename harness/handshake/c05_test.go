//go:build verif

package handshake

// C05 conformance harness: two real updatableAEAD endpoints sharing the 1-RTT secrets of one connection seal
// and open packets for each other in any order, with duplicates, tampering, acknowledgements and key updates.
// An independent observer (own HKDF-Expand-Label, AEAD and header-protection mask following RFC 9001 / 9369)
// re-derives the keys of every key phase. Further checks: Initial keys for any connection ID / version against
// the observer of internal/vtrace, Retry integrity tags, packet-number truncation and recovery.

import (
	"bytes"
	"crypto"
	"crypto/aes"
	"crypto/cipher"
	"crypto/hmac"
	"crypto/tls"
	"encoding/binary"
	"errors"
	"fmt"
	"testing"
	"time"

	"golang.org/x/crypto/chacha20"
	"golang.org/x/crypto/chacha20poly1305"

	"github.com/refraction-networking/uquic/internal/monotime"
	"github.com/refraction-networking/uquic/internal/protocol"
	"github.com/refraction-networking/uquic/internal/qerr"
	"github.com/refraction-networking/uquic/internal/utils"
	"github.com/refraction-networking/uquic/internal/vtrace"
)

// ---- the observer's own derivations ----

func obsExpand(h crypto.Hash, secret []byte, label string, n int) []byte {
	full := "tls13 " + label
	info := []byte{byte(n >> 8), byte(n), byte(len(full))}
	info = append(info, full...)
	info = append(info, 0)
	var out, prev []byte
	for i := byte(1); len(out) < n; i++ {
		m := hmac.New(h.New, secret)
		m.Write(prev)
		m.Write(info)
		m.Write([]byte{i})
		prev = m.Sum(nil)
		out = append(out, prev...)
	}
	return out[:n]
}

type obsKeys struct {
	aead cipher.AEAD
	iv   []byte
}

func obsLabels(v protocol.Version) (key, iv, hp, ku string) {
	if v == protocol.Version2 {
		return "quicv2 key", "quicv2 iv", "quicv2 hp", "quicv2 ku"
	}
	return "quic key", "quic iv", "quic hp", "quic ku"
}

func obsSuite(id uint16) (crypto.Hash, int) {
	switch id {
	case tls.TLS_AES_128_GCM_SHA256:
		return crypto.SHA256, 16
	case tls.TLS_AES_256_GCM_SHA384:
		return crypto.SHA384, 32
	}
	return crypto.SHA256, 32
}

// obsPhaseKeys: secret of key phase n = n applications of "ku" to the traffic secret; key / iv from it
func obsPhaseKeys(id uint16, v protocol.Version, secret []byte, phase int) obsKeys {
	h, klen := obsSuite(id)
	kl, il, _, ku := obsLabels(v)
	s := secret
	for i := 0; i < phase; i++ {
		s = obsExpand(h, s, ku, h.Size())
	}
	key, iv := obsExpand(h, s, kl, klen), obsExpand(h, s, il, 12)
	var a cipher.AEAD
	if id == tls.TLS_CHACHA20_POLY1305_SHA256 {
		a, _ = chacha20poly1305.New(key)
	} else {
		b, _ := aes.NewCipher(key)
		a, _ = cipher.NewGCM(b)
	}
	return obsKeys{a, iv}
}

func (k obsKeys) open(ct []byte, pn uint64, ad []byte) ([]byte, error) {
	nonce := append([]byte(nil), k.iv...)
	var pnb [8]byte
	binary.BigEndian.PutUint64(pnb[:], pn)
	for i := 0; i < 8; i++ {
		nonce[4+i] ^= pnb[i]
	}
	return k.aead.Open(nil, nonce, ct, ad)
}

// obsMask: header protection mask for a sample (RFC 9001 5.4.3 / 5.4.4); the hp key is not updated by key updates
func obsMask(id uint16, v protocol.Version, secret, sample []byte) []byte {
	h, klen := obsSuite(id)
	_, _, hl, _ := obsLabels(v)
	hp := obsExpand(h, secret, hl, klen)
	mask := make([]byte, 5)
	if id == tls.TLS_CHACHA20_POLY1305_SHA256 {
		c, _ := chacha20.NewUnauthenticatedCipher(hp, sample[4:16])
		c.SetCounter(binary.LittleEndian.Uint32(sample[:4]))
		c.XORKeyStream(mask, mask)
		return mask
	}
	b, _ := aes.NewCipher(hp)
	full := make([]byte, 16)
	b.Encrypt(full, sample[:16])
	return full[:5]
}

type vfPkt struct {
	from    string
	pn      protocol.PacketNumber
	pnLen   protocol.PacketNumberLen
	kp      protocol.KeyPhaseBit
	ad      []byte
	ct      []byte
	plain   []byte
	first   byte // protected first byte
	pnBytes []byte
	sample  []byte
}

func vfOpenRes(err error) string {
	var te *qerr.TransportError
	switch {
	case err == nil:
		return "ok"
	case err == ErrDecryptionFailed:
		return "decrypt_failed"
	case err == ErrKeysDropped:
		return "keys_dropped"
	case errors.As(err, &te) && te.ErrorCode == qerr.KeyUpdateError:
		return "key_update_error"
	case errors.As(err, &te) && te.ErrorCode == qerr.AEADLimitReached:
		return "aead_limit"
	}
	return "other:" + err.Error()
}

func vfRunKeys(c vtrace.Case, rec *vtrace.Rec) {
	suiteID := map[string]uint16{"aes128": tls.TLS_AES_128_GCM_SHA256, "aes256": tls.TLS_AES_256_GCM_SHA384, "chacha": tls.TLS_CHACHA20_POLY1305_SHA256}[c.Cfg.Str("suite")]
	v := protocol.Version1
	if c.Cfg.Int("version") == 2 {
		v = protocol.Version2
	}
	suite := getCipherSuite(suiteID)
	sec := map[string][]byte{"a": make([]byte, suite.Hash.Size()), "b": make([]byte, suite.Hash.Size())} // write secret of each endpoint
	for i := range sec["a"] {
		sec["a"][i], sec["b"][i] = byte(i*7+c.Cfg.Int("salt")), byte(255-i*3+c.Cfg.Int("salt"))
	}
	ends := map[string]*updatableAEAD{}
	for _, x := range []string{"a", "b"} {
		rtt := utils.NewRTTStats()
		rtt.UpdateRTT(10*time.Millisecond, 0)
		e := newUpdatableAEAD(rtt, nil, utils.DefaultLogger, v)
		ends[x] = e
	}
	ends["a"].SetWriteKey(suite, sec["a"])
	ends["a"].SetReadKey(suite, sec["b"])
	ends["b"].SetWriteKey(suite, sec["b"])
	ends["b"].SetReadKey(suite, sec["a"])
	peer := map[string]string{"a": "b", "b": "a"}
	now := monotime.Time(1_000_000_000)
	next := map[string]protocol.PacketNumber{"a": protocol.PacketNumber(c.Cfg.Int("pn0")), "b": protocol.PacketNumber(c.Cfg.Int("pn0") * 3)}
	largestAcked := map[string]protocol.PacketNumber{"a": protocol.InvalidPacketNumber, "b": protocol.InvalidPacketNumber}
	highestOpened := map[string]protocol.PacketNumber{"a": protocol.InvalidPacketNumber, "b": protocol.InvalidPacketNumber} // of packets sent by x, opened by its peer
	pkts := map[int]*vfPkt{}
	nid := 0
	for _, op := range c.Ops {
		who := op.Str("who")
		switch op.Str("op") {
		case "Confirm":
			ends[who].SetHandshakeConfirmed()
			rec.Add(vtrace.Op{"ev": "Confirm", "who": who})
		case "Tick":
			now = now.Add(time.Duration(op.Int("d")) * time.Millisecond)
		case "Seal":
			for i := 0; i < max(1, op.Int("n")); i++ {
				e := ends[who]
				kp := e.KeyPhase() // may initiate a key update
				pn := next[who]
				next[who] += protocol.PacketNumber(1 + op.Int("gap"))
				pnLen := protocol.PacketNumberLengthForHeader(pn, largestAcked[who])
				if l := op.Int("pnlen"); l > int(pnLen) { // a sender may always use more bytes than needed
					pnLen = protocol.PacketNumberLen(l)
				}
				plain := make([]byte, max(op.Int("size"), 4-int(pnLen))) // at least 4 bytes of packet number + payload: the sample must exist
				for j := range plain {
					plain[j] = byte(j*13 + int(pn))
				}
				first := byte(0x40) | byte(pnLen-1)
				if kp == protocol.KeyPhaseOne {
					first |= 0x04
				}
				hdr := []byte{first, 0xc1, 0xd2, 0xe3, 0xf4} // short header: first byte, 4-byte destination connection ID
				pnb := make([]byte, int(pnLen))
				for j := 0; j < int(pnLen); j++ {
					pnb[int(pnLen)-1-j] = byte(uint64(pn) >> (8 * j))
				}
				ad := append(append([]byte(nil), hdr...), pnb...)
				ct := e.Seal(nil, plain, pn, ad)
				// header protection: sample = 16 bytes starting 4 bytes after the start of the packet number
				all := append(append([]byte(nil), pnb...), ct...)
				sample := append([]byte(nil), all[4:20]...)
				pf, ppn := first, append([]byte(nil), pnb...)
				e.EncryptHeader(sample, &pf, ppn)
				mask := obsMask(suiteID, v, sec[who], sample)
				hpOK := pf == first^(mask[0]&0x1f)
				for j := range pnb {
					hpOK = hpOK && ppn[j] == pnb[j]^mask[1+j]
				}
				pt, oerr := obsPhaseKeys(suiteID, v, sec[who], int(e.keyPhase)).open(ct, uint64(pn), ad)
				rfc := hpOK && oerr == nil && bytes.Equal(pt, plain)
				nid++
				pkts[nid] = &vfPkt{from: who, pn: pn, pnLen: pnLen, kp: kp, ad: ad, ct: ct, plain: plain, first: pf, pnBytes: ppn, sample: sample}
				rec.Add(vtrace.Op{"ev": "Seal", "who": who, "id": nid, "pn": int(pn), "phase": int(e.keyPhase), "rfc": rfc, "hp": hpOK, "pnlen": int(pnLen)})
			}
		case "Open":
			// idx counts back from the newest packet of the peer: reordering / duplicates
			var ids []int
			for id := 1; id <= nid; id++ {
				if pkts[id].from == peer[who] {
					ids = append(ids, id)
				}
			}
			if len(ids) == 0 {
				continue
			}
			id := ids[max(0, len(ids)-1-op.Int("back")%len(ids))]
			p := pkts[id]
			e := ends[who]
			first, pnb, ct, ad := p.first, append([]byte(nil), p.pnBytes...), append([]byte(nil), p.ct...), []byte(nil)
			tampered := op.Str("tamper") != ""
			switch op.Str("tamper") {
			case "ct":
				ct[op.Int("k")%len(ct)] ^= 1 << (op.Int("k") % 8)
			case "trunc":
				ct = ct[:len(ct)-1]
			}
			// remove header protection, decode the packet number, rebuild the associated data
			e.DecryptHeader(p.sample, &first, pnb)
			var wire protocol.PacketNumber
			for _, b := range pnb {
				wire = wire<<8 | protocol.PacketNumber(b)
			}
			dec := e.DecodePacketNumber(wire, protocol.PacketNumberLen(first&0x03+1))
			ad = append([]byte{first, 0xc1, 0xd2, 0xe3, 0xf4}, pnb...)
			switch op.Str("tamper") {
			case "ad":
				ad[1+op.Int("k")%4] ^= 0x10
			case "kp":
				first ^= 0x04
				ad[0] = first
			}
			kp := protocol.KeyPhaseZero
			if first&0x04 != 0 {
				kp = protocol.KeyPhaseOne
			}
			pt, err := e.Open(nil, ct, now, dec, kp, ad)
			res := vfOpenRes(err)
			same := err == nil && bytes.Equal(pt, p.plain) && dec == p.pn && first&0x1f == (byte(0x40)|byte(p.pnLen-1)|map[protocol.KeyPhaseBit]byte{protocol.KeyPhaseZero: 0, protocol.KeyPhaseOne: 4}[p.kp])&0x1f
			if err == nil && !tampered && p.pn > highestOpened[p.from] {
				highestOpened[p.from] = p.pn
			}
			rec.Add(vtrace.Op{"ev": "Open", "who": who, "id": id, "tampered": tampered, "res": res, "same": same, "phase": int(e.keyPhase), "dec": int(dec)})
			if res == "key_update_error" || res == "aead_limit" {
				return // the connection is closed
			}
		case "Ack": // the peer acknowledges what it opened
			if highestOpened[who] == protocol.InvalidPacketNumber {
				continue
			}
			if err := ends[who].SetLargestAcked(highestOpened[who]); err != nil {
				rec.Add(vtrace.Op{"ev": "Note", "msg": "SetLargestAcked: " + err.Error()})
				return
			}
			largestAcked[who] = highestOpened[who]
			rec.Add(vtrace.Op{"ev": "Acked", "who": who, "pn": int(highestOpened[who])})
		}
	}
}

// vfRunInitial: Initial keys for any connection ID and version, sealed by the code and opened by the observer of
// internal/vtrace and the other way round; Retry integrity tags
func vfRunInitial(c vtrace.Case, rec *vtrace.Rec) {
	cid := make([]byte, c.Cfg.Int("cidlen"))
	for i := range cid {
		cid[i] = byte(i*29 + c.Cfg.Int("salt"))
	}
	v, ov := protocol.Version1, uint32(vtrace.ObsV1)
	if c.Cfg.Int("version") == 2 {
		v, ov = protocol.Version2, vtrace.ObsV2
	}
	connID := protocol.ParseConnectionID(cid)
	for _, pers := range []protocol.Perspective{protocol.PerspectiveClient, protocol.PerspectiveServer} {
		sealer, _ := NewInitialAEAD(connID, pers, v)
		_, opener := NewInitialAEAD(connID, pers.Opposite(), v)
		fromClient := pers == protocol.PerspectiveClient
		for _, size := range []int{3, 20, 1100} { // 3: the smallest payload that still yields a sample with a 1-byte packet number
			pn := uint32(c.Cfg.Int("pn"))
			payload := make([]byte, size)
			payload[0] = 0x01 // PING, then PADDING
			// the observer seals, the code opens
			pkt := vtrace.SealInitial(ov, cid, cid, []byte{1, 2, 3, 4}, nil, pn, payload, fromClient, 0)
			h := vtrace.ParseHdr(pkt)
			ok, why := true, ""
			if h.Kind != "initial" || h.PNOffset <= 0 {
				ok, why = false, "observer packet not parsable"
			} else {
				b := append([]byte(nil), pkt...)
				sample := b[h.PNOffset+4 : h.PNOffset+20]
				opener.DecryptHeader(sample, &b[0], b[h.PNOffset:h.PNOffset+4])
				pnLen := int(b[0]&0x03) + 1
				var wire protocol.PacketNumber
				for _, x := range b[h.PNOffset : h.PNOffset+pnLen] {
					wire = wire<<8 | protocol.PacketNumber(x)
				}
				got := opener.DecodePacketNumber(wire, protocol.PacketNumberLen(pnLen))
				pt, err := opener.Open(nil, b[h.PNOffset+pnLen:h.Len], got, b[:h.PNOffset+pnLen])
				if err != nil || got != protocol.PacketNumber(pn) || !bytes.HasPrefix(pt, payload) {
					ok, why = false, fmt.Sprintf("code cannot open the observer's Initial (cid %x v%d pn %d size %d): %v", cid, c.Cfg.Int("version"), pn, size, err)
				}
			}
			rec.Add(vtrace.Op{"ev": "Check", "ok": ok, "why": why})
			// the code seals, the observer opens
			hdr := []byte{0xc0 | 0x03}
			if v == protocol.Version2 {
				hdr[0] = 0xd0 | 0x03
			}
			hdr = binary.BigEndian.AppendUint32(hdr, ov)
			hdr = append(hdr, byte(len(cid)))
			hdr = append(hdr, cid...)
			hdr = append(hdr, 4, 1, 2, 3, 4, 0) // scid, empty token
			l := 4 + len(payload) + 16
			hdr = append(hdr, 0x40|byte(l>>8), byte(l))
			pnOff := len(hdr)
			hdr = binary.BigEndian.AppendUint32(hdr, pn)
			ct := sealer.Seal(nil, payload, protocol.PacketNumber(pn), hdr)
			raw := append(append([]byte(nil), hdr...), ct...)
			sealer.EncryptHeader(raw[pnOff+4:pnOff+20], &raw[0], raw[pnOff:pnOff+4])
			op := vtrace.OpenInitialWithPN(raw, cid, fromClient, uint64(pn))
			ok, why = op.Opened && op.PN == uint64(pn) && op.Payload == len(payload), ""
			if !ok {
				why = fmt.Sprintf("observer cannot open the code's Initial (cid %x v%d size %d): %s", cid, c.Cfg.Int("version"), size, op.Err)
			}
			rec.Add(vtrace.Op{"ev": "Check", "ok": ok, "why": why})
		}
	}
	// Retry integrity tag
	retry := vtrace.RetryPacket(ov, cid, []byte{9, 8, 7, 6}, []byte{5, 5, 5, 5, 5}, []byte("token"), true)
	tag := GetRetryIntegrityTag(retry[:len(retry)-16], connID, v)
	ok := bytes.Equal(tag[:], retry[len(retry)-16:]) && vtrace.RetryTagOK(retry, cid)
	rec.Add(vtrace.Op{"ev": "Check", "ok": ok, "why": map[bool]string{true: "", false: "Retry integrity tag differs from the observer's"}[ok]})
}

// vfRunPN: packet number truncation and recovery: for every (largest acknowledged, next) pair of the case's window the
// number the receiver decodes is the number sent, given a receiver that has seen at least what the sender knows acknowledged
func vfRunPN(c vtrace.Case, rec *vtrace.Rec) {
	base := protocol.PacketNumber(c.Cfg.Int("base"))
	span := protocol.PacketNumber(c.Cfg.Int("span"))
	bad := ""
	for acked := base - 1; acked < base+span && bad == ""; acked++ {
		la := acked
		if la < 0 {
			la = protocol.InvalidPacketNumber
		}
		for _, d := range []protocol.PacketNumber{1, 2, 100, 1 << 7, 1<<7 + 1, 1 << 14, 1<<15 - 1, 1 << 15, 1<<15 + 1, 1<<23 - 1, 1 << 23, 1<<23 + 1, 1<<31 - 1, 1 << 31} {
			pn := acked + d
			if pn < 0 {
				continue
			}
			l := protocol.PacketNumberLengthForHeader(pn, la)
			wire := pn & (1<<(8*uint(l)) - 1)
			// the receiver's largest received is anywhere between what was acknowledged and the packet before this one
			for _, largest := range []protocol.PacketNumber{la, (la + pn) / 2, pn - 1} {
				if largest < la {
					continue
				}
				if got := protocol.DecodePacketNumber(l, largest, wire); got != pn {
					bad = fmt.Sprintf("acked %d, next %d sent with %d bytes, receiver's largest %d: decoded %d", la, pn, l, largest, got)
				}
			}
		}
	}
	rec.Add(vtrace.Op{"ev": "Check", "ok": bad == "", "why": bad})
}

func TestVerifC05(t *testing.T) {
	cases := vtrace.LoadCases(t)
	reset := SetKeyUpdateInterval(5) // key updates every few packets
	defer reset()
	FirstKeyUpdateInterval = 3
	vtrace.RunSharded(t, cases, func(t *testing.T, c vtrace.Case, rec *vtrace.Rec) {
		switch c.Cfg.Str("tier") {
		case "keys":
			vfRunKeys(c, rec)
		case "initial":
			vfRunInitial(c, rec)
		case "pn":
			vfRunPN(c, rec)
		}
	})
}
