//go:build verif

package congestion

// C20 conformance harness (component tier): drives the real cubicSender (Reno and CUBIC) with
// histories of sent / acked / lost / RTT / MTU / idle events under a model clock and records the
// window after every call, every CanSend answer and every pacing budget.
// The bookkeeping of packets in flight is the harness's (as sentPacketHandler does it: one
// priorInFlight per ACK, losses reported before acknowledgements).

import (
	"math/big"
	"testing"
	"time"

	"github.com/refraction-networking/uquic/internal/monotime"
	"github.com/refraction-networking/uquic/internal/protocol"
	"github.com/refraction-networking/uquic/internal/utils"
	"github.com/refraction-networking/uquic/internal/vtrace"
)

const vfCap = 1 << 29

type vfClock struct{ now monotime.Time }

func (c *vfClock) Now() monotime.Time { return c.now }

type vfPkt struct {
	pn   protocol.PacketNumber
	size protocol.ByteCount
}

// VfCredit = ceil(5 * cwnd * ns / (4 * srtt)), capped; srtt 0 is read as the timer granularity (as BandwidthEstimate does)
func vfScaled(cwnd protocol.ByteCount, ns int64, srtt time.Duration) int {
	if ns <= 0 {
		return 0
	}
	if srtt <= 0 {
		srtt = protocol.TimerGranularity
	}
	num := new(big.Int).Mul(big.NewInt(5*int64(cwnd)), big.NewInt(ns))
	den := big.NewInt(4 * int64(srtt))
	q, r := new(big.Int).QuoRem(num, den, new(big.Int))
	if r.Sign() > 0 {
		q.Add(q, big.NewInt(1))
	}
	if !q.IsInt64() || q.Int64() > vfCap {
		return vfCap
	}
	return int(q.Int64())
}

type vfDriver struct {
	s        *cubicSender
	rtt      *utils.RTTStats
	clk      *vfClock
	rec      *vtrace.Rec
	mss      protocol.ByteCount // the sender's datagram size
	pmss     protocol.ByteCount // the pacer's: protocol.InitialPacketSize until the first SetMaxDatagramSize
	out      []vfPkt
	inflight protocol.ByteCount
	next     protocol.PacketNumber
	lastSent monotime.Time
	sent     bool
}

func (d *vfDriver) cw() int { return int(d.s.GetCongestionWindow()) }

func (d *vfDriver) pacing(now monotime.Time) (credit, burst int) {
	var el int64
	if d.sent {
		el = int64(now.Sub(d.lastSent))
	}
	credit = vfScaled(d.s.GetCongestionWindow(), el, d.rtt.SmoothedRTT())
	burst = max(int(10*d.pmss), vfScaled(d.s.GetCongestionWindow(), int64(protocol.MinPacingDelay+protocol.TimerGranularity), d.rtt.SmoothedRTT()))
	return
}

func (d *vfDriver) send(size protocol.ByteCount, ae bool) {
	now := d.clk.now
	credit, burst := d.pacing(now)
	pn := d.next
	d.next++
	d.s.OnPacketSent(now, d.inflight, pn, size, ae)
	d.lastSent, d.sent = now, true
	if ae {
		d.out = append(d.out, vfPkt{pn, size})
		d.inflight += size
	}
	d.rec.Add(vtrace.Op{"ev": "Sent", "pn": int(pn), "ae": ae, "size": int(size), "credit": credit, "burst": burst, "cwnd": d.cw()})
}

func (d *vfDriver) canSend() bool {
	ok := d.s.CanSend(d.inflight)
	d.rec.Add(vtrace.Op{"ev": "CanSend", "inf": int(d.inflight), "ok": ok, "cwnd": d.cw()})
	return ok
}

func (d *vfDriver) budget() {
	now := d.clk.now
	credit, burst := d.pacing(now)
	b := d.s.pacer.Budget(now)
	hb := d.s.HasPacingBudget(now)
	bb := int(min(b, vfCap))
	if hb && b < d.mss { // HasPacingBudget authorises a full packet: it must be covered by the budget
		bb = int(d.mss)
	}
	d.rec.Add(vtrace.Op{"ev": "Budget", "credit": credit, "burst": burst, "b": bb, "cwnd": d.cw()})
}

// ackLoss reports, like sentPacketHandler.ReceivedAck, one priorInFlight for the whole ACK:
// RTT sample -> MaybeExitSlowStart, losses, then acknowledgements.
func (d *vfDriver) ackLoss(ack, lose []int, rttSample time.Duration, sparse bool) {
	prior := d.inflight
	pick := func(idx []int) []vfPkt {
		var ps []vfPkt
		for _, i := range idx {
			if len(d.out) == 0 {
				break
			}
			if i < 0 {
				i = len(d.out) + i
			}
			i = ((i % len(d.out)) + len(d.out)) % len(d.out)
			ps = append(ps, d.out[i])
			d.inflight -= d.out[i].size
			d.out = append(d.out[:i], d.out[i+1:]...)
		}
		return ps
	}
	acked := pick(ack)
	lost := pick(lose)
	if len(acked) > 0 && rttSample > 0 {
		d.rtt.UpdateRTT(rttSample, 0)
		pre := d.cw()
		d.s.MaybeExitSlowStart()
		if !sparse || d.cw() != pre {
			d.rec.Add(vtrace.Op{"ev": "ExitSS", "cwnd": d.cw()})
		}
	}
	for _, p := range lost {
		d.s.OnCongestionEvent(p.pn, p.size, prior)
		d.rec.Add(vtrace.Op{"ev": "Lost", "pn": int(p.pn), "prior": int(prior), "cwnd": d.cw()})
	}
	for _, p := range acked {
		ss, pre := d.s.InSlowStart(), d.cw()
		d.s.OnPacketAcked(p.pn, p.size, prior, d.clk.now)
		if !sparse || d.cw() != pre {
			d.rec.Add(vtrace.Op{"ev": "Acked", "pn": int(p.pn), "prior": int(prior), "ss": ss, "cwnd": d.cw()})
		}
	}
}

func TestVerifC20(t *testing.T) {
	cases := vtrace.LoadCases(t)
	vtrace.RunSharded(t, cases, func(t *testing.T, c vtrace.Case, rec *vtrace.Rec) {
		clk := &vfClock{now: monotime.Time(c.Cfg.Int("t0"))}
		rtt := utils.NewRTTStats()
		mss := protocol.ByteCount(c.Cfg.Int("mss"))
		s := NewCubicSender(clk, rtt, &utils.ConnectionStats{}, mss, c.Cfg.Bool("reno"), nil)
		d := &vfDriver{s: s, rtt: rtt, clk: clk, rec: rec, mss: mss, pmss: initialMaxDatagramSize}
		rec.Add(vtrace.Op{"ev": "Init", "mss": int(mss), "cwnd": d.cw()})
		for _, op := range c.Ops {
			switch op.Str("op") {
			case "Tick": // d may be negative: event times are whatever the caller read off its clock
				n := clk.now.Add(time.Duration(op.Int("d")))
				if n <= 0 {
					n = 1
				}
				clk.now = n
			case "Send":
				for i := 0; i < op.Int("n"); i++ {
					if op.Bool("gate") && !d.canSend() {
						break
					}
					size := protocol.ByteCount(op.Int("size"))
					if size <= 0 || size > d.mss {
						size = d.mss
					}
					d.send(size, !op.Has("ae") || op.Bool("ae"))
					if op.Int("gap") > 0 {
						clk.now = clk.now.Add(time.Duration(op.Int("gap")))
					}
				}
			case "AckLoss":
				d.ackLoss(op.Ints("ack"), op.Ints("lose"), time.Duration(op.Int("rtt")), false)
			case "Rtt":
				rtt.UpdateRTT(time.Duration(op.Int("rtt")), 0)
			case "Budget":
				d.budget()
			case "CanSend":
				d.canSend()
			case "Mtu":
				m := protocol.ByteCount(op.Int("mss"))
				if m < d.mss {
					continue
				}
				s.SetMaxDatagramSize(m)
				d.mss, d.pmss = m, m
				rec.Add(vtrace.Op{"ev": "Mtu", "mss": int(m), "cwnd": d.cw()})
			case "Rto":
				s.OnRetransmissionTimeout(op.Bool("retx"))
				rec.Add(vtrace.Op{"ev": "Rto", "cwnd": d.cw()})
			case "Migr":
				s.OnConnectionMigration()
				d.out, d.inflight = nil, 0
				rec.Add(vtrace.Op{"ev": "Migr", "cwnd": d.cw()})
			case "Bulk":
				// n rounds of: fill the window with full-size packets, acknowledge the oldest;
				// only the calls that changed the window are recorded (the others are stuttering steps)
				step := time.Duration(op.Int("gap"))
				sample := time.Duration(op.Int("rtt"))
				for i := 0; i < op.Int("n"); i++ {
					for d.s.CanSend(d.inflight) {
						pn := d.next
						d.next++
						pre := d.cw()
						d.s.OnPacketSent(clk.now, d.inflight, pn, d.mss, true)
						d.lastSent, d.sent = clk.now, true
						d.out = append(d.out, vfPkt{pn, d.mss})
						d.inflight += d.mss
						if d.cw() != pre {
							rec.Add(vtrace.Op{"ev": "Sent", "pn": int(pn), "ae": true, "size": int(d.mss), "credit": 0, "burst": vfCap, "cwnd": d.cw()})
						}
					}
					clk.now = clk.now.Add(step)
					d.ackLoss([]int{0}, nil, sample, true)
				}
				rec.Add(vtrace.Op{"ev": "Forget"})
				d.canSend()
			default:
				panic("unknown op " + op.Str("op"))
			}
		}
	})
}
