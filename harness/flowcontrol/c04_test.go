//go:build verif

package flowcontrol

// C04 conformance harness (component tier): several real StreamFlowControllers sharing one real
// ConnectionFlowController; every call's result and the projected state are recorded.

import (
	"errors"
	"testing"
	"time"

	"github.com/refraction-networking/uquic/internal/monotime"
	"github.com/refraction-networking/uquic/internal/protocol"
	"github.com/refraction-networking/uquic/internal/qerr"
	"github.com/refraction-networking/uquic/internal/utils"
	"github.com/refraction-networking/uquic/internal/vtrace"
)

func TestVerifC04(t *testing.T) {
	cases := vtrace.LoadCases(t)
	vtrace.RunSharded(t, cases, func(t *testing.T, c vtrace.Case, rec *vtrace.Rec) {
		n := c.Cfg.Int("streams")
		rtt := utils.NewRTTStats()
		if ms := c.Cfg.Int("rtt_ms"); ms > 0 {
			rtt.UpdateRTT(time.Duration(ms)*time.Millisecond, 0)
		}
		cfc := NewConnectionFlowController(protocol.ByteCount(c.Cfg.Int("cw0")), protocol.ByteCount(c.Cfg.Int("cmaxw")),
			func(protocol.ByteCount) bool { return true }, rtt, utils.DefaultLogger)
		cfc.UpdateSendWindow(protocol.ByteCount(c.Cfg.Int("cslim0")))
		fcs := make([]*streamFlowController, n+1)
		for s := 1; s <= n; s++ {
			fcs[s] = NewStreamFlowController(protocol.StreamID(4*s), cfc, protocol.ByteCount(c.Cfg.Int("w0")), protocol.ByteCount(c.Cfg.Int("maxw")),
				protocol.ByteCount(c.Cfg.Int("slim0")), rtt, utils.DefaultLogger).(*streamFlowController)
		}
		now := monotime.Time(1_000_000_000_000)
		failed := false
		for i, op := range c.Ops {
			line := vtrace.Op{"ev": op.Str("op"), "i": i}
			s := op.Int("s")
			if s < 1 || s > n {
				s = 1
			}
			fc := fcs[s]
			line["s"] = s
			switch op.Str("op") {
			case "Tick":
				now = now.Add(time.Duration(op.Int("d")) * time.Millisecond)
				continue
			case "Recv":
				if failed {
					continue
				}
				err := fc.UpdateHighestReceived(protocol.ByteCount(op.Int("off")), op.Bool("fin"), now)
				res := "ok"
				var te *qerr.TransportError
				if errors.As(err, &te) {
					switch te.ErrorCode {
					case qerr.FinalSizeError:
						res = "FINAL_SIZE_ERROR"
					case qerr.FlowControlError:
						res = "FLOW_CONTROL_ERROR"
					default:
						res = "transport:" + te.ErrorCode.String()
					}
				} else if err != nil {
					res = "other:" + err.Error()
				}
				failed = err != nil
				line["off"], line["fin"], line["res"] = op.Int("off"), op.Bool("fin"), res
			case "Consume":
				avail := int(fc.highestReceived - fc.bytesRead)
				k := op.Int("n")
				if k > avail {
					k = avail
				}
				fc.AddBytesRead(protocol.ByteCount(k))
				line["n"] = k
			case "Abandon":
				fc.Abandon()
			case "StreamUpdate":
				v := fc.GetWindowUpdate(now)
				line["v"], line["w"] = int(v), int(fc.receiveWindowSize)
			case "ConnUpdate":
				v := cfc.GetWindowUpdate(now)
				line["v"], line["w"] = int(v), int(cfc.receiveWindowSize)
			case "Send":
				sw := int(fc.SendWindowSize())
				k := op.Int("n")
				if k > sw {
					k = sw
				}
				fc.AddBytesSent(protocol.ByteCount(k))
				line["n"], line["sw"] = k, sw
			case "MaxStreamData":
				fc.UpdateSendWindow(protocol.ByteCount(op.Int("v")))
				line["v"] = op.Int("v")
			case "MaxData":
				cfc.UpdateSendWindow(protocol.ByteCount(op.Int("v")))
				line["v"] = op.Int("v")
			case "StreamBlocked":
				line["b"] = fc.IsNewlyBlocked()
			case "ConnBlocked":
				b, at := cfc.IsNewlyBlocked()
				line["b"], line["at"] = b, int(at)
			default:
				panic("unknown op " + op.Str("op"))
			}
			line["cr"] = int(cfc.bytesRead)
			rec.Add(line)
			if failed {
				break // the connection is closed with this error
			}
		}
	})
}
