//go:build verif

package wire

// C08 conformance harness: structured values enumerated by TLC (frame kind x variable-length-integer boundaries in
// every numeric field, headers, version negotiation packets) go through the real Append / Length / parsers;
// seeded batches of byte strings go through every parser; values outside what RFC 9000 allows are presented.

import (
	"bytes"
	"fmt"
	"math/rand"
	"reflect"
	"testing"
	"time"

	"github.com/refraction-networking/uquic/internal/protocol"
	"github.com/refraction-networking/uquic/internal/qerr"
	"github.com/refraction-networking/uquic/internal/vtrace"
	"github.com/refraction-networking/uquic/quicvarint"
)

var vfBound = map[string]uint64{"0": 0, "1": 1, "63": 63, "64": 64, "16383": 16383, "16384": 16384, "2^30-1": 1<<30 - 1, "2^30": 1 << 30, "2^62-1": 1<<62 - 1}

// vfParseOne parses one frame the way the connection does (type, then the per-family parser); returns the frame and the bytes consumed
func vfParseOne(p *FrameParser, b []byte, lvl protocol.EncryptionLevel) (Frame, int, error) {
	ft, l, err := p.ParseType(b, lvl)
	if err != nil {
		return nil, l, err
	}
	b2 := b[l:]
	var f Frame
	var n int
	switch {
	case ft.IsStreamFrameType():
		f, n, err = p.ParseStreamFrame(ft, b2, protocol.Version1)
	case ft.IsAckFrameType():
		f, n, err = p.ParseAckFrame(ft, b2, lvl, protocol.Version1)
	case ft.IsDatagramFrameType():
		f, n, err = p.ParseDatagramFrame(ft, b2, protocol.Version1)
	default:
		f, n, err = p.ParseLessCommonFrame(ft, b2, protocol.Version1)
	}
	return f, l + n, err
}

func vfSameFrame(a, b Frame) bool {
	switch x := a.(type) {
	case *StreamFrame:
		y, ok := b.(*StreamFrame)
		return ok && x.StreamID == y.StreamID && x.Offset == y.Offset && x.Fin == y.Fin && bytes.Equal(x.Data, y.Data)
	case *AckFrame:
		y, ok := b.(*AckFrame)
		if !ok || len(x.AckRanges) != len(y.AckRanges) || x.ECT0 != y.ECT0 || x.ECT1 != y.ECT1 || x.ECNCE != y.ECNCE {
			return false
		}
		for i := range x.AckRanges {
			if x.AckRanges[i] != y.AckRanges[i] {
				return false
			}
		}
		d := x.DelayTime - y.DelayTime // the delay is carried in units of 2^exponent microseconds
		return d > -8*time.Microsecond && d < 8*time.Microsecond
	case *AckFrequencyFrame: // the requested delay travels in microseconds
		y, ok := b.(*AckFrequencyFrame)
		return ok && x.SequenceNumber == y.SequenceNumber && x.AckElicitingThreshold == y.AckElicitingThreshold &&
			x.ReorderingThreshold == y.ReorderingThreshold && x.RequestMaxAckDelay/time.Microsecond == y.RequestMaxAckDelay/time.Microsecond
	case *DatagramFrame:
		y, ok := b.(*DatagramFrame)
		return ok && bytes.Equal(x.Data, y.Data)
	case *CryptoFrame:
		y, ok := b.(*CryptoFrame)
		return ok && x.Offset == y.Offset && bytes.Equal(x.Data, y.Data)
	case *NewTokenFrame:
		y, ok := b.(*NewTokenFrame)
		return ok && bytes.Equal(x.Token, y.Token)
	}
	return reflect.DeepEqual(a, b)
}

func vfData(n uint64) []byte {
	if n > 1400 { // frames travel in packets: parsers refuse data beyond the packet buffer size
		n = 1400 + n%7
	}
	b := make([]byte, n)
	for i := range b {
		b[i] = byte(i*7 + 1)
	}
	return b
}

// vfFrameFor builds the frame a knob tuple describes (nil: the tuple is outside the frame's domain)
func vfFrameFor(kind string, f []uint64) Frame {
	bc := func(i int) protocol.ByteCount { return protocol.ByteCount(f[i]) }
	sid := func(i int) protocol.StreamID { return protocol.StreamID(f[i]) }
	switch kind {
	case "max_data":
		return &MaxDataFrame{MaximumData: bc(0)}
	case "data_blocked":
		return &DataBlockedFrame{MaximumData: bc(0)}
	case "max_stream_data":
		return &MaxStreamDataFrame{StreamID: sid(0), MaximumStreamData: bc(1)}
	case "stream_data_blocked":
		return &StreamDataBlockedFrame{StreamID: sid(0), MaximumStreamData: bc(1)}
	case "max_streams":
		if f[1] > 1<<60 {
			return nil
		}
		return &MaxStreamsFrame{Type: protocol.StreamType(f[0] % 2), MaxStreamNum: protocol.StreamNum(f[1])}
	case "streams_blocked":
		if f[1] > 1<<60 {
			return nil
		}
		return &StreamsBlockedFrame{Type: protocol.StreamType(f[0] % 2), StreamLimit: protocol.StreamNum(f[1])}
	case "reset_stream":
		return &ResetStreamFrame{StreamID: sid(0), ErrorCode: qerr.StreamErrorCode(f[1]), FinalSize: bc(2)}
	case "reset_stream_at":
		if f[3] > f[2] {
			return nil
		}
		return &ResetStreamFrame{StreamID: sid(0), ErrorCode: qerr.StreamErrorCode(f[1]), FinalSize: bc(2), ReliableSize: bc(3)}
	case "stop_sending":
		return &StopSendingFrame{StreamID: sid(0), ErrorCode: qerr.StreamErrorCode(f[1])}
	case "retire_connection_id":
		return &RetireConnectionIDFrame{SequenceNumber: f[0]}
	case "new_connection_id":
		if f[1] > f[0] {
			return nil
		}
		return &NewConnectionIDFrame{SequenceNumber: f[0], RetirePriorTo: f[1], ConnectionID: protocol.ParseConnectionID(vfData(1 + f[2]%20)), StatelessResetToken: protocol.StatelessResetToken{1, 2, 3}}
	case "new_token":
		return &NewTokenFrame{Token: vfData(1 + f[0]%1200)}
	case "crypto":
		if f[0] > 1<<62-1-1600 {
			return nil
		}
		return &CryptoFrame{Offset: bc(0), Data: vfData(f[1])}
	case "stream":
		if f[1] > 1<<62-1-1600 {
			return nil
		}
		if f[2] == 0 && f[3]%2 == 0 {
			return nil // an empty STREAM frame without FIN is not a value the encoder accepts
		}
		return &StreamFrame{StreamID: sid(0), Offset: bc(1), Data: vfData(f[2]), Fin: f[3]%2 == 1, DataLenPresent: true}
	case "datagram":
		return &DatagramFrame{DataLenPresent: f[0]%2 == 1, Data: vfData(f[1])}
	case "connection_close":
		return &ConnectionCloseFrame{IsApplicationError: f[0]%2 == 1, ErrorCode: f[1], FrameType: map[bool]uint64{true: 0, false: f[2]}[f[0]%2 == 1], ReasonPhrase: string(bytes.Repeat([]byte{'r'}, int(f[3]%300)))}
	case "ack":
		// largest acknowledged f[0], first range length and a second range derived from f[1], delay f[2] us, ECN counts from f[3]
		largest := protocol.PacketNumber(f[0])
		first := protocol.PacketNumber(f[1])
		if first > largest {
			first = largest
		}
		ack := &AckFrame{AckRanges: []AckRange{{Smallest: largest - first, Largest: largest}}, DelayTime: time.Duration(f[2]%(1<<40)) * 8 * time.Microsecond}
		if largest-first >= 3 {
			ack.AckRanges = append(ack.AckRanges, AckRange{Smallest: 0, Largest: (largest - first - 2) / 2})
		}
		switch f[3] % 5 { // the ECN section: absent, or present because of any single counter, or all of them
		case 1:
			ack.ECT0 = max(f[3], 1)
		case 2:
			ack.ECT1 = max(f[3], 1)
		case 3:
			ack.ECNCE = max(f[3], 1)
		case 4:
			ack.ECT0, ack.ECT1, ack.ECNCE = f[3], 1, f[3]/2+1
		}
		return ack
	case "ack_frequency":
		return &AckFrequencyFrame{SequenceNumber: f[0], AckElicitingThreshold: f[1], RequestMaxAckDelay: time.Duration(f[2]%(1<<40)) * time.Microsecond, ReorderingThreshold: protocol.PacketNumber(f[1] % 1000)}
	case "simple":
		switch f[0] % 5 {
		case 0:
			return &PingFrame{}
		case 1:
			return &HandshakeDoneFrame{}
		case 2:
			return &ImmediateAckFrame{}
		case 3:
			return &PathChallengeFrame{Data: [8]byte{1, 2, 3, 4, 5, 6, 7, byte(f[0])}}
		}
		return &PathResponseFrame{Data: [8]byte{9, 8, 7, 6, 5, 4, 3, byte(f[0])}}
	}
	return nil
}

func vfRunValue(c vtrace.Case, rec *vtrace.Rec) {
	kind := c.Cfg.Str("kind")
	var f []uint64
	for _, s := range c.Ops {
		f = append(f, vfBound[s.Str("b")])
	}
	what := fmt.Sprintf("%s%v", kind, f)
	p := NewFrameParser(true, true, true)
	p.SetAckDelayExponent(protocol.AckDelayExponent) // the exponent the encoder uses
	switch kind {
	case "short_header":
		cid := protocol.ParseConnectionID(vfData(f[0] % 21))
		pnLen := protocol.PacketNumberLen(1 + f[1]%4)
		pn := protocol.PacketNumber(f[2] % (1 << (8 * uint(pnLen))))
		kp := protocol.KeyPhaseBit(1 + f[1]%2) // KeyPhaseZero | KeyPhaseOne
		b, err := AppendShortHeader(nil, cid, pn, pnLen, kp)
		if err != nil {
			rec.Add(vtrace.Op{"ev": "Value", "what": what, "predicted": 0, "actual": 0, "parsed": false, "consumed": 0, "equal": false, "again": false})
			return
		}
		pred := int(ShortHeaderLen(cid, pnLen))
		l, gpn, gl, gkp, perr := ParseShortHeader(append(b, 0, 0, 0, 0), cid.Len())
		gcid, cerr := ParseConnectionID(b, cid.Len())
		eq := perr == nil && cerr == nil && gpn == pn && gl == pnLen && gkp == kp && gcid == cid
		rec.Add(vtrace.Op{"ev": "Value", "what": what, "predicted": pred, "actual": len(b), "parsed": perr == nil, "consumed": l, "equal": eq, "again": true})
		return
	case "long_header":
		types := []protocol.PacketType{protocol.PacketTypeInitial, protocol.PacketTypeHandshake, protocol.PacketType0RTT}
		v := protocol.Version1
		if f[3]%2 == 1 {
			v = protocol.Version2
		}
		h := &ExtendedHeader{Header: Header{Type: types[f[0]%3], Version: v, DestConnectionID: protocol.ParseConnectionID(vfData(f[1] % 21)),
			SrcConnectionID: protocol.ParseConnectionID(vfData(f[2] % 21)), Length: protocol.ByteCount(4 + f[3]%16000)},
			PacketNumberLen: protocol.PacketNumberLen(1 + f[0]%4), PacketNumber: protocol.PacketNumber(f[2] % 200)}
		if h.Type == protocol.PacketTypeInitial {
			h.Token = vfData(f[3] % 70)
		}
		b, err := h.Append(nil, v)
		if err != nil {
			rec.Add(vtrace.Op{"ev": "Value", "what": what, "predicted": 0, "actual": 0, "parsed": false, "consumed": 0, "equal": false, "again": false})
			return
		}
		pred := int(h.GetLength(v))
		full := append(append([]byte(nil), b...), make([]byte, int(h.Length)-int(h.PacketNumberLen))...)
		hdr, data, rest, perr := ParsePacket(append(full, 0xff, 0xee)) // two bytes of a following packet
		eq := perr == nil && hdr.Type == h.Type && hdr.Version == v && hdr.DestConnectionID == h.DestConnectionID && hdr.SrcConnectionID == h.SrcConnectionID &&
			hdr.Length == h.Length && bytes.Equal(hdr.Token, h.Token) && len(data) == len(full) && len(rest) == 2
		consumed := 0
		if perr == nil {
			consumed = int(hdr.ParsedLen()) + int(h.PacketNumberLen)
			eh, eerr := hdr.ParseExtended(data)
			eq = eq && eerr == nil && eh.PacketNumberLen == h.PacketNumberLen && eh.PacketNumber == h.PacketNumber
		}
		rec.Add(vtrace.Op{"ev": "Value", "what": what, "predicted": pred, "actual": len(b), "parsed": perr == nil, "consumed": consumed, "equal": eq, "again": true})
		return
	case "vn":
		dst, src := protocol.ArbitraryLenConnectionID(vfData(f[0]%256)), protocol.ArbitraryLenConnectionID(vfData(f[1]%256))
		var vs []protocol.Version
		for i := uint64(0); i < 1+f[2]%5; i++ {
			vs = append(vs, protocol.Version(0x1a2a3a4a+i))
		}
		b := ComposeVersionNegotiation(dst, src, vs)
		d2, s2, v2, err := ParseVersionNegotiationPacket(b)
		eq := err == nil && bytes.Equal(d2, dst) && bytes.Equal(s2, src) && len(v2) >= len(vs) // the composer adds a reserved version
		for _, v := range vs {
			found := false
			for _, w := range v2 {
				found = found || v == w
			}
			eq = eq && found
		}
		n := 1 + 4 + 1 + len(dst) + 1 + len(src) + 4*len(v2)
		rec.Add(vtrace.Op{"ev": "Value", "what": what, "predicted": n, "actual": len(b), "parsed": err == nil, "consumed": len(b), "equal": eq, "again": IsVersionNegotiationPacket(b)})
		return
	}
	fr := vfFrameFor(kind, f)
	if fr == nil {
		return
	}
	b, err := fr.Append(nil, protocol.Version1)
	if err != nil {
		rec.Add(vtrace.Op{"ev": "Value", "what": what + " append: " + err.Error(), "predicted": 0, "actual": 0, "parsed": false, "consumed": 0, "equal": false, "again": false})
		return
	}
	pred := int(fr.Length(protocol.Version1))
	tail := []byte{0x01} // followed by a PING: the parser must stop at the frame's end
	if d, ok := fr.(*DatagramFrame); ok && !d.DataLenPresent {
		tail = nil // a DATAGRAM frame without length extends to the end of the packet
	}
	got, n, perr := vfParseOne(p, append(append([]byte(nil), b...), tail...), protocol.Encryption1RTT)
	eq := perr == nil && vfSameFrame(fr, got)
	again := false
	if perr == nil {
		b2, err2 := got.Append(nil, protocol.Version1)
		if err2 == nil {
			got2, n2, perr2 := vfParseOne(p, b2, protocol.Encryption1RTT)
			again = perr2 == nil && n2 == len(b2) && vfSameFrame(got, got2) && int(got.Length(protocol.Version1)) == len(b2)
		}
	}
	rec.Add(vtrace.Op{"ev": "Value", "what": what, "predicted": pred, "actual": len(b), "parsed": perr == nil, "consumed": n, "equal": eq, "again": again})
}

func vfRunVarints(c vtrace.Case, rec *vtrace.Rec) {
	one := func(v uint64, explen int) {
		b := quicvarint.Append(nil, v)
		got, n, err := quicvarint.Parse(append(b, 0xaa))
		vv := int(v)
		if explen > 0 {
			vv = 0
		}
		rec.Add(vtrace.Op{"ev": "Varint", "v": vv, "explen": explen, "len": quicvarint.Len(v), "applen": len(b), "back": err == nil && got == v, "consumed": n})
	}
	if c.Cfg.Has("lo") {
		for v := c.Cfg.Int("lo"); v <= c.Cfg.Int("hi"); v++ {
			one(uint64(v), 0)
		}
		return
	}
	for _, x := range []struct {
		v uint64
		l int
	}{{1<<30 - 1, 4}, {1 << 30, 8}, {1<<31 + 5, 8}, {1<<62 - 1, 8}, {1 << 40, 8}} {
		one(x.v, x.l)
	}
}

type vfGuard struct{ why string }

func (g *vfGuard) run(what string, f func()) {
	defer func() {
		if r := recover(); r != nil && g.why == "" {
			g.why = fmt.Sprintf("%s: panic: %v", what, r)
		}
	}()
	f()
}

// vfRunBatch feeds seeded byte strings to one parser
func vfRunBatch(c vtrace.Case, rec *vtrace.Rec) {
	rng := rand.New(rand.NewSource(int64(c.Cfg.Int("seed"))))
	parser := c.Cfg.Str("parser")
	g := &vfGuard{}
	fail := func(format string, a ...any) {
		if g.why == "" {
			g.why = fmt.Sprintf(format, a...)
		}
	}
	p := NewFrameParser(true, true, true)
	p.SetAckDelayExponent(protocol.AckDelayExponent)
	mk := func() []byte {
		n := rng.Intn(60)
		if rng.Intn(8) == 0 {
			n = rng.Intn(1400)
		}
		b := make([]byte, n)
		rng.Read(b)
		return b
	}
	for it := 0; it < c.Cfg.Int("n") && g.why == ""; it++ {
		b := mk()
		switch parser {
		case "frames":
			lvl := []protocol.EncryptionLevel{protocol.EncryptionInitial, protocol.EncryptionHandshake, protocol.Encryption0RTT, protocol.Encryption1RTT}[rng.Intn(4)]
			if len(b) > 0 && rng.Intn(2) == 0 {
				b[0] = []byte{0x02, 0x03, 0x04, 0x06, 0x07, 0x08, 0x0f, 0x10, 0x12, 0x18, 0x1c, 0x1d, 0x24, 0x30, 0x31, 0x19, 0x1a}[rng.Intn(17)]
			}
			g.run(fmt.Sprintf("frame % x", b), func() {
				f, n, err := vfParseOne(p, b, lvl)
				if n < 0 || n > len(b) {
					fail("frame % x: %d bytes consumed of %d", b, n, len(b))
				}
				if err != nil || f == nil {
					return
				}
				b2, err := f.Append(nil, protocol.Version1)
				if err != nil {
					return
				}
				if int(f.Length(protocol.Version1)) != len(b2) {
					fail("frame % x parsed to %#v: Length %d, Append %d bytes", b, f, f.Length(protocol.Version1), len(b2))
				}
				f2, n2, err := vfParseOne(p, b2, lvl)
				if err != nil || n2 != len(b2) || !vfSameFrame(f, f2) {
					fail("frame % x parsed to %#v; re-encoded % x parses to %#v (%v, %d bytes)", b, f, b2, f2, err, n2)
				}
			})
		case "connid":
			cl := rng.Intn(21) // the length of short-header connection IDs is local configuration (0..20), not wire input
			if len(b) > 0 {
				b[0] &= 0x7f // short header
			}
			g.run(fmt.Sprintf("ParseConnectionID % x / %d", b, cl), func() {
				id, err := ParseConnectionID(b, cl)
				if len(b) >= 1+cl && cl <= 20 && len(b) > 0 {
					if err != nil || !bytes.Equal(id.Bytes(), b[1:1+cl]) {
						fail("ParseConnectionID: %d bytes for a %d byte connection ID: %v %x", len(b), cl, err, id.Bytes())
					}
				} else if err == nil && len(b) < 1+cl {
					fail("ParseConnectionID: accepted %d bytes for a %d byte connection ID", len(b), cl)
				}
			})
		case "short":
			cl := rng.Intn(21)
			g.run("ParseShortHeader", func() {
				l, _, pl, _, err := ParseShortHeader(b, cl)
				if err == nil && (l != 1+cl+int(pl) || l > len(b)) {
					fail("ParseShortHeader % x / %d: reports %d bytes", b, cl, l)
				}
			})
		case "long":
			if len(b) > 5 {
				b[0] |= 0x80
				if rng.Intn(2) == 0 {
					copy(b[1:5], []byte{0, 0, 0, 1})
				}
			}
			g.run("ParsePacket", func() {
				h, data, rest, err := ParsePacket(b)
				if err == nil && (len(data)+len(rest) != len(b) || int(h.ParsedLen()) > len(data)) {
					fail("ParsePacket % x: data %d + rest %d bytes of %d", b, len(data), len(rest), len(b))
				}
				if err == nil && (h.Type == protocol.PacketTypeInitial || h.Type == protocol.PacketTypeHandshake || h.Type == protocol.PacketType0RTT) {
					h.ParseExtended(data)
				}
				ParseConnectionID(b, 8)
				Is0RTTPacket(b)
				ParseVersion(b)
			})
		case "vn":
			if len(b) > 5 {
				b[0] |= 0x80
				copy(b[1:5], []byte{0, 0, 0, 0})
			}
			g.run("ParseVersionNegotiationPacket", func() {
				d, s, vs, err := ParseVersionNegotiationPacket(b)
				if err == nil && 7+len(d)+len(s)+4*len(vs) != len(b) {
					fail("ParseVersionNegotiationPacket % x: %d + %d + %d versions", b, len(d), len(s), len(vs))
				}
			})
		case "tp":
			g.run("TransportParameters.Unmarshal", func() {
				pers := protocol.Perspective(1 + rng.Intn(2))
				tp := &TransportParameters{}
				if err := tp.Unmarshal(b, pers); err != nil {
					return
				}
				b2 := tp.Marshal(pers)
				tp2 := &TransportParameters{}
				if err := tp2.Unmarshal(b2, pers); err != nil {
					fail("transport parameters % x: re-encoded % x rejected: %v", b, b2, err)
				}
			})
		case "varint":
			g.run("quicvarint.Parse", func() {
				v, n, err := quicvarint.Parse(b)
				if err == nil && (n != 1<<(b[0]>>6) || n > len(b) || quicvarint.Len(v) > n) {
					fail("varint % x: value %d, %d bytes", b, v, n)
				}
			})
		}
	}
	rec.Add(vtrace.Op{"ev": "Batch", "parser": parser, "ok": g.why == "", "why": g.why})
}

func vfTP(id uint64, val []byte) []byte {
	b := quicvarint.Append(nil, id)
	b = quicvarint.Append(b, uint64(len(val)))
	return append(b, val...)
}

func vfRunRange(c vtrace.Case, rec *vtrace.Rec) {
	p := NewFrameParser(true, true, true)
	frame := func(what string, b []byte) {
		_, _, err := vfParseOne(p, b, protocol.Encryption1RTT)
		rec.Add(vtrace.Op{"ev": "Range", "what": what, "rejected": err != nil})
	}
	vi := func(vs ...uint64) []byte {
		var b []byte
		for _, v := range vs {
			b = quicvarint.Append(b, v)
		}
		return b
	}
	frame("MAX_STREAMS above 2^60", vi(0x12, 1<<60+1))
	frame("MAX_STREAMS (uni) above 2^60", vi(0x13, 1<<62-1))
	frame("STREAMS_BLOCKED above 2^60", vi(0x16, 1<<60+1))
	frame("NEW_CONNECTION_ID with a zero-length connection ID", append(append(vi(0x18, 5, 1), 0), make([]byte, 16)...))
	frame("NEW_CONNECTION_ID with a 21-byte connection ID", append(append(vi(0x18, 5, 1), 21), make([]byte, 21+16)...))
	frame("NEW_CONNECTION_ID with Retire Prior To above the sequence number", append(append(vi(0x18, 5, 6), 4), make([]byte, 4+16)...))
	frame("RESET_STREAM_AT with a reliable size above the final size", vi(0x24, 4, 0, 10, 11))
	frame("STREAM frame whose offset + length exceeds 2^62-1", append(vi(0x0e, 4, 1<<62-2, 5), 1, 2, 3, 4, 5))
	frame("ACK frame whose first range is larger than the largest acknowledged", vi(0x02, 5, 0, 0, 6))
	frame("ACK frame whose gap walks below zero", vi(0x02, 10, 0, 1, 2, 9, 1))
	tp := func(what string, b []byte, pers protocol.Perspective) {
		t := &TransportParameters{}
		rec.Add(vtrace.Op{"ev": "Range", "what": what, "rejected": t.Unmarshal(b, pers) != nil})
	}
	cl, sv := protocol.PerspectiveClient, protocol.PerspectiveServer
	iscid := vfTP(0x0f, []byte{1, 2, 3, 4})
	ok := func(extra ...[]byte) []byte { // a minimal acceptable client set plus extras
		b := append([]byte(nil), iscid...)
		for _, e := range extra {
			b = append(b, e...)
		}
		return b
	}
	tp("ack_delay_exponent 21", ok(vfTP(0x0a, vi(21))), cl)
	tp("max_ack_delay 2^14", ok(vfTP(0x0b, vi(1<<14))), cl)
	tp("active_connection_id_limit 1", ok(vfTP(0x0e, vi(1))), cl)
	tp("max_udp_payload_size 1199", ok(vfTP(0x03, vi(1199))), cl)
	tp("initial_max_streams_bidi above 2^60", ok(vfTP(0x08, vi(1<<60+1))), cl)
	tp("initial_max_streams_uni above 2^60", ok(vfTP(0x09, vi(1<<60+1))), cl)
	tp("duplicate initial_max_data", ok(vfTP(0x04, vi(5)), vfTP(0x04, vi(5))), cl)
	tp("duplicate unknown parameter 0x4242", ok(vfTP(0x4242, []byte{1}), vfTP(0x4242, []byte{1})), cl)
	tp("duplicate reserved (greased) parameter", ok(vfTP(27+31*3, nil), vfTP(27+31*3, []byte{9})), cl)
	tp("original_destination_connection_id sent by a client", ok(vfTP(0x00, []byte{1, 2, 3, 4})), cl)
	tp("stateless_reset_token sent by a client", ok(vfTP(0x02, make([]byte, 16))), cl)
	tp("retry_source_connection_id sent by a client", ok(vfTP(0x10, []byte{1, 2, 3, 4})), cl)
	tp("preferred_address sent by a client", ok(vfTP(0x0d, make([]byte, 4+2+16+2+1+4+16))), cl)
	tp("stateless_reset_token of 15 bytes", append(ok(vfTP(0x00, []byte{1, 2, 3, 4})), vfTP(0x02, make([]byte, 15))...), sv)
	tp("initial_source_connection_id of 21 bytes", vfTP(0x0f, make([]byte, 21)), cl)
	tp("a numeric parameter whose length disagrees with its varint", ok(vfTP(0x04, []byte{0x40, 0x05, 0x00})), cl)
	// headers
	long := func(what string, b []byte) {
		_, _, _, err := ParsePacket(b)
		rec.Add(vtrace.Op{"ev": "Range", "what": what, "rejected": err != nil})
	}
	long("v1 long header with a 21-byte destination connection ID", append(append([]byte{0xc0, 0, 0, 0, 1, 21}, make([]byte, 21)...), 0, 0, 0x40, 0x10, 0, 0, 0, 0))
	long("v1 long header with a 21-byte source connection ID", append(append([]byte{0xc0, 0, 0, 0, 1, 0, 21}, make([]byte, 21)...), 0, 0x40, 0x10, 0, 0, 0, 0))
	long("long header whose Length exceeds the datagram", []byte{0xc0, 0, 0, 0, 1, 0, 0, 0, 0x40, 0x50, 1, 2, 3, 4})
}

func TestVerifC08(t *testing.T) {
	cases := vtrace.LoadCases(t)
	vtrace.RunSharded(t, cases, func(t *testing.T, c vtrace.Case, rec *vtrace.Rec) {
		switch c.Cfg.Str("tier") {
		case "value":
			vfRunValue(c, rec)
		case "varint":
			vfRunVarints(c, rec)
		case "batch":
			vfRunBatch(c, rec)
		case "range":
			vfRunRange(c, rec)
		}
	})
}
