//go:build verif

package vtrace

// Simulated network with a TLC-enumerated fault schedule (for the whole-stack harnesses), and
// test certificates acceptable to browser ClientHello specs (ECDSA P-256).

import (
	"crypto/ecdsa"
	"crypto/elliptic"
	"crypto/rand"
	"crypto/x509"
	"crypto/x509/pkix"
	"math/big"
	"net"
	"sync"
	"time"

	"github.com/refraction-networking/uquic/testutils/simnet"
	tls "github.com/refraction-networking/utls"
)

var (
	ClientAddr = &net.UDPAddr{IP: net.ParseIP("1.0.0.1"), Port: 9001}
	ServerAddr = &net.UDPAddr{IP: net.ParseIP("1.0.0.2"), Port: 9002}
)

// Fault applies to the datagrams with ordinal From..To (1-based, per direction) or, for
// Kind "blackout", to every datagram sent in the time window [At, At+Dur) (ms since start).
type Fault struct {
	Dir  string // "c2s" | "s2c" | "both"
	From int
	To   int
	Kind string // "drop" | "dup" | "delay" | "flip" | "trunc" | "blackout" | "delayevery"
	Arg  int    // delay ms / bit index / truncated length / every k-th
	At   int
	Dur  int
}

func FaultsFromOps(ops []Op) []Fault {
	var fs []Fault
	for _, o := range ops {
		if o.Str("kind") == "" {
			continue // not a fault (e.g. an injection)
		}
		f := Fault{Dir: o.Str("dir"), From: o.Int("from"), To: o.Int("to"), Kind: o.Str("kind"), Arg: o.Int("arg"), At: o.Int("at"), Dur: o.Int("dur")}
		if f.To == 0 {
			f.To = f.From
		}
		fs = append(fs, f)
	}
	return fs
}

type NetEvent struct {
	Dir   string
	Ord   int
	Len   int
	Fault string
	Data  []byte
	T     time.Duration
}

// Net is a simnet router applying a fault schedule and recording every datagram.
type Net struct {
	inner  simnet.PerfectRouter
	sim    *simnet.Simnet
	mu     sync.Mutex
	faults []Fault
	ord    map[string]int
	start  time.Time
	Bytes  map[string]int // bytes offered per direction
	// Tap, if set, sees every datagram offered to the network (before faults), under the lock.
	Tap func(ev NetEvent)
	// TapDeliver sees every datagram at the moment it is handed to the receiving socket (after faults).
	TapDeliver func(ev NetEvent)
	latency    time.Duration
	closed     bool
}

func NewNet(latency time.Duration, faults []Fault) (n *Net, client, server *simnet.SimConn) {
	n = &Net{faults: faults, ord: map[string]int{}, Bytes: map[string]int{}, start: time.Now(), latency: latency}
	n.sim = &simnet.Simnet{Router: n}
	settings := simnet.NodeBiDiLinkSettings{} // latency is applied by this router so that deliveries can be observed
	client = n.sim.NewEndpoint(ClientAddr, settings)
	server = n.sim.NewEndpoint(ServerAddr, settings)
	if err := n.sim.Start(); err != nil {
		panic(err)
	}
	return n, client, server
}

func (n *Net) Close() {
	n.mu.Lock()
	n.closed = true
	n.mu.Unlock()
	n.sim.Close()
}

func (n *Net) AddNode(addr net.Addr, r simnet.PacketReceiver) { n.inner.AddNode(addr, r) }

func dirOf(p simnet.Packet) string {
	if ua, ok := p.From.(*net.UDPAddr); ok && ua.IP.Equal(ClientAddr.IP) {
		return "c2s"
	}
	return "s2c"
}

func (n *Net) SendPacket(p simnet.Packet) error {
	dir := dirOf(p)
	n.mu.Lock()
	n.ord[dir]++
	ord := n.ord[dir]
	n.Bytes[dir] += len(p.Data)
	now := time.Since(n.start)
	kind, arg := "none", 0
	for _, f := range n.faults {
		if f.Dir != dir && f.Dir != "both" {
			continue
		}
		switch f.Kind {
		case "blackout":
			if now >= time.Duration(f.At)*time.Millisecond && now < time.Duration(f.At+f.Dur)*time.Millisecond {
				kind = "drop"
			}
		case "rand": // Arg per mille of the datagrams with ordinal >= From are dropped (seed At)
			if ord >= f.From {
				x := uint64(f.At)*0x9E3779B97F4A7C15 + uint64(ord)*0xBF58476D1CE4E5B9
				if dir == "s2c" {
					x ^= 0x94D049BB133111EB
				}
				x ^= x >> 31
				x *= 0xD6E8FEB86659FD93
				x ^= x >> 32
				if int(x%1000) < f.Arg {
					kind = "drop"
				}
			}
		case "delayevery":
			if f.Arg > 0 && ord%f.Arg == 0 && ord >= f.From {
				kind, arg = "delay", f.Dur
			}
		default:
			if ord >= f.From && ord <= f.To {
				kind, arg = f.Kind, f.Arg
			}
		}
	}
	if n.Tap != nil {
		n.Tap(NetEvent{Dir: dir, Ord: ord, Len: len(p.Data), Fault: kind, Data: p.Data, T: now})
	}
	n.mu.Unlock()
	q := p
	q.Data = append([]byte(nil), p.Data...)
	delay := n.latency
	copies := 1
	switch kind {
	case "drop":
		return nil
	case "dup":
		copies = 2
	case "delay":
		delay += time.Duration(arg) * time.Millisecond
	case "flip":
		bit := arg % (8 * len(q.Data))
		q.Data[bit/8] ^= 1 << (bit % 8)
	case "trunc":
		l := arg
		if l >= len(q.Data) {
			l = len(q.Data) - 1
		}
		if l < 1 {
			l = 1
		}
		q.Data = q.Data[:l]
	}
	for i := 0; i < copies; i++ {
		n.deliverAfter(delay, dir, ord, kind, q)
	}
	return nil
}

func (n *Net) deliverAfter(d time.Duration, dir string, ord int, fault string, q simnet.Packet) {
	time.AfterFunc(d, func() {
		n.mu.Lock()
		if n.closed {
			n.mu.Unlock()
			return
		}
		if n.TapDeliver != nil {
			n.TapDeliver(NetEvent{Dir: dir, Ord: ord, Len: len(q.Data), Fault: fault, Data: q.Data, T: time.Since(n.start)})
		}
		n.mu.Unlock()
		n.inner.SendPacket(q)
	})
}

// SetFaults replaces the fault schedule.
func (n *Net) SetFaults(f []Fault) {
	n.mu.Lock()
	n.faults = f
	n.mu.Unlock()
}

// ResetOrdinals restarts the per-direction datagram counters (a new dial on the same network).
func (n *Net) ResetOrdinals() {
	n.mu.Lock()
	n.ord = map[string]int{}
	n.start = time.Now()
	n.mu.Unlock()
}

// InjectTo delivers a forged datagram to the client ("s2c") or the server ("c2s") after the link latency, bypassing faults.
func (n *Net) InjectTo(dir string, data []byte) {
	p := simnet.Packet{Data: append([]byte(nil), data...)}
	if dir == "s2c" {
		p.From, p.To = ServerAddr, ClientAddr
	} else {
		p.From, p.To = ClientAddr, ServerAddr
	}
	n.deliverAfter(n.latency, dir, 0, "injected", p)
}

var (
	certOnce   sync.Once
	serverCert tls.Certificate
	certPool   *x509.CertPool
)

func genCert() {
	key, err := ecdsa.GenerateKey(elliptic.P256(), rand.Reader)
	if err != nil {
		panic(err)
	}
	tmpl := &x509.Certificate{
		SerialNumber: big.NewInt(1), Subject: pkix.Name{CommonName: "verif.test"},
		NotBefore: time.Unix(0, 0), NotAfter: time.Now().Add(100 * 365 * 24 * time.Hour),
		KeyUsage: x509.KeyUsageDigitalSignature | x509.KeyUsageCertSign, ExtKeyUsage: []x509.ExtKeyUsage{x509.ExtKeyUsageServerAuth},
		BasicConstraintsValid: true, IsCA: true, DNSNames: []string{"verif.test", "localhost"},
	}
	der, err := x509.CreateCertificate(rand.Reader, tmpl, tmpl, &key.PublicKey, key)
	if err != nil {
		panic(err)
	}
	leaf, _ := x509.ParseCertificate(der)
	serverCert = tls.Certificate{Certificate: [][]byte{der}, PrivateKey: key, Leaf: leaf}
	certPool = x509.NewCertPool()
	certPool.AddCert(leaf)
}

var (
	bigMu    sync.Mutex
	bigCerts = map[int]tls.Certificate{}
	bigPools = map[int]*x509.CertPool{}
)

// BigCertTLS returns server / client configs around a certificate carrying kb kilobytes of padding in a
// non-critical extension (a "long certificate chain": the server's first flight outgrows 3x the ClientHello).
// Generate outside any bubble.
func BigCertTLS(kb int) (server, client *tls.Config) {
	bigMu.Lock()
	defer bigMu.Unlock()
	if _, ok := bigCerts[kb]; !ok {
		key, err := ecdsa.GenerateKey(elliptic.P256(), rand.Reader)
		if err != nil {
			panic(err)
		}
		pad := make([]byte, kb*1024)
		rand.Read(pad) // incompressible
		tmpl := &x509.Certificate{
			SerialNumber: big.NewInt(int64(100 + kb)), Subject: pkix.Name{CommonName: "verif.test"},
			NotBefore: time.Unix(0, 0), NotAfter: time.Now().Add(100 * 365 * 24 * time.Hour),
			KeyUsage: x509.KeyUsageDigitalSignature | x509.KeyUsageCertSign, ExtKeyUsage: []x509.ExtKeyUsage{x509.ExtKeyUsageServerAuth},
			BasicConstraintsValid: true, IsCA: true, DNSNames: []string{"verif.test", "localhost"},
			ExtraExtensions: []pkix.Extension{{Id: []int{1, 3, 6, 1, 4, 1, 55555, 1}, Value: pad}},
		}
		der, err := x509.CreateCertificate(rand.Reader, tmpl, tmpl, &key.PublicKey, key)
		if err != nil {
			panic(err)
		}
		leaf, _ := x509.ParseCertificate(der)
		bigCerts[kb] = tls.Certificate{Certificate: [][]byte{der}, PrivateKey: key, Leaf: leaf}
		pool := x509.NewCertPool()
		pool.AddCert(leaf)
		bigPools[kb] = pool
	}
	server = &tls.Config{Certificates: []tls.Certificate{bigCerts[kb]}, NextProtos: []string{"h3", "verif"}, MinVersion: tls.VersionTLS13}
	client = &tls.Config{RootCAs: bigPools[kb], ServerName: "verif.test", NextProtos: []string{"h3"}, MinVersion: tls.VersionTLS13}
	return
}

// ServerTLS / ClientTLS: fresh configs sharing one ECDSA P-256 certificate (generated once, outside any bubble).
func ServerTLS(alpn ...string) *tls.Config {
	certOnce.Do(genCert)
	if len(alpn) == 0 {
		alpn = []string{"h3", "verif"} // browser specs offer h3
	}
	return &tls.Config{Certificates: []tls.Certificate{serverCert}, NextProtos: alpn, MinVersion: tls.VersionTLS13}
}

func RootCAs() *x509.CertPool {
	certOnce.Do(genCert)
	return certPool
}

func ClientTLS(alpn ...string) *tls.Config {
	certOnce.Do(genCert)
	if len(alpn) == 0 {
		alpn = []string{"h3"}
	}
	return &tls.Config{RootCAs: certPool, ServerName: "verif.test", NextProtos: alpn, MinVersion: tls.VersionTLS13}
}
