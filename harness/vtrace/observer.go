//go:build verif

package vtrace

// Independent wire observer (shares no code with internal/handshake or internal/wire):
// long-header field reader, Initial key derivation for QUIC v1 / v2 (RFC 9001 5.2, RFC 9369 3.3.1),
// header-protection removal, AES-128-GCM opening, frame reader for Initial packets, CRYPTO
// reassembly, ClientHello extension walker and transport-parameter reader.

import (
	"crypto/aes"
	"crypto/cipher"
	"crypto/hmac"
	"crypto/sha256"
	"encoding/binary"
	"errors"
	"fmt"
	"sort"
)

const (
	ObsV1 = 0x00000001
	ObsV2 = 0x6b3343cf
)

type LongHdr struct {
	Kind     string // "initial" | "0rtt" | "handshake" | "retry" | "vn" | "short" | "garbage"
	Version  uint32
	DCID     []byte
	SCID     []byte
	Token    []byte
	Versions []uint32 // VN
	PNOffset int      // offset of the (protected) packet number within the packet
	Len      int      // total length of this packet within the datagram (long header with Length)
	First    byte
}

func rdVarint(b []byte) (uint64, int, error) {
	if len(b) == 0 {
		return 0, 0, errors.New("short")
	}
	l := 1 << (b[0] >> 6)
	if len(b) < l {
		return 0, 0, errors.New("short")
	}
	v := uint64(b[0] & 0x3f)
	for i := 1; i < l; i++ {
		v = v<<8 | uint64(b[i])
	}
	return v, l, nil
}

// ParseHdr reads the unprotected header fields of the first packet in b.
func ParseHdr(b []byte) LongHdr {
	h := LongHdr{}
	if len(b) == 0 {
		h.Kind = "garbage"
		return h
	}
	h.First = b[0]
	if b[0]&0x80 == 0 {
		h.Kind = "short"
		h.Len = len(b)
		return h
	}
	if len(b) < 7 {
		h.Kind = "garbage"
		return h
	}
	h.Version = binary.BigEndian.Uint32(b[1:5])
	p := 5
	dl := int(b[p])
	p++
	if len(b) < p+dl+1 {
		h.Kind = "garbage"
		return h
	}
	h.DCID = b[p : p+dl]
	p += dl
	sl := int(b[p])
	p++
	if len(b) < p+sl {
		h.Kind = "garbage"
		return h
	}
	h.SCID = b[p : p+sl]
	p += sl
	if h.Version == 0 {
		h.Kind = "vn"
		for ; p+4 <= len(b); p += 4 {
			h.Versions = append(h.Versions, binary.BigEndian.Uint32(b[p:p+4]))
		}
		h.Len = len(b)
		return h
	}
	t := (b[0] >> 4) & 3
	if h.Version == ObsV2 { // RFC 9369: Initial 0b01, 0-RTT 0b10, Handshake 0b11, Retry 0b00
		t = (t + 3) & 3
	}
	switch t {
	case 0:
		h.Kind = "initial"
		tl, n, err := rdVarint(b[p:])
		if err != nil || len(b) < p+n+int(tl) {
			h.Kind = "garbage"
			return h
		}
		p += n
		h.Token = b[p : p+int(tl)]
		p += int(tl)
	case 1:
		h.Kind = "0rtt"
	case 2:
		h.Kind = "handshake"
	case 3:
		h.Kind = "retry"
		h.Token = b[p:]
		h.Len = len(b)
		return h
	}
	l, n, err := rdVarint(b[p:])
	if err != nil {
		h.Kind = "garbage"
		return h
	}
	p += n
	h.PNOffset = p
	h.Len = p + int(l)
	if h.Len > len(b) {
		h.Kind = "garbage"
	}
	return h
}

func hkdfExtract(salt, ikm []byte) []byte {
	m := hmac.New(sha256.New, salt)
	m.Write(ikm)
	return m.Sum(nil)
}

func hkdfExpandLabel(secret []byte, label string, n int) []byte {
	full := "tls13 " + label
	info := []byte{byte(n >> 8), byte(n), byte(len(full))}
	info = append(info, full...)
	info = append(info, 0)
	var out, prev []byte
	for i := byte(1); len(out) < n; i++ {
		m := hmac.New(sha256.New, secret)
		m.Write(prev)
		m.Write(info)
		m.Write([]byte{i})
		prev = m.Sum(nil)
		out = append(out, prev...)
	}
	return out[:n]
}

var (
	saltV1 = []byte{0x38, 0x76, 0x2c, 0xf7, 0xf5, 0x59, 0x34, 0xb3, 0x4d, 0x17, 0x9a, 0xe6, 0xa4, 0xc8, 0x0c, 0xad, 0xcc, 0xbb, 0x7f, 0x0a}
	saltV2 = []byte{0x0d, 0xed, 0xe3, 0xde, 0xf7, 0x00, 0xa6, 0xdb, 0x81, 0x93, 0x81, 0xbe, 0x6e, 0x26, 0x9d, 0xcb, 0xf9, 0xbd, 0x2e, 0xd9}
)

type initialKeys struct{ key, iv, hp []byte }

func deriveInitial(version uint32, dcid []byte, client bool) initialKeys {
	salt, kl, il, hl := saltV1, "quic key", "quic iv", "quic hp"
	if version == ObsV2 {
		salt, kl, il, hl = saltV2, "quicv2 key", "quicv2 iv", "quicv2 hp"
	}
	init := hkdfExtract(salt, dcid)
	lab := "server in"
	if client {
		lab = "client in"
	}
	sec := hkdfExpandLabel(init, lab, 32)
	return initialKeys{hkdfExpandLabel(sec, kl, 16), hkdfExpandLabel(sec, il, 12), hkdfExpandLabel(sec, hl, 16)}
}

type Frame struct {
	Type   string // "padding" | "ping" | "ack" | "crypto" | "close" | "other"
	Off    int    // crypto offset
	Len    int    // crypto length / padding run length
	Data   []byte
	Code   uint64
	Reason string
}

type InitialPkt struct {
	Hdr     LongHdr
	PN      uint64 // truncated packet number as on the wire
	PNLen   int
	Frames  []Frame
	Payload int // plaintext payload length
	Opened  bool
	Err     string
}

// OpenInitial removes protection from an Initial packet (the first packet of b) with the keys derived from
// odcid (the client's first destination connection ID) for the given sender.
func OpenInitial(b []byte, odcid []byte, fromClient bool) InitialPkt {
	h := ParseHdr(b)
	r := InitialPkt{Hdr: h}
	if h.Kind != "initial" {
		r.Err = "not an initial packet: " + h.Kind
		return r
	}
	pkt := append([]byte(nil), b[:h.Len]...)
	k := deriveInitial(h.Version, odcid, fromClient)
	if h.PNOffset+4+16 > len(pkt) {
		r.Err = "too short for a header-protection sample"
		return r
	}
	blk, _ := aes.NewCipher(k.hp)
	mask := make([]byte, 16)
	blk.Encrypt(mask, pkt[h.PNOffset+4:h.PNOffset+20])
	pkt[0] ^= mask[0] & 0x0f
	pnl := int(pkt[0]&3) + 1
	for i := 0; i < pnl; i++ {
		pkt[h.PNOffset+i] ^= mask[1+i]
		r.PN = r.PN<<8 | uint64(pkt[h.PNOffset+i])
	}
	r.PNLen = pnl
	nonce := append([]byte(nil), k.iv...)
	// the full packet number of first-flight packets equals the truncated one for the ranges used here,
	// callers that need large numbers pass them through OpenInitialPN
	for i := 0; i < 8; i++ {
		nonce[11-i] ^= byte(r.PN >> (8 * i))
	}
	ab, _ := aes.NewCipher(k.key)
	gcm, _ := cipher.NewGCM(ab)
	pt, err := gcm.Open(nil, nonce, pkt[h.PNOffset+pnl:], pkt[:h.PNOffset+pnl])
	if err != nil {
		r.Err = "AEAD open failed"
		return r
	}
	r.Opened = true
	r.Payload = len(pt)
	r.Frames, err = parseInitialFrames(pt)
	if err != nil {
		r.Err = err.Error()
	}
	return r
}

// OpenInitialWithPN is OpenInitial for packets whose full packet number is not the truncated one
// (expected = the number the observer expects next).
func OpenInitialWithPN(b []byte, odcid []byte, fromClient bool, expected uint64) InitialPkt {
	h := ParseHdr(b)
	r := InitialPkt{Hdr: h}
	if h.Kind != "initial" {
		r.Err = "not an initial packet: " + h.Kind
		return r
	}
	pkt := append([]byte(nil), b[:h.Len]...)
	k := deriveInitial(h.Version, odcid, fromClient)
	if h.PNOffset+4+16 > len(pkt) {
		r.Err = "too short for a header-protection sample"
		return r
	}
	blk, _ := aes.NewCipher(k.hp)
	mask := make([]byte, 16)
	blk.Encrypt(mask, pkt[h.PNOffset+4:h.PNOffset+20])
	pkt[0] ^= mask[0] & 0x0f
	pnl := int(pkt[0]&3) + 1
	var trunc uint64
	for i := 0; i < pnl; i++ {
		pkt[h.PNOffset+i] ^= mask[1+i]
		trunc = trunc<<8 | uint64(pkt[h.PNOffset+i])
	}
	r.PNLen = pnl
	// RFC 9000 A.3
	win := uint64(1) << (8 * pnl)
	hwin := win / 2
	cand := (expected &^ (win - 1)) | trunc
	if cand+hwin <= expected && cand < (1<<62)-win {
		cand += win
	} else if cand > expected+hwin && cand >= win {
		cand -= win
	}
	r.PN = cand
	nonce := append([]byte(nil), k.iv...)
	for i := 0; i < 8; i++ {
		nonce[11-i] ^= byte(cand >> (8 * i))
	}
	ab, _ := aes.NewCipher(k.key)
	gcm, _ := cipher.NewGCM(ab)
	pt, err := gcm.Open(nil, nonce, pkt[h.PNOffset+pnl:], pkt[:h.PNOffset+pnl])
	if err != nil {
		r.Err = "AEAD open failed"
		return r
	}
	r.Opened = true
	r.Payload = len(pt)
	r.Frames, err = parseInitialFrames(pt)
	if err != nil {
		r.Err = err.Error()
	}
	return r
}

// ParseFrames reads a sequence of Initial-level frames (independent of the code under test).
func ParseFrames(pt []byte) ([]Frame, error) { return parseInitialFrames(pt) }

func parseInitialFrames(pt []byte) ([]Frame, error) {
	var fs []Frame
	p := 0
	for p < len(pt) {
		t := pt[p]
		switch {
		case t == 0x00:
			n := 0
			for p < len(pt) && pt[p] == 0 {
				p++
				n++
			}
			fs = append(fs, Frame{Type: "padding", Len: n})
		case t == 0x01:
			p++
			fs = append(fs, Frame{Type: "ping"})
		case t == 0x02 || t == 0x03:
			p++
			var vals [4]uint64
			for i := 0; i < 4; i++ {
				v, n, err := rdVarint(pt[p:])
				if err != nil {
					return fs, errors.New("truncated ACK")
				}
				vals[i] = v
				p += n
			}
			for i := uint64(0); i < vals[2]*2; i++ {
				_, n, err := rdVarint(pt[p:])
				if err != nil {
					return fs, errors.New("truncated ACK ranges")
				}
				p += n
			}
			if t == 0x03 {
				for i := 0; i < 3; i++ {
					_, n, err := rdVarint(pt[p:])
					if err != nil {
						return fs, errors.New("truncated ACK ECN")
					}
					p += n
				}
			}
			fs = append(fs, Frame{Type: "ack", Off: int(vals[0])})
		case t == 0x06:
			p++
			off, n, err := rdVarint(pt[p:])
			if err != nil {
				return fs, errors.New("truncated CRYPTO")
			}
			p += n
			l, n, err := rdVarint(pt[p:])
			if err != nil || p+n+int(l) > len(pt) {
				return fs, errors.New("truncated CRYPTO")
			}
			p += n
			fs = append(fs, Frame{Type: "crypto", Off: int(off), Len: int(l), Data: pt[p : p+int(l)]})
			p += int(l)
		case t == 0x1c || t == 0x1d:
			p++
			code, n, err := rdVarint(pt[p:])
			if err != nil {
				return fs, errors.New("truncated CLOSE")
			}
			p += n
			if t == 0x1c {
				_, n, err = rdVarint(pt[p:])
				if err != nil {
					return fs, errors.New("truncated CLOSE")
				}
				p += n
			}
			l, n, err := rdVarint(pt[p:])
			if err != nil || p+n+int(l) > len(pt) {
				return fs, errors.New("truncated CLOSE")
			}
			p += n
			fs = append(fs, Frame{Type: "close", Code: code, Reason: string(pt[p : p+int(l)])})
			p += int(l)
		default:
			fs = append(fs, Frame{Type: fmt.Sprintf("other:0x%02x", t)})
			return fs, fmt.Errorf("frame type 0x%02x is not allowed in Initial packets", t)
		}
	}
	return fs, nil
}

// Reassemble returns the bytes covered contiguously from offset 0 by the CRYPTO frames, and the
// total set of covered ranges (sorted, merged).
func Reassemble(frames []Frame) (data []byte, ranges [][2]int, conflict bool) {
	buf := map[int]byte{}
	maxEnd := 0
	for _, f := range frames {
		if f.Type != "crypto" {
			continue
		}
		for i, c := range f.Data {
			if old, ok := buf[f.Off+i]; ok && old != c {
				conflict = true
			}
			buf[f.Off+i] = c
		}
		if f.Off+f.Len > maxEnd {
			maxEnd = f.Off + f.Len
		}
	}
	offs := make([]int, 0, len(buf))
	for o := range buf {
		offs = append(offs, o)
	}
	sort.Ints(offs)
	for _, o := range offs {
		if n := len(ranges); n > 0 && ranges[n-1][1] == o {
			ranges[n-1][1] = o + 1
		} else {
			ranges = append(ranges, [2]int{o, o + 1})
		}
	}
	for i := 0; ; i++ {
		c, ok := buf[i]
		if !ok {
			break
		}
		data = append(data, c)
	}
	return data, ranges, conflict
}

type TP struct {
	ID  uint64
	Val []byte
}

type ClientHelloView struct {
	Complete     bool
	Len          int
	CipherSuites []uint16
	ExtIDs       []uint16
	Exts         map[uint16][]byte
	ALPN         []string
	SNI          string
	TPs          []TP
	TPErr        string
}

// ParseClientHello walks a (possibly incomplete) handshake message.
func ParseClientHello(b []byte) ClientHelloView {
	v := ClientHelloView{Exts: map[uint16][]byte{}}
	if len(b) < 4 || b[0] != 1 {
		return v
	}
	l := int(b[1])<<16 | int(b[2])<<8 | int(b[3])
	v.Len = 4 + l
	if len(b) < v.Len {
		return v
	}
	v.Complete = true
	p := 4 + 2 + 32
	if p >= v.Len {
		return v
	}
	sl := int(b[p])
	p += 1 + sl
	if p+2 > v.Len {
		return v
	}
	cl := int(b[p])<<8 | int(b[p+1])
	p += 2
	for i := 0; i+1 < cl && p+i+1 < v.Len; i += 2 {
		v.CipherSuites = append(v.CipherSuites, uint16(b[p+i])<<8|uint16(b[p+i+1]))
	}
	p += cl
	if p >= v.Len {
		return v
	}
	p += 1 + int(b[p])
	if p+2 > v.Len {
		return v
	}
	el := int(b[p])<<8 | int(b[p+1])
	p += 2
	end := min(p+el, v.Len)
	for p+4 <= end {
		id := uint16(b[p])<<8 | uint16(b[p+1])
		n := int(b[p+2])<<8 | int(b[p+3])
		p += 4
		if p+n > end {
			break
		}
		v.ExtIDs = append(v.ExtIDs, id)
		v.Exts[id] = b[p : p+n]
		switch id {
		case 0: // server_name
			if n >= 5 {
				nl := int(b[p+3])<<8 | int(b[p+4])
				if 5+nl <= n {
					v.SNI = string(b[p+5 : p+5+nl])
				}
			}
		case 16: // ALPN
			q := p + 2
			for q < p+n {
				al := int(b[q])
				if q+1+al > p+n {
					break
				}
				v.ALPN = append(v.ALPN, string(b[q+1:q+1+al]))
				q += 1 + al
			}
		case 0x39: // quic_transport_parameters
			q := p
			for q < p+n {
				tid, k, err := rdVarint(b[q : p+n])
				if err != nil {
					v.TPErr = "truncated id"
					break
				}
				q += k
				tl, k, err := rdVarint(b[q : p+n])
				if err != nil || q+k+int(tl) > p+n {
					v.TPErr = "truncated value"
					break
				}
				q += k
				v.TPs = append(v.TPs, TP{ID: tid, Val: b[q : q+int(tl)]})
				q += int(tl)
			}
		}
		p += n
	}
	return v
}

func (v ClientHelloView) TP(id uint64) ([]byte, bool) {
	for _, t := range v.TPs {
		if t.ID == id {
			return t.Val, true
		}
	}
	return nil, false
}

func (v ClientHelloView) TPVarint(id uint64) (uint64, bool) {
	b, ok := v.TP(id)
	if !ok {
		return 0, false
	}
	x, _, err := rdVarint(b)
	if err != nil {
		return 0, false
	}
	return x, true
}

// RetryTagOK verifies the Retry integrity tag (RFC 9001 5.8, RFC 9369 3.3.3) independently.
func RetryTagOK(pkt []byte, odcid []byte) bool {
	h := ParseHdr(pkt)
	if h.Kind != "retry" || len(pkt) < 16 {
		return false
	}
	key := []byte{0xbe, 0x0c, 0x69, 0x0b, 0x9f, 0x66, 0x57, 0x5a, 0x1d, 0x76, 0x6b, 0x54, 0xe3, 0x68, 0xc8, 0x4e}
	nonce := []byte{0x46, 0x15, 0x99, 0xd3, 0x5d, 0x63, 0x2b, 0xf2, 0x23, 0x98, 0x25, 0xbb}
	if h.Version == ObsV2 {
		key = []byte{0x8f, 0xb4, 0xb0, 0x1b, 0x56, 0xac, 0x48, 0xe2, 0x60, 0xfb, 0xcb, 0xce, 0xad, 0x7c, 0xcc, 0x92}
		nonce = []byte{0xd8, 0x69, 0x69, 0xbc, 0x2d, 0x7c, 0x6d, 0x99, 0x90, 0xef, 0xb0, 0x4a}
	}
	pseudo := append([]byte{byte(len(odcid))}, odcid...)
	pseudo = append(pseudo, pkt[:len(pkt)-16]...)
	blk, _ := aes.NewCipher(key)
	gcm, _ := cipher.NewGCM(blk)
	tag := gcm.Seal(nil, nonce, nil, pseudo)
	return hmac.Equal(tag, pkt[len(pkt)-16:])
}

func putVarint(b []byte, v uint64) []byte {
	switch {
	case v < 64:
		return append(b, byte(v))
	case v < 16384:
		return append(b, byte(v>>8)|0x40, byte(v))
	case v < 1<<30:
		return append(b, byte(v>>24)|0x80, byte(v>>16), byte(v>>8), byte(v))
	}
	return append(b, byte(v>>56)|0xc0, byte(v>>48), byte(v>>40), byte(v>>32), byte(v>>24), byte(v>>16), byte(v>>8), byte(v))
}

// SealInitial builds a protected Initial packet (attacker's tool: Initial keys are public).
// fromClient selects the key direction; payload is padded to at least minPayload bytes.
func SealInitial(version uint32, odcid, dcid, scid, token []byte, pn uint32, payload []byte, fromClient bool, minPayload int) []byte {
	for len(payload) < minPayload {
		payload = append(payload, 0)
	}
	first := byte(0xc0 | 0x03) // long header, fixed bit, type Initial (v1), 4-byte packet number
	if version == ObsV2 {
		first = 0xc0 | 0x10 | 0x03
	}
	hdr := []byte{first, byte(version >> 24), byte(version >> 16), byte(version >> 8), byte(version), byte(len(dcid))}
	hdr = append(hdr, dcid...)
	hdr = append(hdr, byte(len(scid)))
	hdr = append(hdr, scid...)
	hdr = putVarint(hdr, uint64(len(token)))
	hdr = append(hdr, token...)
	hdr = putVarint(hdr, uint64(4+len(payload)+16))
	pnOff := len(hdr)
	hdr = append(hdr, byte(pn>>24), byte(pn>>16), byte(pn>>8), byte(pn))
	k := deriveInitial(version, odcid, fromClient)
	nonce := append([]byte(nil), k.iv...)
	for i := 0; i < 4; i++ {
		nonce[11-i] ^= byte(pn >> (8 * i))
	}
	ab, _ := aes.NewCipher(k.key)
	gcm, _ := cipher.NewGCM(ab)
	pkt := gcm.Seal(append([]byte(nil), hdr...), nonce, payload, hdr)
	blk, _ := aes.NewCipher(k.hp)
	mask := make([]byte, 16)
	blk.Encrypt(mask, pkt[pnOff+4:pnOff+20])
	pkt[0] ^= mask[0] & 0x0f
	for i := 0; i < 4; i++ {
		pkt[pnOff+i] ^= mask[1+i]
	}
	return pkt
}

// VNPacket builds a Version Negotiation packet.
func VNPacket(dcid, scid []byte, versions []uint32) []byte {
	b := []byte{0x80 | 0x2a, 0, 0, 0, 0, byte(len(dcid))}
	b = append(b, dcid...)
	b = append(b, byte(len(scid)))
	b = append(b, scid...)
	for _, v := range versions {
		b = append(b, byte(v>>24), byte(v>>16), byte(v>>8), byte(v))
	}
	return b
}

// RetryPacket builds a Retry packet; validTag selects a correct or a corrupted integrity tag.
func RetryPacket(version uint32, odcid, dcid, scid, token []byte, validTag bool) []byte {
	first := byte(0xc0 | 0x30)
	if version == ObsV2 {
		first = 0xc0
	}
	b := []byte{first, byte(version >> 24), byte(version >> 16), byte(version >> 8), byte(version), byte(len(dcid))}
	b = append(b, dcid...)
	b = append(b, byte(len(scid)))
	b = append(b, scid...)
	b = append(b, token...)
	key := []byte{0xbe, 0x0c, 0x69, 0x0b, 0x9f, 0x66, 0x57, 0x5a, 0x1d, 0x76, 0x6b, 0x54, 0xe3, 0x68, 0xc8, 0x4e}
	nonce := []byte{0x46, 0x15, 0x99, 0xd3, 0x5d, 0x63, 0x2b, 0xf2, 0x23, 0x98, 0x25, 0xbb}
	if version == ObsV2 {
		key = []byte{0x8f, 0xb4, 0xb0, 0x1b, 0x56, 0xac, 0x48, 0xe2, 0x60, 0xfb, 0xcb, 0xce, 0xad, 0x7c, 0xcc, 0x92}
		nonce = []byte{0xd8, 0x69, 0x69, 0xbc, 0x2d, 0x7c, 0x6d, 0x99, 0x90, 0xef, 0xb0, 0x4a}
	}
	pseudo := append([]byte{byte(len(odcid))}, odcid...)
	pseudo = append(pseudo, b...)
	blk, _ := aes.NewCipher(key)
	gcm, _ := cipher.NewGCM(blk)
	tag := gcm.Seal(nil, nonce, nil, pseudo)
	if !validTag {
		tag[3] ^= 0x55
	}
	return append(b, tag...)
}
