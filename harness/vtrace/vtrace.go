//go:build verif

// Package vtrace is the shared plumbing of the /verif conformance harnesses: it reads
// stimulus files produced by TLC, shards them over workers, and writes NDJSON traces that
// the *_Trace.tla specifications validate. It is injected into the build with -overlay
// and is never part of the repository.
package vtrace

import (
	"bufio"
	"bytes"
	"encoding/json"
	"fmt"
	"os"
	"path/filepath"
	"runtime"
	"strconv"
	"sync"
	"testing"
	"time"
)

// Op is one stimulus (or one trace line): a JSON object.
type Op map[string]any

func (o Op) Str(k string) string {
	s, _ := o[k].(string)
	return s
}

func (o Op) Int(k string) int {
	switch v := o[k].(type) {
	case float64:
		return int(v)
	case int:
		return v
	case json.Number:
		n, _ := v.Int64()
		return int(n)
	}
	return 0
}

func (o Op) Bool(k string) bool {
	b, _ := o[k].(bool)
	return b
}

func (o Op) Has(k string) bool { _, ok := o[k]; return ok }

func (o Op) Ints(k string) []int {
	a, _ := o[k].([]any)
	r := make([]int, 0, len(a))
	for _, x := range a {
		switch v := x.(type) {
		case float64:
			r = append(r, int(v))
		case int:
			r = append(r, v)
		}
	}
	return r
}

func (o Op) Obj(k string) Op {
	m, _ := o[k].(map[string]any)
	return Op(m)
}

func (o Op) Ops(k string) []Op {
	a, _ := o[k].([]any)
	r := make([]Op, 0, len(a))
	for _, x := range a {
		if m, ok := x.(map[string]any); ok {
			r = append(r, Op(m))
		}
	}
	return r
}

// Case is one execution to perform: a configuration and a stimulus sequence.
type Case struct {
	Group string `json:"group"` // traces of one group share the TLC constants
	Cfg   Op     `json:"cfg"`
	Ops   []Op   `json:"ops"`
}

func Env(k, def string) string {
	if v := os.Getenv(k); v != "" {
		return v
	}
	return def
}

func EnvInt(k string, def int) int {
	if v := os.Getenv(k); v != "" {
		if n, err := strconv.Atoi(v); err == nil {
			return n
		}
	}
	return def
}

// LoadCases reads VERIF_IN (NDJSON, one Case per line).
func LoadCases(t testing.TB) []Case {
	path := os.Getenv("VERIF_IN")
	if path == "" {
		t.Skip("VERIF_IN not set")
	}
	f, err := os.Open(path)
	if err != nil {
		t.Fatal(err)
	}
	defer f.Close()
	var cases []Case
	sc := bufio.NewScanner(f)
	sc.Buffer(make([]byte, 1<<20), 1<<26)
	for sc.Scan() {
		b := bytes.TrimSpace(sc.Bytes())
		if len(b) == 0 {
			continue
		}
		var c Case
		if err := json.Unmarshal(b, &c); err != nil {
			t.Fatalf("bad stimulus line: %v: %s", err, b)
		}
		cases = append(cases, c)
	}
	if err := sc.Err(); err != nil {
		t.Fatal(err)
	}
	return cases
}

// W writes the traces of one (group, shard) to VERIF_OUT/<group>.<shard>.ndjson.
type W struct {
	mu sync.Mutex
	f  *os.File
	bw *bufio.Writer
	n  int
}

type Out struct {
	mu    sync.Mutex
	dir   string
	files map[string]*W
	Stats map[string]int // event-kind counts (driver liveness)
}

func NewOut(t testing.TB) *Out {
	dir := os.Getenv("VERIF_OUT")
	if dir == "" {
		t.Skip("VERIF_OUT not set")
	}
	if err := os.MkdirAll(dir, 0o755); err != nil {
		t.Fatal(err)
	}
	return &Out{dir: dir, files: map[string]*W{}, Stats: map[string]int{}}
}

func (o *Out) Writer(group string, shard int) *W {
	o.mu.Lock()
	defer o.mu.Unlock()
	key := fmt.Sprintf("%s.%02d", group, shard)
	if w, ok := o.files[key]; ok {
		return w
	}
	f, err := os.Create(filepath.Join(o.dir, key+".ndjson"))
	if err != nil {
		panic(err)
	}
	w := &W{f: f, bw: bufio.NewWriterSize(f, 1<<20)}
	o.files[key] = w
	return w
}

func (o *Out) Count(kind string, n int) {
	o.mu.Lock()
	o.Stats[kind] += n
	o.mu.Unlock()
}

// Close flushes all writers and writes stats.json.
func (o *Out) Close() {
	o.mu.Lock()
	defer o.mu.Unlock()
	for _, w := range o.files {
		w.bw.Flush()
		w.f.Close()
	}
	b, _ := json.Marshal(o.Stats)
	os.WriteFile(filepath.Join(o.dir, "stats.json"), b, 0o644)
}

// Line appends one trace line.
func (w *W) Line(m Op) {
	b, err := json.Marshal(map[string]any(m))
	if err != nil {
		panic(err)
	}
	w.mu.Lock()
	w.bw.Write(b)
	w.bw.WriteByte('\n')
	w.n++
	w.mu.Unlock()
}

// Lines appends the lines of one execution atomically (so that executions of
// different workers never interleave inside a shard file).
func (w *W) Lines(ms []Op) {
	var buf bytes.Buffer
	for _, m := range ms {
		b, err := json.Marshal(map[string]any(m))
		if err != nil {
			panic(err)
		}
		buf.Write(b)
		buf.WriteByte('\n')
	}
	w.mu.Lock()
	w.bw.Write(buf.Bytes())
	w.n += len(ms)
	w.mu.Unlock()
}

// Rec accumulates the trace lines of one execution (safe for concurrent use).
type Rec struct {
	mu    sync.Mutex
	lines []Op
}

func (r *Rec) Add(o Op) {
	r.mu.Lock()
	r.lines = append(r.lines, o)
	r.mu.Unlock()
}

func (r *Rec) Lines() []Op {
	r.mu.Lock()
	defer r.mu.Unlock()
	return append([]Op(nil), r.lines...)
}

// RunSharded executes every case on one of n workers (VERIF_SHARDS, default 16); the
// traces of worker i for group g go to <g>.<i>.ndjson. run returns the trace lines of the case.
func RunSharded(t *testing.T, cases []Case, run func(t *testing.T, c Case, rec *Rec)) {
	out := NewOut(t)
	defer out.Close()
	n := EnvInt("VERIF_SHARDS", 16)
	var wg sync.WaitGroup
	ch := make(chan int, 1024)
	var failed sync.Once
	for s := 0; s < n; s++ {
		wg.Add(1)
		go func(shard int) {
			defer wg.Done()
			local := map[string]int{}
			for i := range ch {
				c := cases[i]
				rec := &Rec{}
				// which case this worker is on: after a crash of the whole process (a panic in a goroutine of the
				// code under test cannot be recovered here) the orchestration re-runs the suspects one by one
				if dir := os.Getenv("VERIF_OUT"); dir != "" {
					os.WriteFile(fmt.Sprintf("%s/progress.%d", dir, shard), []byte(fmt.Sprint(i)), 0o644)
				}
				if c.Cfg.Bool("skip") { // placeholder keeping the case numbering stable in a re-run
					continue
				}
				// a case that does not come back (the code under test spins or waits for ever) cannot be interrupted from
				// inside the process: after VERIF_CASE_WATCHDOG seconds of real time every goroutine is dumped and the process
				// ends like a crash; the orchestration re-runs the suspects one by one and reports those that hang again
				var dog *time.Timer
				if d := EnvInt("VERIF_CASE_WATCHDOG", 0); d > 0 {
					dog = time.AfterFunc(time.Duration(d)*time.Second, func() {
						buf := make([]byte, 1<<22)
						fmt.Printf("panic: verif watchdog: case %d did not finish within %d s\n\n%s\n", i, d, buf[:runtime.Stack(buf, true)])
						os.Exit(3)
					})
				}
				func() {
					defer func() {
						if dog != nil {
							dog.Stop()
						}
						if r := recover(); r != nil {
							if os.Getenv("VERIF_NORECOVER") != "" { // debugging aid: dump every goroutine
								buf := make([]byte, 1<<22)
								os.Stderr.Write(buf[:runtime.Stack(buf, true)])
							}
							// a panic of the code under test is an observation, not a harness failure
							rec.Add(Op{"ev": "Panic", "msg": fmt.Sprint(r)})
						}
					}()
					run(t, c, rec)
				}()
				lines := rec.Lines()
				hdr := Op{"ev": "Reset", "case": i + EnvInt("VERIF_CASE_BASE", 0), "cfg": map[string]any(c.Cfg)}
				all := append([]Op{hdr}, lines...)
				for _, l := range lines {
					local[l.Str("ev")]++
				}
				local["Reset"]++
				out.Writer(c.Group, shard).Lines(all)
			}
			for k, v := range local {
				out.Count(k, v)
			}
		}(s)
	}
	for i := range cases {
		ch <- i
	}
	close(ch)
	wg.Wait()
	_ = failed
}
