//go:build verif

package http3

// C18 conformance harness: a real http3.Server and http3.Transport (plain or fingerprint QUIC client) over the
// simulated network in a synctest bubble. Every exchange is described by the case; bodies are derived from their
// position so that any altered, missing or extra byte is visible. The handler and the client record what they saw.
// Raw tier: a scripted QUIC peer writes request streams frame by frame (unknown / forbidden frames, bodies that
// disagree with their declared length, unknown stream types).

import (
	"bytes"
	"context"
	"errors"
	"fmt"
	"io"
	"net/http"
	"sort"
	"strconv"
	"strings"
	"sync"
	"testing"
	"testing/synctest"
	"time"

	"github.com/quic-go/qpack"
	"github.com/refraction-networking/uquic"
	"github.com/refraction-networking/uquic/internal/vtrace"
	"github.com/refraction-networking/uquic/quicvarint"
	tls "github.com/refraction-networking/utls"
)

func vfByte(id, off int) byte { return byte(off*31 + id*17 + (off/251)*7 + 3) }

type vfBodySrc struct {
	id, n, pos, chunk, failAt int
}

func (b *vfBodySrc) Read(p []byte) (int, error) {
	if b.failAt >= 0 && b.pos >= b.failAt {
		return 0, errors.New("body source failed")
	}
	if b.pos >= b.n {
		return 0, io.EOF
	}
	m := min(len(p), b.chunk, b.n-b.pos)
	if b.failAt >= 0 {
		m = min(m, b.failAt-b.pos)
	}
	for i := 0; i < m; i++ {
		p[i] = vfByte(b.id, b.pos+i)
	}
	b.pos += m
	return m, nil
}
func (b *vfBodySrc) Close() error { return nil }

// vfDrain reads r to the end; n bytes, all as generated for id; rerr: ended with an error instead of EOF
func vfDrain(id int, r io.Reader) (n int, content bool, rerr bool) {
	content = true
	buf := make([]byte, 4096)
	for {
		m, err := r.Read(buf)
		for i := 0; i < m; i++ {
			if buf[i] != vfByte(id, n+i) {
				content = false
			}
		}
		n += m
		if err == io.EOF {
			return n, content, false
		}
		if err != nil {
			return n, content, true
		}
	}
}

func vfHdrList(o vtrace.Op, key string) [][2]string {
	var out [][2]string
	for _, h := range o.Ops(key) {
		out = append(out, [2]string{h.Str("k"), h.Str("v")})
	}
	return out
}

// vfHasAll: every (key, value) of want arrives under its canonical key, order of values per key kept
func vfHasAll(want [][2]string, got http.Header, joinCookies bool) bool {
	per := map[string][]string{}
	for _, kv := range want {
		k := http.CanonicalHeaderKey(kv[0])
		per[k] = append(per[k], kv[1])
	}
	for k, vv := range per {
		g := got[k]
		if k == "Cookie" && joinCookies {
			g = strings.Split(strings.Join(g, "; "), "; ")
		}
		if len(g) < len(vv) {
			return false
		}
		i := 0
		for _, x := range g {
			if i < len(vv) && x == vv[i] {
				i++
			}
		}
		if i != len(vv) {
			return false
		}
	}
	return true
}

func vfDecl(mode string, n int) int {
	switch mode {
	case "ok":
		return n
	case "more":
		return n + 3
	case "less":
		return max(0, n-1)
	case "zero":
		return 0
	}
	return -1
}

type vfH3 struct {
	r     *vfRec18
	specs map[int]vtrace.Op
}

type vfRec18 struct {
	mu    sync.Mutex
	rec   *vtrace.Rec
	start time.Time
}

func (r *vfRec18) add(o vtrace.Op) {
	r.mu.Lock()
	o["t"] = int(time.Since(r.start) / time.Millisecond)
	r.rec.Add(o)
	r.mu.Unlock()
}

func (h *vfH3) ServeHTTP(w http.ResponseWriter, req *http.Request) {
	id, _ := strconv.Atoi(req.Header.Get("X-Verif-Id"))
	sp, ok := h.specs[id]
	if !ok {
		h.r.add(vtrace.Op{"ev": "Note", "msg": "handler: unknown exchange " + req.Header.Get("X-Verif-Id")})
		return
	}
	same := req.Method == sp.Str("method") && vfHasAll(vfHdrList(sp, "reqhdrs"), req.Header, true)
	if sp.Str("method") != http.MethodConnect {
		same = same && req.URL.RequestURI() == sp.Str("path")
	}
	n, content, rerr := vfDrain(id, req.Body)
	if sp.Bool("reqtrailers") && !rerr {
		same = same && req.Trailer.Get("X-Req-Trailer") == "t-"+strconv.Itoa(id)
	}
	h.r.add(vtrace.Op{"ev": "Handled", "id": id, "same": same, "n": n, "content": content, "rerr": rerr})

	if sp.Bool("early103") {
		w.Header().Set("Link", "</style.css>; rel=preload")
		w.WriteHeader(http.StatusEarlyHints)
		w.Header().Del("Link")
	}
	for _, kv := range vfHdrList(sp, "rsphdrs") {
		w.Header().Add(kv[0], kv[1])
	}
	rn := sp.Int("rspbody")
	decl := vfDecl(sp.Str("rspdecl"), rn)
	if decl >= 0 {
		w.Header().Set("Content-Length", strconv.Itoa(decl))
	}
	switch sp.Str("rsptrailers") {
	case "declared":
		w.Header().Set("Trailer", "X-Rsp-Trailer")
	case "invalid": // a name that must not be used as a trailer is announced next to a valid one
		w.Header().Set("Trailer", "Content-Length, X-Rsp-Trailer")
	}
	w.WriteHeader(sp.Int("status"))
	written := 0
	chunk := max(1, sp.Int("rspchunk"))
	scratch := make([]byte, min(chunk, max(rn, 1))) // one buffer reused for every Write, as io.Copy does: a Writer must not retain p
	for written < rn {
		m := min(chunk, rn-written)
		b := scratch[:m]
		for i := range b {
			b[i] = vfByte(id+1000, written+i)
		}
		k, err := w.Write(b)
		written += k
		if err != nil {
			break
		}
		if sp.Bool("flush") {
			if f, ok := w.(http.Flusher); ok {
				f.Flush()
			}
		}
	}
	switch sp.Str("rsptrailers") {
	case "declared", "invalid":
		w.Header().Set("X-Rsp-Trailer", "rt-"+strconv.Itoa(id))
	case "prefix":
		w.Header().Set(http.TrailerPrefix+"X-Rsp-Trailer", "rt-"+strconv.Itoa(id))
	}
	if sp.Str("method") == http.MethodHead || sp.Int("status") == 204 || sp.Int("status") == 304 {
		written = 0 // no body goes on the wire for these
		if decl > 0 {
			decl = -1 // the declared length describes the representation, not what is sent
		}
	}
	h.r.add(vtrace.Op{"ev": "Wrote", "id": id, "rspdecl": decl, "rsplen": written})
}

func vfRunExchanges(c vtrace.Case, rec *vtrace.Rec) {
	r := &vfRec18{rec: rec, start: time.Now()}
	net, cconn, sconn := vtrace.NewNet(5*time.Millisecond, vtrace.FaultsFromOps(c.Cfg.Ops("faults")))
	defer net.Close()
	str := &quic.Transport{Conn: sconn}
	ln, err := str.ListenEarly(ConfigureTLSConfig(vtrace.ServerTLS()), &quic.Config{MaxIdleTimeout: 20 * time.Second, Allow0RTT: true})
	if err != nil {
		panic(err)
	}
	h := &vfH3{r: r, specs: map[int]vtrace.Op{}}
	for i, o := range c.Ops {
		h.specs[i+1] = o
	}
	srv := &Server{Handler: h} // no logger, no other optional setting
	go srv.ServeListener(ln)
	ctr := &quic.Transport{Conn: cconn}
	tr := &Transport{
		TLSClientConfig:    vtrace.ClientTLS(),
		DisableCompression: !c.Cfg.Bool("gzip"),
		QUICConfig:         &quic.Config{MaxIdleTimeout: 20 * time.Second},
		Dial: func(ctx context.Context, _ string, tlsCfg *tls.Config, cfg *quic.Config) (*quic.Conn, error) {
			if c.Cfg.Str("client") == "plain" {
				return ctr.DialEarly(ctx, vtrace.ServerAddr, tlsCfg, cfg)
			}
			sp, err := quic.QUICID2Spec(map[string]quic.QUICID{"chrome115": quic.QUICChrome_115_IPv4, "firefox116": quic.QUICFirefox_116A}[c.Cfg.Str("client")])
			if err != nil {
				return nil, err
			}
			return (&quic.UTransport{Transport: ctr, QUICSpec: &sp}).DialEarly(ctx, vtrace.ServerAddr, tlsCfg, cfg)
		},
	}
	calm := len(c.Cfg.Ops("faults")) == 0
	var wg sync.WaitGroup
	for i, sp := range c.Ops {
		id := i + 1
		sp := sp
		wg.Add(1)
		go func() {
			defer wg.Done()
			n := sp.Int("reqbody")
			failAt := -1
			if sp.Has("reqfail") {
				failAt = sp.Int("reqfail")
			}
			sent := n
			if failAt >= 0 {
				sent = min(n, failAt)
			}
			decl := vfDecl(sp.Str("reqdecl"), n)
			r.add(vtrace.Op{"ev": "Sent", "id": id, "reqdecl": decl, "reqlen": sent, "reqfail": failAt >= 0})
			ctx, cancel := context.WithTimeout(context.Background(), 15*time.Second)
			defer cancel()
			var body io.ReadCloser
			if n > 0 || sp.Str("reqdecl") == "none" && sp.Bool("emptybody") {
				body = &vfBodySrc{id: id, n: n, chunk: max(1, sp.Int("reqchunk")), failAt: failAt}
			}
			url := "https://verif.test" + sp.Str("path")
			if sp.Str("method") == http.MethodConnect {
				url = "https://verif.test"
			}
			req, err := http.NewRequestWithContext(ctx, sp.Str("method"), url, body)
			if err != nil {
				r.add(vtrace.Op{"ev": "Note", "msg": "NewRequest: " + err.Error()})
				return
			}
			req.ContentLength = int64(decl)
			if body == nil {
				req.ContentLength = 0
			}
			for _, kv := range vfHdrList(sp, "reqhdrs") {
				req.Header.Add(kv[0], kv[1])
			}
			req.Header.Set("X-Verif-Id", strconv.Itoa(id))
			if sp.Bool("reqtrailers") {
				req.Trailer = http.Header{"X-Req-Trailer": {"t-" + strconv.Itoa(id)}}
			}
			rsp, err := tr.RoundTrip(req)
			if err != nil {
				r.add(vtrace.Op{"ev": "Received", "id": id, "got": false, "same": false, "n": 0, "content": true, "rerr": true, "calm": calm, "err": err.Error()})
				r.add(vtrace.Op{"ev": "Completed", "id": id, "got": false, "expected": calm && failAt < 0 && (decl < 0 || decl == n)})
				return
			}
			same := rsp.StatusCode == sp.Int("status") && vfHasAll(vfHdrList(sp, "rsphdrs"), rsp.Header, false)
			if k := sp.Int("abandon"); k > 0 { // the application loses interest: reads a little, closes the body
				io.CopyN(io.Discard, rsp.Body, int64(k))
				rsp.Body.Close()
				time.Sleep(300 * time.Millisecond)
				r.add(vtrace.Op{"ev": "Received", "id": id, "got": true, "same": same, "n": 0, "content": true, "rerr": true, "calm": false})
				r.add(vtrace.Op{"ev": "Completed", "id": id, "got": true, "expected": true})
				return
			}
			rn, content, rerr := vfDrain(id+1000, rsp.Body)
			rsp.Body.Close()
			if sp.Str("rsptrailers") != "none" && sp.Str("rsptrailers") != "" && !rerr && sp.Str("method") != http.MethodHead && sp.Int("status") != 204 && sp.Int("status") != 304 {
				same = same && rsp.Trailer.Get("X-Rsp-Trailer") == "rt-"+strconv.Itoa(id)
			}
			r.add(vtrace.Op{"ev": "Received", "id": id, "got": true, "same": same, "n": rn, "content": content, "rerr": rerr, "calm": calm})
			r.add(vtrace.Op{"ev": "Completed", "id": id, "got": true, "expected": true})
		}()
	}
	wg.Wait()
	time.Sleep(100 * time.Millisecond)
	tr.Close()
	srv.Close()
	ctr.Close()
	str.Close()
	cconn.Close()
	sconn.Close()
	r.add(vtrace.Op{"ev": "End"})
}

// ---- raw tier ----

func vfFrame(typ uint64, payload []byte) []byte {
	b := quicvarint.Append(nil, typ)
	b = quicvarint.Append(b, uint64(len(payload)))
	return append(b, payload...)
}

func vfQpack(fields [][2]string) []byte {
	var buf bytes.Buffer
	enc := qpack.NewEncoder(&buf)
	for _, f := range fields {
		enc.WriteField(qpack.HeaderField{Name: f[0], Value: f[1]})
	}
	return buf.Bytes()
}

func vfRunRaw(c vtrace.Case, rec *vtrace.Rec) {
	r := &vfRec18{rec: rec, start: time.Now()}
	net, cconn, sconn := vtrace.NewNet(5*time.Millisecond, nil)
	defer net.Close()
	str := &quic.Transport{Conn: sconn}
	ln, err := str.ListenEarly(ConfigureTLSConfig(vtrace.ServerTLS()), &quic.Config{MaxIdleTimeout: 20 * time.Second})
	if err != nil {
		panic(err)
	}
	h := &vfH3{r: r, specs: map[int]vtrace.Op{}}
	srv := &Server{Handler: h}
	go srv.ServeListener(ln)
	ctr := &quic.Transport{Conn: cconn}
	ctx, cancel := context.WithTimeout(context.Background(), 10*time.Second)
	defer cancel()
	conn, err := ctr.Dial(ctx, vtrace.ServerAddr, vtrace.ClientTLS(), &quic.Config{MaxIdleTimeout: 20 * time.Second})
	if err != nil {
		panic(err)
	}
	// the client's control stream with SETTINGS
	ctrl, _ := conn.OpenUniStream()
	ctrl.Write(append([]byte{0x00}, vfFrame(0x04, nil)...))
	answer := func(st *quic.Stream) string {
		// what came back: a response (HEADERS), a stream error, or a connection error
		st.SetReadDeadline(time.Now().Add(3 * time.Second))
		b, err := io.ReadAll(st)
		var se *quic.StreamError
		var ae *quic.ApplicationError
		switch {
		case errors.As(err, &se):
			return fmt.Sprintf("stream:%d", se.ErrorCode)
		case errors.As(err, &ae):
			return fmt.Sprintf("conn:%d", ae.ErrorCode)
		case conn.Context().Err() != nil:
			if errors.As(context.Cause(conn.Context()), &ae) {
				return fmt.Sprintf("conn:%d", ae.ErrorCode)
			}
			return "conn:?"
		case len(b) > 0 && b[0] == 0x01:
			return "ok"
		case err != nil:
			return "err:" + err.Error()
		}
		return "empty"
	}
	for i, op := range c.Ops {
		id := i + 1
		fields := [][2]string{{":method", "POST"}, {":scheme", "https"}, {":authority", "verif.test"}, {":path", "/raw"}, {"x-verif-id", strconv.Itoa(id)}}
		sp := vtrace.Op{"method": "POST", "path": "/raw", "status": 200, "rspbody": 5, "rspdecl": "none", "rsptrailers": "none"}
		h.specs[id] = sp
		switch op.Str("op") {
		case "body": // a request whose DATA disagrees (or agrees) with its declared content-length
			n, decl := op.Int("n"), op.Int("decl")
			if decl >= 0 {
				fields = append(fields, [2]string{"content-length", strconv.Itoa(decl)})
			}
			st, err := conn.OpenStreamSync(ctx)
			if err != nil {
				return
			}
			r.add(vtrace.Op{"ev": "Sent", "id": id, "reqdecl": decl, "reqlen": n, "reqfail": false})
			st.Write(vfFrame(0x01, vfQpack(fields)))
			body := make([]byte, n)
			for j := range body {
				body[j] = vfByte(id, j)
			}
			for off := 0; off < n; {
				m := min(max(1, op.Int("chunk")), n-off)
				st.Write(vfFrame(0x00, body[off:off+m]))
				off += m
			}
			st.Close()
			a := answer(st)
			r.add(vtrace.Op{"ev": "Note", "msg": "answer " + a})
		case "frame": // a frame on the request stream, before / between / after the regular ones
			st, err := conn.OpenStreamSync(ctx)
			if err != nil {
				return
			}
			typ := uint64(op.Int("type"))
			payload := make([]byte, op.Int("len"))
			if typ == 0x03 || typ == 0x07 || typ == 0x0d { // these carry one variable-length integer: a well-formed frame
				payload = []byte{0x00}
			}
			extra := vfFrame(typ, payload)
			r.add(vtrace.Op{"ev": "Sent", "id": id, "reqdecl": -1, "reqlen": map[bool]int{true: 0, false: 1}[op.Str("where") == "first"], "reqfail": false})
			var seq []byte
			switch op.Str("where") {
			case "first":
				seq = append(extra, vfFrame(0x01, vfQpack(fields))...)
			case "middle":
				seq = append(append(vfFrame(0x01, vfQpack(fields)), extra...), vfFrame(0x00, []byte{vfByte(id, 0)})...)
			default:
				seq = append(append(vfFrame(0x01, vfQpack(fields)), vfFrame(0x00, []byte{vfByte(id, 0)})...), extra...)
			}
			st.Write(seq)
			st.Close()
			r.add(vtrace.Op{"ev": "Raw", "class": op.Str("class"), "answer": answer(st), "what": fmt.Sprintf("frame 0x%x %s", typ, op.Str("where"))})
		case "unistream": // a unidirectional stream of some type
			us, err := conn.OpenUniStream()
			if err != nil {
				return
			}
			payload := make([]byte, op.Int("len"))
			if op.Int("type") == 0 {
				payload = vfFrame(0x04, nil) // a second control stream, properly started with SETTINGS
			}
			us.Write(append(quicvarint.Append(nil, uint64(op.Int("type"))), payload...))
			time.Sleep(50 * time.Millisecond)
			// the connection must still serve a request (or have died with the expected error)
			r.add(vtrace.Op{"ev": "Sent", "id": id, "reqdecl": -1, "reqlen": 0, "reqfail": false})
			st, err := conn.OpenStreamSync(ctx)
			a := "conn:?"
			if err == nil {
				st.Write(vfFrame(0x01, vfQpack(fields)))
				st.Close()
				a = answer(st)
			} else {
				var ae *quic.ApplicationError
				if errors.As(err, &ae) {
					a = fmt.Sprintf("conn:%d", ae.ErrorCode)
				}
			}
			r.add(vtrace.Op{"ev": "Raw", "class": op.Str("class"), "answer": a, "what": fmt.Sprintf("uni stream type 0x%x", op.Int("type"))})
		}
		if conn.Context().Err() != nil {
			break
		}
	}
	time.Sleep(100 * time.Millisecond)
	conn.CloseWithError(0, "")
	srv.Close()
	ctr.Close()
	str.Close()
	cconn.Close()
	sconn.Close()
	r.add(vtrace.Op{"ev": "End"})
	_ = sort.Ints
}

func TestVerifC18(t *testing.T) {
	cases := vtrace.LoadCases(t)
	vtrace.ServerTLS()
	vtrace.RunSharded(t, cases, func(t *testing.T, c vtrace.Case, rec *vtrace.Rec) {
		synctest.Test(t, func(t *testing.T) {
			defer func() {
				if vtrace.Env("VERIF_NORECOVER", "") != "" {
					return
				}
				if r := recover(); r != nil {
					rec.Add(vtrace.Op{"ev": "Panic", "msg": fmt.Sprint(r)})
				}
			}()
			if c.Cfg.Str("tier") == "raw" {
				vfRunRaw(c, rec)
			} else {
				vfRunExchanges(c, rec)
			}
		})
	})
}
