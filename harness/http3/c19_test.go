//go:build verif

package http3

// C19 conformance harness.
//   parser tier: generated field lists are handed to requestFromHeaders / parseHeaders /
//     updateResponseFromHeaders / parseTrailers through a decode function; every field the parser
//     pulled is recorded through the harness's own classifier, then the verdict.
//   writer tier: generated http.Request / response header maps go through the real request and
//     response writers; the emitted HEADERS frame is decoded with an independent QPACK decoder,
//     recorded the same way, and parsed back with the real parser.

import (
	"bytes"
	"context"
	"errors"
	"io"
	"net/http"
	"net/url"
	"slices"
	"sort"
	"strings"
	"testing"
	"time"

	"github.com/quic-go/qpack"
	"github.com/refraction-networking/uquic"
	"github.com/refraction-networking/uquic/internal/vtrace"
	"github.com/refraction-networking/uquic/quicvarint"
)

// ---- the harness's own classifier (RFC 9110 token / RFC 9114 4.2 rules) ----

func vfIsTchar(c byte) bool {
	switch {
	case c >= 'a' && c <= 'z', c >= 'A' && c <= 'Z', c >= '0' && c <= '9':
		return true
	}
	return strings.IndexByte("!#$%&'*+-.^_`|~", c) >= 0
}

func vfNameKind(n string) string {
	if len(n) > 0 && n[0] == ':' {
		switch n {
		case ":method", ":path", ":scheme", ":authority", ":protocol", ":status":
			return n
		}
		if strings.ToLower(n) != n {
			return "p_upper"
		}
		return "p_unknown"
	}
	if n == "" {
		return "bad"
	}
	upper := false
	for i := 0; i < len(n); i++ {
		if !vfIsTchar(n[i]) {
			return "bad"
		}
		if n[i] >= 'A' && n[i] <= 'Z' {
			upper = true
		}
	}
	if upper {
		return "upper"
	}
	switch n {
	case "connection", "keep-alive", "proxy-connection", "transfer-encoding", "upgrade":
		return "connspec"
	case "te":
		return "te"
	case "content-length":
		return "cl"
	}
	return "tok"
}

func vfValueKind(v string) string {
	ctl := false
	for i := 0; i < len(v); i++ {
		switch c := v[i]; {
		case c == 0 || c == '\r' || c == '\n':
			return "bad"
		case (c < 0x20 && c != '\t') || c == 0x7f:
			ctl = true
		}
	}
	if ctl {
		return "ctl"
	}
	if v == "" {
		return "empty"
	}
	if v == "trailers" {
		return "trailers"
	}
	if len(v) <= 18 {
		num := true
		for i := 0; i < len(v); i++ {
			if v[i] < '0' || v[i] > '9' {
				num = false
			}
		}
		if num {
			return "num"
		}
	}
	return "ok"
}

func vfFieldLine(n, v string) vtrace.Op {
	nk, vk := vfNameKind(n), vfValueKind(v)
	cv := ""
	if nk == "cl" && (vk == "num" || vk == "ok") {
		cv = v
	}
	return vtrace.Op{"ev": "Field", "nk": nk, "vk": vk, "v": cv, "size": len(n) + len(v) + 32}
}

func vfErrClass(err error) string {
	var qe *qpackError
	switch {
	case err == nil:
		return ""
	case errors.Is(err, errHeaderTooLarge):
		return "excessive_load"
	case errors.As(err, &qe):
		return "qpack"
	}
	return "message_error"
}

func vfCount(h http.Header) int {
	n := 0
	for _, vv := range h {
		n += len(vv)
	}
	return n
}

// parse runs the parser of the given kind over fields pulled through decode
func vfParse(kind string, limit int, decode qpack.DecodeFunc) (accepted bool, out int, errclass string, req *http.Request, rsp *http.Response) {
	switch kind {
	case "request":
		r, err := requestFromHeaders(decode, limit, nil)
		if err != nil {
			return false, 0, vfErrClass(err), nil, nil
		}
		n := vfCount(r.Header)
		// requestFromHeaders joins cookie fields and moves announced trailers out of the header
		if c := r.Header["Cookie"]; len(c) == 1 {
			n += strings.Count(c[0], "; ")
		}
		return true, n + vfCount(r.Trailer)*0, "", r, nil
	case "request-parse":
		h, err := parseHeaders(decode, true, limit, nil)
		if err != nil {
			return false, 0, vfErrClass(err), nil, nil
		}
		return true, vfCount(h.Headers), "", nil, nil
	case "response":
		rs := &http.Response{}
		if err := updateResponseFromHeaders(rs, decode, limit, nil); err != nil {
			return false, 0, vfErrClass(err), nil, nil
		}
		return true, vfCount(rs.Header), "", nil, rs
	case "response-parse":
		h, err := parseHeaders(decode, false, limit, nil)
		if err != nil {
			return false, 0, vfErrClass(err), nil, nil
		}
		return true, vfCount(h.Headers), "", nil, nil
	case "trailer":
		h, err := parseTrailers(decode, limit, nil)
		if err != nil {
			return false, 0, vfErrClass(err), nil, nil
		}
		return true, vfCount(h), "", nil, nil
	}
	panic("kind " + kind)
}

func vfSpecKind(kind string) string { return strings.TrimSuffix(kind, "-parse") }

func TestVerifC19(t *testing.T) {
	cases := vtrace.LoadCases(t)
	vtrace.RunSharded(t, cases, func(t *testing.T, c vtrace.Case, rec *vtrace.Rec) {
		kind := c.Cfg.Str("kind")
		limit := c.Cfg.Int("limit")
		rec.Add(vtrace.Op{"ev": "Start", "kind": vfSpecKind(kind), "limit": limit})
		i := 0
		decode := func() (qpack.HeaderField, error) {
			if i >= len(c.Ops) {
				return qpack.HeaderField{}, io.EOF
			}
			f := qpack.HeaderField{Name: c.Ops[i].Str("n"), Value: c.Ops[i].Str("v")}
			i++
			rec.Add(vfFieldLine(f.Name, f.Value))
			return f, nil
		}
		accepted, out, ec, _, _ := vfParse(kind, limit, decode)
		// trailer-announcing fields are moved out of the header by the request / response constructors: not judged
		judged := true
		for _, o := range c.Ops {
			if o.Str("n") == "trailer" {
				judged = false
			}
		}
		if !judged {
			out = -1
		}
		rec.Add(vtrace.Op{"ev": "Result", "accepted": accepted, "out": out, "errclass": ec})
	})
}

// ---- writer tier ----

type vfBufStream struct {
	bytes.Buffer
}

func (s *vfBufStream) Close() error                                   { return nil }
func (s *vfBufStream) CancelRead(quic.StreamErrorCode)                {}
func (s *vfBufStream) CancelWrite(quic.StreamErrorCode)               {}
func (s *vfBufStream) StreamID() quic.StreamID                        { return 4 }
func (s *vfBufStream) Context() context.Context                       { return context.Background() }
func (s *vfBufStream) SetDeadline(time.Time) error                    { return nil }
func (s *vfBufStream) SetReadDeadline(time.Time) error                { return nil }
func (s *vfBufStream) SetWriteDeadline(time.Time) error               { return nil }
func (s *vfBufStream) SendDatagram([]byte) error                      { return nil }
func (s *vfBufStream) ReceiveDatagram(context.Context) ([]byte, error) { return nil, io.EOF }
func (s *vfBufStream) QUICStream() *quic.Stream                       { return nil }

// vfHeadersBlock reads one frame header (independent of frameParser) and returns the HEADERS payload
func vfHeadersBlock(b []byte) ([]byte, []byte, bool) {
	typ, n1, err := quicvarint.Parse(b)
	if err != nil {
		return nil, nil, false
	}
	l, n2, err := quicvarint.Parse(b[n1:])
	if err != nil || typ != 0x1 || uint64(len(b)-n1-n2) < l {
		return nil, nil, false
	}
	return b[n1+n2 : n1+n2+int(l)], b[n1+n2+int(l):], true
}

func vfDecodeAll(block []byte) ([]qpack.HeaderField, error) {
	dec := qpack.NewDecoder()
	fn := dec.Decode(block)
	var fs []qpack.HeaderField
	for {
		f, err := fn()
		if err == io.EOF {
			return fs, nil
		}
		if err != nil {
			return nil, err
		}
		fs = append(fs, f)
	}
}

func vfReplay(fs []qpack.HeaderField) qpack.DecodeFunc {
	i := 0
	return func() (qpack.HeaderField, error) {
		if i >= len(fs) {
			return qpack.HeaderField{}, io.EOF
		}
		i++
		return fs[i-1], nil
	}
}

// fields HTTP/3 does not carry (connection-specific) or carries differently (request: host -> :authority, content-length computed)
var vfConnSpec = map[string]bool{"connection": true, "proxy-connection": true, "transfer-encoding": true, "upgrade": true, "keep-alive": true, "trailer": true}
var vfReqOnly = map[string]bool{"host": true, "content-length": true}

// vfSameHeader: every value the application set (except the fields HTTP/3 carries differently) arrives, in order, under its canonical key
func vfSameHeader(set, got http.Header, isReq bool) bool {
	want := map[string][]string{}
	keys := make([]string, 0, len(set))
	for k := range set {
		keys = append(keys, k)
	}
	sort.Strings(keys)
	for _, k := range keys {
		lk := strings.ToLower(k)
		if vfConnSpec[lk] || (isReq && vfReqOnly[lk]) {
			continue
		}
		vv := set[k]
		if isReq && lk == "user-agent" {
			if len(vv) == 0 || vv[0] == "" {
				continue
			}
			vv = vv[:1]
		}
		ck := http.CanonicalHeaderKey(lk)
		want[ck] = append(want[ck], vv...)
	}
	for ck, vv := range want {
		g := append([]string(nil), got[ck]...)
		if ck == "Cookie" && isReq && len(g) == 1 {
			g = strings.Split(g[0], "; ")
			var w []string
			for _, v := range vv {
				w = append(w, strings.Split(v, "; ")...)
			}
			vv = w
		}
		sort.Strings(g)
		w := append([]string(nil), vv...)
		sort.Strings(w)
		if ck == "Content-Length" { // identical duplicates are merged
			w = slices.Compact(w)
		}
		// multiset inclusion: the writer may add values of its own (accept-encoding: gzip, a sniffed content-type)
		for _, x := range w {
			i := slices.Index(g, x)
			if i < 0 {
				return false
			}
			g = slices.Delete(g, i, i+1)
		}
	}
	return true
}

func TestVerifC19W(t *testing.T) {
	cases := vtrace.LoadCases(t)
	vtrace.RunSharded(t, cases, func(t *testing.T, c vtrace.Case, rec *vtrace.Rec) {
		hdr := http.Header{}
		for _, o := range c.Ops { // keys are stored as given: http.Header is a plain map
			hdr[o.Str("k")] = append(hdr[o.Str("k")], o.Str("v"))
		}
		const limit = 1 << 20
		switch c.Cfg.Str("kind") {
		case "reqwriter":
			rec.Add(vtrace.Op{"ev": "Start", "kind": "request", "limit": limit})
			u, err := url.Parse(c.Cfg.Str("url"))
			if err != nil {
				rec.Add(vtrace.Op{"ev": "Writer", "werr": true, "accepted": false, "same": false})
				return
			}
			req := &http.Request{Method: c.Cfg.Str("method"), URL: u, Host: c.Cfg.Str("host"), Header: hdr, Proto: c.Cfg.Str("proto")}
			if n := c.Cfg.Int("body"); n > 0 {
				req.Body = io.NopCloser(bytes.NewReader(make([]byte, n)))
				req.ContentLength = int64(n)
			}
			if tk := c.Cfg.Str("trailer"); tk != "" {
				req.Trailer = http.Header{tk: nil}
			}
			var buf bytes.Buffer
			if err := newRequestWriter().WriteRequestHeader(&buf, req, c.Cfg.Bool("gzip"), 0, nil); err != nil {
				rec.Add(vtrace.Op{"ev": "Writer", "werr": true, "accepted": false, "same": false})
				return
			}
			block, _, ok := vfHeadersBlock(buf.Bytes())
			fs, derr := vfDecodeAll(block)
			if !ok || derr != nil {
				rec.Add(vtrace.Op{"ev": "Writer", "werr": false, "accepted": false, "same": false, "note": "emitted bytes are not a decodable HEADERS frame"})
				return
			}
			for _, f := range fs {
				rec.Add(vfFieldLine(f.Name, f.Value))
			}
			accepted, _, _, got, _ := vfParse("request", limit, vfReplay(fs))
			same := false
			if accepted {
				same = got.Method == req.Method && vfSameHeader(hdr, got.Header, true)
				if req.Method != http.MethodConnect {
					same = same && got.URL.RequestURI() == u.RequestURI()
				}
			}
			rec.Add(vtrace.Op{"ev": "Writer", "werr": false, "accepted": accepted, "same": same})
		case "rspwriter":
			rec.Add(vtrace.Op{"ev": "Start", "kind": "response", "limit": limit})
			bs := &vfBufStream{}
			rw := newResponseWriter(newStream(bs, nil, nil, func(io.Reader, *headersFrame) error { return nil }, nil), nil, false, nil)
			for k, vv := range hdr {
				rw.Header()[k] = vv
			}
			rw.Header()["Date"] = nil // no clock in the trace
			status := c.Cfg.Int("status")
			rw.WriteHeader(status)
			if n := c.Cfg.Int("body"); n > 0 {
				rw.Write(make([]byte, n))
			}
			rw.Flush()
			block, _, ok := vfHeadersBlock(bs.Bytes())
			fs, derr := vfDecodeAll(block)
			if !ok || derr != nil {
				rec.Add(vtrace.Op{"ev": "Writer", "werr": false, "accepted": false, "same": false, "note": "emitted bytes are not a decodable HEADERS frame"})
				return
			}
			for _, f := range fs {
				rec.Add(vfFieldLine(f.Name, f.Value))
			}
			accepted, _, _, _, got := vfParse("response", limit, vfReplay(fs))
			same := accepted && got.StatusCode == status && vfSameHeader(hdr, got.Header, false)
			rec.Add(vtrace.Op{"ev": "Writer", "werr": false, "accepted": accepted, "same": same})
		}
	})
}
