//go:build verif

package ackhandler

// C07 conformance harness: executes stimulus sequences on the real ReceivedPacketHandler
// and records, per call, what the code answered (duplicate?, ACK queued?, alarm, ACK ranges).

import (
	"testing"
	"time"

	"github.com/refraction-networking/uquic/internal/monotime"
	"github.com/refraction-networking/uquic/internal/protocol"
	"github.com/refraction-networking/uquic/internal/utils"
	"github.com/refraction-networking/uquic/internal/vtrace"
)

const vfBase = monotime.Time(1_000_000_000_000)

func vfUs(t monotime.Time) int {
	if t.IsZero() {
		return 0
	}
	return int(t.Sub(vfBase) / time.Microsecond)
}

func TestVerifC07(t *testing.T) {
	cases := vtrace.LoadCases(t)
	vtrace.RunSharded(t, cases, func(t *testing.T, c vtrace.Case, rec *vtrace.Rec) {
		var lvl protocol.EncryptionLevel
		switch c.Cfg.Str("space") {
		case "app":
			lvl = protocol.Encryption1RTT
		case "initial":
			lvl = protocol.EncryptionInitial
		case "handshake":
			lvl = protocol.EncryptionHandshake
		}
		h := NewReceivedPacketHandler(utils.DefaultLogger)
		now := vfBase.Add(time.Microsecond) // t = 1: a zero alarm is distinguishable from an alarm
		dropped := false
		lastLargest := -1 // largest number of the last ACK handed out
		for i, op := range c.Ops {
			line := vtrace.Op{"ev": op.Str("op"), "i": i, "t": vfUs(now)}
			switch op.Str("op") {
			case "Tick":
				now = now.Add(time.Duration(op.Int("d")) * time.Microsecond)
				continue
			case "Recv":
				if dropped {
					continue
				}
				pn := protocol.PacketNumber(op.Int("pn"))
				ecn := protocol.ECN(op.Int("mark")) // 0 unsupported/none, 1 ECT1, 2 ECT0, 3 CE in wire order
				var mark int
				switch op.Int("mark") {
				case 1:
					ecn, mark = protocol.ECT0, 1
				case 2:
					ecn, mark = protocol.ECT1, 2
				case 3:
					ecn, mark = protocol.ECNCE, 3
				default:
					ecn, mark = protocol.ECNNon, 0
				}
				dup := h.IsPotentiallyDuplicate(pn, lvl)
				errs := ""
				if !dup {
					if err := h.ReceivedPacket(pn, ecn, lvl, now, op.Bool("ae")); err != nil {
						errs = err.Error()
					}
				}
				line["pn"], line["ae"], line["mark"], line["dup"], line["err"] = int(pn), op.Bool("ae"), mark, dup, errs
				if lvl == protocol.Encryption1RTT {
					line["qd"], line["al"] = h.appDataPackets.ackQueued, vfUs(h.GetAlarmTimeout())
				} else {
					tr := h.initialPackets
					if lvl == protocol.EncryptionHandshake {
						tr = h.handshakePackets
					}
					line["qd"], line["al"] = tr.hasNewAck, 0
				}
			case "GetAck":
				ack := h.GetAckFrame(lvl, now, op.Bool("oiq"))
				rs := [][]int{}
				line["oiq"] = op.Bool("oiq")
				line["ect0"], line["ect1"], line["ce"], line["delay"] = 0, 0, 0, 0
				line["nil"] = ack == nil
				if ack != nil {
					if len(ack.AckRanges) > 0 {
						lastLargest = int(ack.AckRanges[0].Largest)
					}
					for _, r := range ack.AckRanges {
						rs = append(rs, []int{int(r.Smallest), int(r.Largest)})
					}
					line["ect0"], line["ect1"], line["ce"] = int(ack.ECT0), int(ack.ECT1), int(ack.ECNCE)
					line["delay"] = int(ack.DelayTime / time.Microsecond)
				}
				line["ranges"] = rs
			case "Ignore":
				// a conformant peer can only confirm an ACK that was sent: p = its largest + 1
				p := lastLargest + 1
				if op.Has("p") && op.Int("p") <= lastLargest+1 {
					p = op.Int("p")
				}
				if lastLargest < 0 {
					continue
				}
				h.IgnorePacketsBelow(protocol.PacketNumber(p))
				line["p"] = p
			case "Drop":
				if dropped || lvl == protocol.Encryption1RTT {
					continue
				}
				h.DropPackets(lvl)
				dropped = true
			default:
				panic("unknown op " + op.Str("op"))
			}
			rec.Add(line)
		}
	})
}
