//go:build verif

package ackhandler

// C06 / C14(amplification) conformance harness: executes stimulus sequences on the real
// sentPacketHandler with recording frame handlers and logs, per call, the callbacks, the
// packets still in the history, bytes in flight, whether a loss-detection deadline is set,
// and the send mode.

import (
	"errors"
	"testing"
	"time"

	"github.com/refraction-networking/uquic/internal/protocol"
	"github.com/refraction-networking/uquic/internal/qerr"
	"github.com/refraction-networking/uquic/internal/utils"
	"github.com/refraction-networking/uquic/internal/vtrace"
	"github.com/refraction-networking/uquic/internal/wire"
)

type vfCB struct {
	acked, lost [][]any
}

type vfFrameHandler struct {
	cb *vfCB
	id []any
}

func (h *vfFrameHandler) OnAcked(wire.Frame) { h.cb.acked = append(h.cb.acked, h.id) }
func (h *vfFrameHandler) OnLost(wire.Frame)  { h.cb.lost = append(h.cb.lost, h.id) }

var vfSpaceNames = []string{"i", "h", "a"}

func vfLevel(s int, zr bool) protocol.EncryptionLevel {
	switch s {
	case 0:
		return protocol.EncryptionInitial
	case 1:
		return protocol.EncryptionHandshake
	}
	if zr {
		return protocol.Encryption0RTT
	}
	return protocol.Encryption1RTT
}

func vfModeName(m SendMode) string {
	switch m {
	case SendNone:
		return "none"
	case SendAck:
		return "ack"
	case SendAny:
		return "any"
	case SendPacingLimited:
		return "pacing"
	case SendPTOInitial, SendPTOHandshake, SendPTOAppData:
		return "pto"
	}
	return "other"
}

func TestVerifC06(t *testing.T) {
	cases := vtrace.LoadCases(t)
	vtrace.RunSharded(t, cases, func(t *testing.T, c vtrace.Case, rec *vtrace.Rec) {
		pers := protocol.PerspectiveClient
		if c.Cfg.Str("persp") == "server" {
			pers = protocol.PerspectiveServer
		}
		rtt := utils.NewRTTStats()
		h := NewSentPacketHandler(0, 1200, rtt, &utils.ConnectionStats{}, c.Cfg.Bool("validated"), false, nil, pers, nil, utils.DefaultLogger).(*sentPacketHandler)
		// frequent deliberate skips in the application space
		h.appDataPackets.pns = newSkippingPacketNumberGenerator(0, 2, 4)
		now := vfBase
		cb := &vfCB{}
		next := []int{0, 0, 0}       // next expected number per space
		largest := []int{-1, -1, -1} // largest sent
		var lastSkipped []int        // application space, most recent last
		hsSent := false
		sentOneRTT := false
		spaceOf := func(s int) *packetNumberSpace {
			switch s {
			case 0:
				return h.initialPackets
			case 1:
				return h.handshakePackets
			}
			return h.appDataPackets
		}
		observe := func(line vtrace.Op) {
			pk := map[string]any{}
			for s := 0; s < 3; s++ {
				l := []int{}
				if sp := spaceOf(s); sp != nil {
					for pn, p := range sp.history.Packets() {
						if p.isPathProbePacket {
							continue
						}
						l = append(l, int(pn))
					}
					for pn := range sp.history.PathProbes() {
						l = append(l, int(pn))
					}
				}
				pk[vfSpaceNames[s]] = l
			}
			line["pk"] = pk
			line["inf"] = int(h.bytesInFlight)
			line["al"] = !h.GetLossDetectionTimeout().IsZero()
			line["mode"] = vfModeName(h.SendMode(now))
			if cb.acked == nil {
				cb.acked = [][]any{}
			}
			if cb.lost == nil {
				cb.lost = [][]any{}
			}
			line["acked"], line["lost"] = cb.acked, cb.lost
			cb.acked, cb.lost = nil, nil
		}
		connErr := false
		for i, op := range c.Ops {
			line := vtrace.Op{"ev": op.Str("op"), "i": i}
			if connErr {
				break
			}
			switch op.Str("op") {
			case "Tick":
				now = now.Add(time.Duration(op.Int("d")) * time.Millisecond)
				continue
			case "Send":
				s := op.Int("s")
				if spaceOf(s) == nil {
					continue
				}
				kind := op.Str("kind")
				zr := op.Bool("zr") && !sentOneRTT // 0-RTT packets precede every 1-RTT packet
				if h.SendMode(now) == SendNone {
					line["ev"] = "Blocked"
					rec.Add(line)
					continue
				}
				lvl := vfLevel(s, zr)
				pn := int(h.PopPacketNumber(lvl))
				skips := []int{}
				for x := next[s]; x < pn; x++ {
					skips = append(skips, x)
					lastSkipped = append(lastSkipped, x)
				}
				next[s] = pn + 1
				largest[s] = pn
				nf := op.Int("nf")
				var frames []Frame
				for k := 1; k <= nf; k++ {
					frames = append(frames, Frame{Frame: &wire.PingFrame{}, Handler: &vfFrameHandler{cb: cb, id: []any{vfSpaceNames[s], pn, k}}})
				}
				size := op.Int("size")
				h.SentPacket(now, protocol.PacketNumber(pn), protocol.InvalidPacketNumber, nil, frames, lvl, protocol.ECNNon,
					protocol.ByteCount(size), kind == "mtu", kind == "probe")
				if s == 1 {
					hsSent = true
				}
				if s == 2 && !zr {
					sentOneRTT = true
				}
				line["s"], line["pn"], line["skips"], line["size"], line["nf"], line["kind"], line["zr"] = vfSpaceNames[s], pn, skips, size, nf, kind, zr
			case "Ack":
				s := op.Int("s")
				if spaceOf(s) == nil || (largest[s] < 0 && op.Int("pat") != 4) {
					continue // (in a space where nothing was sent yet only the ACK for a number never sent - pattern 4, packet 0 - is meaningful)
				}
				L := largest[s]
				var rs [][]int // descending
				switch op.Int("pat") {
				case 0:
					rs = [][]int{{L, L}}
				case 1:
					rs = [][]int{{L - 1, L - 1}}
				case 2:
					rs = [][]int{{L, L}, {L - 2, L - 2}}
				case 3:
					rs = [][]int{{L - 2, L}}
				case 4:
					rs = [][]int{{L + 1, L + 1}}
				case 5:
					rs = [][]int{{0, L}}
				case 6: // covers the most recent skipped number
					if len(lastSkipped) == 0 {
						continue
					}
					x := lastSkipped[len(lastSkipped)-1]
					rs = [][]int{{x, x}}
				case 7: // covers the oldest skipped number
					if len(lastSkipped) == 0 {
						continue
					}
					rs = [][]int{{lastSkipped[0], lastSkipped[0]}}
				case 8:
					rs = [][]int{{L - 1, L - 1}, {L - 3, L - 3}}
				}
				ok := true
				ack := &wire.AckFrame{}
				for _, r := range rs {
					if r[0] < 0 {
						r[0] = 0
					}
					if r[1] < r[0] {
						ok = false
					}
					ack.AckRanges = append(ack.AckRanges, wire.AckRange{Smallest: protocol.PacketNumber(r[0]), Largest: protocol.PacketNumber(r[1])})
				}
				if !ok || (len(rs) == 2 && rs[1][1] >= rs[0][0]-1) {
					continue
				}
				_, err := h.ReceivedAck(ack, vfLevel(s, false), now)
				res := "ok"
				var te *qerr.TransportError
				if errors.As(err, &te) && te.ErrorCode == qerr.ProtocolViolation {
					res = "PROTOCOL_VIOLATION"
					connErr = true
				} else if err != nil {
					res = "other:" + err.Error()
					connErr = true
				}
				line["s"], line["ranges"], line["res"] = vfSpaceNames[s], rs, res
			case "Timeout":
				al := h.GetLossDetectionTimeout()
				if al.IsZero() {
					continue
				}
				if al.After(now) {
					now = al
				}
				err := h.OnLossDetectionTimeout(now)
				res := "ok"
				if err != nil {
					res = "other:" + err.Error()
				}
				skips := []int{}
				for x := next[2]; x < int(h.appDataPackets.pns.Peek()); x++ {
					// numbers consumed by the PTO (skipped) - the generator's own pending skip is only
					// reported when the next number is popped, so compare with the history's highest number
					if protocol.PacketNumber(x) <= h.appDataPackets.history.highestPacketNumber {
						skips = append(skips, x)
						lastSkipped = append(lastSkipped, x)
					}
				}
				next[2] += len(skips)
				line["res"], line["skips"] = res, skips
			case "QueueProbe":
				s := op.Int("s")
				if spaceOf(s) == nil {
					continue
				}
				ok := h.QueueProbePacket(vfLevel(s, false))
				p := -1
				if len(cb.lost) > 0 {
					p = cb.lost[0][1].(int)
				}
				line["s"], line["ok"], line["p"] = vfSpaceNames[s], ok, p
			case "Drop":
				s := op.Int("s")
				if s == 3 {
					h.DropPackets(protocol.Encryption0RTT, now)
					line["s"] = "z"
				} else {
					if spaceOf(s) == nil {
						continue
					}
					h.DropPackets(vfLevel(s, false), now)
					line["s"] = vfSpaceNames[s]
				}
			case "Retry":
				if pers != protocol.PerspectiveClient || h.initialPackets == nil || hsSent || h.initialPackets.largestAcked != protocol.InvalidPacketNumber {
					continue
				}
				h.ResetForRetry(now)
				largest[0], largest[2] = -1, -1
				lastSkipped = nil
				next[0], next[2] = int(h.initialPackets.pns.Peek()), int(h.appDataPackets.pns.Peek())
				line["ni"], line["na"] = next[0], next[2]
			case "Migrated":
				h.MigratedPath(now, 1200)
			case "RecvBytes":
				h.ReceivedBytes(protocol.ByteCount(op.Int("n")), now)
				line["n"] = op.Int("n")
			case "RecvPacket":
				s := op.Int("s")
				h.ReceivedPacket(vfLevel(s, false), now)
				line["s"] = vfSpaceNames[s]
			default:
				panic("unknown op " + op.Str("op"))
			}
			observe(line)
			rec.Add(line)
		}
	})
}
