//go:build verif

package ackhandler

// C20 conformance harness (handler tier): the real sentPacketHandler drives the real congestion
// controller; a wrapper around the controller records every call with the window after it, and
// after every stimulus the handler's SendMode is recorded against its bytes in flight.

import (
	"testing"
	"time"

	"github.com/refraction-networking/uquic/internal/congestion"
	"github.com/refraction-networking/uquic/internal/monotime"
	"github.com/refraction-networking/uquic/internal/protocol"
	"github.com/refraction-networking/uquic/internal/utils"
	"github.com/refraction-networking/uquic/internal/vtrace"
	"github.com/refraction-networking/uquic/internal/wire"
)

const vfC20Cap = 1 << 29

type vfCong struct {
	congestion.SendAlgorithmWithDebugInfos
	rec *vtrace.Rec
}

func (c *vfCong) cw() int { return int(c.GetCongestionWindow()) }

func (c *vfCong) OnPacketSent(t monotime.Time, inflight protocol.ByteCount, pn protocol.PacketNumber, bytes protocol.ByteCount, ae bool) {
	c.SendAlgorithmWithDebugInfos.OnPacketSent(t, inflight, pn, bytes, ae)
	// the pacer is not judged in this tier: burst saturated
	c.rec.Add(vtrace.Op{"ev": "Sent", "pn": int(pn), "ae": ae, "size": int(bytes), "credit": 0, "burst": vfC20Cap, "cwnd": c.cw()})
}

func (c *vfCong) MaybeExitSlowStart() {
	c.SendAlgorithmWithDebugInfos.MaybeExitSlowStart()
	c.rec.Add(vtrace.Op{"ev": "ExitSS", "cwnd": c.cw()})
}

func (c *vfCong) OnPacketAcked(pn protocol.PacketNumber, bytes, prior protocol.ByteCount, t monotime.Time) {
	ss := c.InSlowStart()
	c.SendAlgorithmWithDebugInfos.OnPacketAcked(pn, bytes, prior, t)
	c.rec.Add(vtrace.Op{"ev": "Acked", "pn": int(pn), "prior": int(prior), "ss": ss, "cwnd": c.cw()})
}

func (c *vfCong) OnCongestionEvent(pn protocol.PacketNumber, lost, prior protocol.ByteCount) {
	c.SendAlgorithmWithDebugInfos.OnCongestionEvent(pn, lost, prior)
	c.rec.Add(vtrace.Op{"ev": "Lost", "pn": int(pn), "prior": int(prior), "cwnd": c.cw()})
}

func (c *vfCong) OnRetransmissionTimeout(r bool) {
	c.SendAlgorithmWithDebugInfos.OnRetransmissionTimeout(r)
	c.rec.Add(vtrace.Op{"ev": "Rto", "cwnd": c.cw()})
}

func (c *vfCong) SetMaxDatagramSize(s protocol.ByteCount) {
	c.SendAlgorithmWithDebugInfos.SetMaxDatagramSize(s)
	c.rec.Add(vtrace.Op{"ev": "Mtu", "mss": int(s), "cwnd": c.cw()})
}

func TestVerifC20H(t *testing.T) {
	cases := vtrace.LoadCases(t)
	vtrace.RunSharded(t, cases, func(t *testing.T, c vtrace.Case, rec *vtrace.Rec) {
		rtt := utils.NewRTTStats()
		mss := protocol.ByteCount(c.Cfg.Int("mss"))
		h := NewSentPacketHandler(0, mss, rtt, &utils.ConnectionStats{}, true, false, nil, protocol.PerspectiveClient, nil, utils.DefaultLogger).(*sentPacketHandler)
		h.DropPackets(protocol.EncryptionInitial, vfBase)
		h.DropPackets(protocol.EncryptionHandshake, vfBase)
		wrap := &vfCong{SendAlgorithmWithDebugInfos: h.congestion, rec: rec}
		h.congestion = wrap
		rec.Add(vtrace.Op{"ev": "Init", "mss": int(mss), "cwnd": wrap.cw()})
		now := vfBase
		var outstanding []protocol.PacketNumber
		mode := func() {
			m := h.SendMode(now)
			rec.Add(vtrace.Op{"ev": "CanSend", "inf": int(h.bytesInFlight), "ok": m == SendAny || m == SendPacingLimited, "cwnd": wrap.cw(), "mode": vfModeName(m)})
		}
		send := func(size protocol.ByteCount, ae bool) {
			pn := h.PopPacketNumber(protocol.Encryption1RTT)
			var frames []Frame
			if ae {
				frames = []Frame{{Frame: &wire.PingFrame{}}}
			}
			h.SentPacket(now, pn, protocol.InvalidPacketNumber, nil, frames, protocol.Encryption1RTT, protocol.ECNNon, size, false, false)
			if ae {
				outstanding = append(outstanding, pn)
			}
		}
		prune := func() { // whatever the handler no longer tracks is resolved
			tracked := map[protocol.PacketNumber]bool{}
			for pn := range h.appDataPackets.history.Packets() {
				tracked[pn] = true
			}
			var keep []protocol.PacketNumber
			for _, pn := range outstanding {
				if tracked[pn] {
					keep = append(keep, pn)
				}
			}
			outstanding = keep
		}
		mode()
		for _, op := range c.Ops {
			switch op.Str("op") {
			case "Tick":
				now = now.Add(time.Duration(op.Int("d")) * time.Microsecond)
			case "Send": // as the connection does: new data only in mode SendAny; probes in the PTO modes; ACKs otherwise
				for i := 0; i < op.Int("n"); i++ {
					m := h.SendMode(now)
					switch m {
					case SendAny:
						size := protocol.ByteCount(op.Int("size"))
						if size <= 0 || size > mss {
							size = mss
						}
						send(size, true)
					case SendPacingLimited:
						t := h.TimeUntilSend()
						if t.After(now) {
							now = t
						}
						continue
					case SendPTOAppData:
						send(mss, true)
					case SendAck:
						send(40, false)
						i = op.Int("n")
					default:
						i = op.Int("n")
					}
					mode()
				}
			case "Ack":
				if len(outstanding) == 0 {
					continue
				}
				// acknowledge a suffix / the newest / all but some: the patterns produce losses through reordering thresholds
				k := min(op.Int("k"), len(outstanding))
				skip := min(op.Int("skip"), len(outstanding)-k)
				hi := len(outstanding) - 1 - skip
				lo := hi - k + 1
				if k <= 0 || lo < 0 {
					continue
				}
				ack := &wire.AckFrame{AckRanges: []wire.AckRange{{Smallest: outstanding[lo], Largest: outstanding[hi]}}, DelayTime: 0}
				if _, err := h.ReceivedAck(ack, protocol.Encryption1RTT, now); err != nil {
					rec.Add(vtrace.Op{"ev": "Panic", "msg": "ReceivedAck: " + err.Error()})
					return
				}
				prune()
			case "Timeout":
				al := h.GetLossDetectionTimeout()
				if al.IsZero() {
					continue
				}
				if al.After(now) {
					now = al
				}
				if err := h.OnLossDetectionTimeout(now); err != nil {
					rec.Add(vtrace.Op{"ev": "Panic", "msg": "OnLossDetectionTimeout: " + err.Error()})
					return
				}
				prune()
			case "Mtu":
				m := protocol.ByteCount(op.Int("mss"))
				if m > mss {
					h.SetMaxDatagramSize(m)
					mss = m
				}
			}
			mode()
		}
	})
}
