SPECIFICATION Spec
CONSTANTS
  P = 4
  Off <- OffWide
  Limit0 = 6
  MaxGaps = 2
  Impl = "stream"
  Codes = {7}
INVARIANTS TypeOK DeliveredIsPrefix EOFOnlyAtFinal NeverBeyondFinal WithinLimit CryptoWithinLimit GapBound
PROPERTIES ResetAfterReliable ReadMonotone FinalStable
CHECK_DEADLOCK FALSE
