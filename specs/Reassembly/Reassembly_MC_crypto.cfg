SPECIFICATION Spec
CONSTANTS
  P = 4
  Off <- OffId
  Limit0 = 3
  MaxGaps = 2
  Impl = "crypto"
  Codes = {7}
INVARIANTS TypeOK DeliveredIsPrefix EOFOnlyAtFinal NeverBeyondFinal WithinLimit CryptoWithinLimit GapBound
PROPERTIES ResetAfterReliable ReadMonotone FinalStable
CHECK_DEADLOCK FALSE
