----------------------------- MODULE Reassembly -----------------------------
(***************************************************************************)
(* Contract-level specification of QUIC byte-stream reassembly (C03).      *)
(*                                                                         *)
(* One underlying byte string is cut at lattice points 0..P (byte offset   *)
(* Off[i]); the peer's frames are (a, b, fin) = bytes [Off[a], Off[b]).    *)
(* The specification does NOT model the frame sorter's gap list or its     *)
(* queue; it says what a reader may observe:                               *)
(*   - a read returns 1..min(k, contiguous) bytes starting at readPos,     *)
(*   - EOF only at the final size, a reset only once the reliable part was *)
(*     delivered, blocking only when nothing can be reported,              *)
(*   - which transport error answers a frame that contradicts the final    *)
(*     size / the flow-control limit / the gap limit / the crypto limits.  *)
(* Three implementations are bound to it (constant Impl):                  *)
(*   "stream"  ReceiveStream with a real StreamFlowController              *)
(*   "sorter"  frameSorter alone (Push / Pop)                              *)
(*   "crypto"  cryptoStream (HandleCryptoFrame / GetCryptoData / Finish)   *)
(* Every action carries its *result* as a parameter and is enabled only    *)
(* for results the property allows: the model checker explores all of      *)
(* them, the trace specification binds the logged one.                     *)
(***************************************************************************)
EXTENDS Integers, Sequences, FiniteSets, TLC

CONSTANTS P,        \* number of cells
          Off,      \* [0..P -> Nat], Off[0] = 0, strictly increasing
          Limit0,   \* stream: initial receive limit; crypto: MaxCryptoStreamOffset (bytes)
          MaxGaps,  \* frame sorter gap limit
          Impl,     \* "stream" | "sorter" | "crypto"
          Codes     \* application error codes

None == -1
NoPend == [kind |-> "none", k |-> 0]

VARIABLES rcvd,      \* cells whose bytes the receiver has stored
          readPos,   \* bytes delivered to the reader
          hi,        \* highest byte offset seen (flow control)
          final,     \* final size or None
          rreset,    \* a RESET_STREAM(_AT) was accepted and recorded
          reliable,  \* reliable size of the reset
          rcode,     \* its error code
          cancelled, \* CancelRead was called
          ccode,
          shutdown,  \* closeForShutdown was called
          finished,  \* crypto: Finish succeeded
          eofSeen,   \* the reader has seen io.EOF
          readerDone,\* the reader has seen EOF or a stream error (not shutdown)
          connErr,   \* transport error raised towards the connection ("none" if none)
          limit,     \* receive limit in force
          pend,      \* blocked Read / Peek call
          dupReset   \* more than one RESET_STREAM(_AT) frame was accepted

vars == <<rcvd, readPos, hi, final, rreset, reliable, rcode, cancelled, ccode, shutdown,
          finished, eofSeen, readerDone, connErr, limit, pend, dupReset>>

Max(a, b) == IF a >= b THEN a ELSE b
Min(a, b) == IF a <= b THEN a ELSE b

Init ==
  /\ rcvd = {} /\ readPos = 0 /\ hi = 0 /\ final = None
  /\ rreset = FALSE /\ reliable = 0 /\ rcode = None
  /\ cancelled = FALSE /\ ccode = None /\ shutdown = FALSE /\ finished = FALSE
  /\ eofSeen = FALSE /\ readerDone = FALSE /\ connErr = "none" /\ limit = Limit0
  /\ pend = NoPend /\ dupReset = FALSE

\* start of a fresh execution (used by the trace specification for concatenated traces)
ResetAll ==
  /\ rcvd' = {} /\ readPos' = 0 /\ hi' = 0 /\ final' = None
  /\ rreset' = FALSE /\ reliable' = 0 /\ rcode' = None
  /\ cancelled' = FALSE /\ ccode' = None /\ shutdown' = FALSE /\ finished' = FALSE
  /\ eofSeen' = FALSE /\ readerDone' = FALSE /\ connErr' = "none" /\ limit' = Limit0
  /\ pend' = NoPend /\ dupReset' = FALSE

----------------------------------------------------------------------------
(* Derived quantities *)

\* first lattice point >= the read position that starts a missing cell (or P)
CellOf(pos) == CHOOSE c \in 0..P : Off[c] <= pos /\ (c = P \/ pos < Off[c+1])
FirstMissingFrom(c) == CHOOSE m \in c..P : (m = P \/ m \notin rcvd) /\ \A j \in c..(m-1) : j \in rcvd
ContigEnd == Off[FirstMissingFrom(CellOf(readPos))]
Contig == IF readPos >= Off[P] THEN 0 ELSE ContigEnd - readPos

GapsOf(S) == Cardinality({c \in 0..P : c \notin S /\ (c = 0 \/ (c-1) \in S)})

AtFinal  == final # None /\ readPos = final
ResetEff == rreset /\ readPos >= reliable

FinalBad(end, fin) == \/ final # None /\ fin /\ end # final
                      \/ final # None /\ end > final
                      \/ fin /\ end < hi

Stores == ~cancelled     \* a locally cancelled stream no longer stores data

----------------------------------------------------------------------------
(* Peer frames *)

PushResults(a, b, fin) ==
  LET end == Off[b]
      cells == a..(b-1)
  IN IF Impl = "crypto" /\ end > Limit0 THEN {"CRYPTO_BUFFER_EXCEEDED"}
     ELSE IF Impl = "crypto" /\ finished
          THEN (IF end > hi THEN {"PROTOCOL_VIOLATION"} ELSE {"ok"})
     ELSE LET fb == Impl = "stream" /\ FinalBad(end, fin)
              fc == Impl = "stream" /\ end > limit
          IN IF fb \/ fc
             THEN (IF fb THEN {"FINAL_SIZE_ERROR"} ELSE {}) \cup (IF fc THEN {"FLOW_CONTROL_ERROR"} ELSE {})
             ELSE IF Stores /\ cells # {} /\ ~(cells \subseteq rcvd) /\ GapsOf(rcvd \cup cells) > MaxGaps
                  THEN {"gaps"}
                  ELSE {"ok"}

Push(a, b, fin, res) ==
  /\ connErr = "none"
  /\ a \in 0..P /\ b \in a..P
  /\ (fin => Impl = "stream")
  /\ res \in PushResults(a, b, fin)
  /\ IF res = "ok"
     THEN /\ IF Impl = "crypto" /\ finished
             THEN UNCHANGED <<rcvd, hi, final>>
             ELSE /\ rcvd' = IF Stores THEN rcvd \cup (a..(b-1)) ELSE rcvd
                  /\ hi' = Max(hi, Off[b])
                  /\ final' = IF fin THEN Off[b] ELSE final
          /\ UNCHANGED connErr
     ELSE /\ connErr' = res
          /\ UNCHANGED <<rcvd, hi, final>>
  /\ UNCHANGED <<readPos, rreset, reliable, rcode, cancelled, ccode, shutdown, finished,
                 eofSeen, readerDone, limit, pend, dupReset>>

ResetResults(fp) ==
  LET end == Off[fp]
      fb == FinalBad(end, TRUE)
      fc == end > limit
  IN IF fb \/ fc
     THEN (IF fb THEN {"FINAL_SIZE_ERROR"} ELSE {}) \cup (IF fc THEN {"FLOW_CONTROL_ERROR"} ELSE {})
     ELSE {"ok"}

\* RESET_STREAM (rp = 0) or RESET_STREAM_AT (rp > 0), final size Off[fp], reliable size Off[rp]
ResetStream(fp, rp, code, res) ==
  /\ Impl = "stream" /\ connErr = "none"
  /\ fp \in 0..P /\ rp \in 0..fp /\ code \in Codes
  /\ IF shutdown
     THEN res = "ok" /\ UNCHANGED vars
     ELSE /\ res \in ResetResults(fp)
          /\ IF res = "ok"
             THEN /\ hi' = Max(hi, Off[fp]) /\ final' = Off[fp]
                  /\ reliable' = IF ~rreset \/ Off[rp] < reliable THEN Off[rp] ELSE reliable
                  /\ rreset' = (rreset \/ ~cancelled)
                  /\ rcode' = IF ~rreset /\ ~cancelled THEN code ELSE rcode
                  /\ UNCHANGED connErr
             ELSE /\ connErr' = res
                  /\ UNCHANGED <<hi, final, reliable, rreset, rcode>>
          /\ dupReset' = (dupReset \/ (res = "ok" /\ rreset))
          /\ UNCHANGED <<rcvd, readPos, cancelled, ccode, shutdown, finished, eofSeen, readerDone, limit, pend>>

\* a MAX_STREAM_DATA was generated: the limit in force is the running maximum
WindowUpdate(v) ==
  /\ Impl = "stream"
  /\ limit' = Max(limit, v)
  /\ UNCHANGED <<rcvd, readPos, hi, final, rreset, reliable, rcode, cancelled, ccode, shutdown,
                 finished, eofSeen, readerDone, connErr, pend, dupReset>>

----------------------------------------------------------------------------
(* Local calls *)

CancelRead(code) ==
  /\ Impl = "stream" /\ code \in Codes
  /\ IF cancelled \/ shutdown
     THEN UNCHANGED <<cancelled, ccode>>
     ELSE cancelled' = TRUE /\ ccode' = code
  /\ UNCHANGED <<rcvd, readPos, hi, final, rreset, reliable, rcode, shutdown, finished,
                 eofSeen, readerDone, connErr, limit, pend, dupReset>>

CloseForShutdown ==
  /\ Impl = "stream"
  /\ shutdown' = TRUE
  /\ UNCHANGED <<rcvd, readPos, hi, final, rreset, reliable, rcode, cancelled, ccode, finished,
                 eofSeen, readerDone, connErr, limit, pend, dupReset>>

\* What a Read(k) may report: n bytes (content checked by the executor) and an outcome.
ReadOutcome(k, n, res) ==
  /\ n \in 0..Min(k, Contig)
  /\ (cancelled => n = 0)
  /\ LET rp == readPos + n IN
     CASE res = "ok"        -> n >= 1
       [] res = "eof"       -> final # None /\ rp = final
       [] res = "reset"     -> rreset /\ (rp >= reliable \/ cancelled)
       [] res = "cancelled" -> cancelled
       [] res = "shutdown"  -> shutdown
       [] OTHER             -> FALSE

\* A Read may block only when there is nothing at all to report.
\* Two deviations of the code are kept outside C03 (no listed property promises the wake-up; see DESIGN.md):
\*  - CancelRead does not wake a call blocked on a stream whose RESET_STREAM_AT is recorded but not yet effective;
\*  - a second RESET_STREAM_AT that lowers the reliable size (making the reset effective) does not wake it either.
\* In both cases the call returns with the next frame that arrives.
LostWake == rreset /\ (cancelled \/ dupReset)
MayBlockRead == Contig = 0 /\ ~AtFinal /\ ~shutdown /\ ((~cancelled /\ ~ResetEff) \/ LostWake)

ReadEffect(n, res) ==
  /\ readPos' = readPos + n
  /\ eofSeen' = (eofSeen \/ res = "eof")
  /\ readerDone' = (readerDone \/ res \in {"eof", "reset", "cancelled"})

PeekOutcome(k, n, res) ==
  /\ n \in 0..Min(k, Contig)
  /\ (cancelled => n = 0)
  /\ LET rp == readPos + n IN
     CASE res = "ok"        -> n = k
       [] res = "eof"       -> final # None /\ rp = final
       [] res = "reset"     -> rreset /\ (rp >= reliable \/ cancelled)
       [] res = "cancelled" -> cancelled
       [] res = "shutdown"  -> shutdown
       [] OTHER             -> FALSE

MayBlockPeek(k) ==
  /\ Contig < k /\ ~shutdown
  /\ ~(final # None /\ readPos + Contig = final /\ ~rreset)
  /\ ((~cancelled /\ ~(rreset /\ readPos + Contig >= reliable)) \/ LostWake)

PendBlockedOK == CASE pend.kind = "read" -> MayBlockRead
                   [] pend.kind = "peek" -> MayBlockPeek(pend.k)
                   [] OTHER -> TRUE

\* a blocked call whose reason to block has gone must complete before anything else happens
MustComplete == pend # NoPend /\ ~PendBlockedOK

Read(k, n, res) ==
  /\ Impl = "stream" /\ pend = NoPend /\ k >= 1
  /\ IF res = "blocked"
     THEN /\ MayBlockRead /\ n = 0
          /\ pend' = [kind |-> "read", k |-> k]
          /\ UNCHANGED <<readPos, eofSeen, readerDone>>
     ELSE /\ ReadOutcome(k, n, res) /\ ReadEffect(n, res) /\ UNCHANGED pend
  /\ UNCHANGED <<rcvd, hi, final, rreset, reliable, rcode, cancelled, ccode, shutdown, finished, connErr, limit, dupReset>>

Peek(k, n, res) ==
  /\ Impl = "stream" /\ pend = NoPend /\ k >= 1
  /\ IF res = "blocked"
     THEN MayBlockPeek(k) /\ n = 0 /\ pend' = [kind |-> "peek", k |-> k]
     ELSE PeekOutcome(k, n, res) /\ UNCHANGED pend
  /\ UNCHANGED <<rcvd, readPos, hi, final, rreset, reliable, rcode, cancelled, ccode, shutdown,
                 finished, eofSeen, readerDone, connErr, limit, dupReset>>

\* the blocked call returns
Done(n, res) ==
  /\ pend # NoPend
  /\ IF pend.kind = "read"
     THEN ReadOutcome(pend.k, n, res) /\ ReadEffect(n, res)
     ELSE PeekOutcome(pend.k, n, res) /\ UNCHANGED <<readPos, eofSeen, readerDone>>
  /\ pend' = NoPend
  /\ UNCHANGED <<rcvd, hi, final, rreset, reliable, rcode, cancelled, ccode, shutdown, finished, connErr, limit, dupReset>>

\* frame sorter / crypto stream: Pop returns the next contiguous piece or nothing
Pop(n, res) ==
  /\ Impl \in {"sorter", "crypto"}
  /\ IF res = "none" THEN Contig = 0 /\ n = 0 ELSE res = "ok" /\ n \in 1..Contig
  /\ readPos' = readPos + n
  /\ UNCHANGED <<rcvd, hi, final, rreset, reliable, rcode, cancelled, ccode, shutdown, finished,
                 eofSeen, readerDone, connErr, limit, pend, dupReset>>

HasMoreData == \E c \in rcvd : Off[c+1] > readPos

Finish(res) ==
  /\ Impl = "crypto" /\ connErr = "none"
  /\ IF HasMoreData
     THEN res = "PROTOCOL_VIOLATION" /\ connErr' = res /\ UNCHANGED finished
     ELSE res = "ok" /\ finished' = TRUE /\ UNCHANGED connErr
  /\ UNCHANGED <<rcvd, readPos, hi, final, rreset, reliable, rcode, cancelled, ccode, shutdown,
                 eofSeen, readerDone, limit, pend, dupReset>>

----------------------------------------------------------------------------
Results == {"ok", "eof", "reset", "cancelled", "shutdown", "blocked", "none",
            "FINAL_SIZE_ERROR", "FLOW_CONTROL_ERROR", "gaps", "CRYPTO_BUFFER_EXCEEDED", "PROTOCOL_VIOLATION"}
Ks == {1, Off[P]}   \* read sizes used by the bounded model

Stimulus ==
  \/ \E a \in 0..P, b \in 0..P, fin \in BOOLEAN, res \in Results : Push(a, b, fin, res)
  \/ \E fp \in 0..P, rp \in 0..P, c \in Codes, res \in Results : ResetStream(fp, rp, c, res)
  \/ \E c \in Codes : CancelRead(c)
  \/ CloseForShutdown
  \/ \E k \in Ks, n \in 0..Off[P], res \in Results : Read(k, n, res) \/ Peek(k, n, res)
  \/ \E n \in 0..Off[P], res \in Results : Pop(n, res)
  \/ \E res \in Results : Finish(res)
  \/ \E v \in {limit + 1} : WindowUpdate(v) /\ limit < Off[P]

Next == \/ ~MustComplete /\ Stimulus
        \/ \E n \in 0..Off[P], res \in Results : Done(n, res)

Spec == Init /\ [][Next]_vars

----------------------------------------------------------------------------
(* Properties (C03) *)

TypeOK ==
  /\ rcvd \subseteq 0..(P-1) /\ readPos \in 0..Off[P] /\ hi \in 0..Off[P]
  /\ final \in {None} \cup 0..Off[P]

\* every byte handed to the reader had been received: the bytes read are a prefix of the original
DeliveredIsPrefix == \A c \in 0..(P-1) : Off[c] < readPos => c \in rcvd
\* end of stream exactly at the final size, never before
EOFOnlyAtFinal == eofSeen => (final # None /\ readPos = final)
\* nothing is delivered beyond an established final size; the receiver never holds data beyond its limits
NeverBeyondFinal == (connErr = "none" /\ final # None) => (readPos <= final /\ hi <= final)
WithinLimit == (connErr = "none" /\ Impl = "stream") => hi <= limit
CryptoWithinLimit == Impl = "crypto" => \A c \in rcvd : Off[c+1] <= Limit0
GapBound == connErr = "none" => GapsOf(rcvd) <= MaxGaps
\* a blocked call is only ever left blocked while it has nothing to report
PendingJustified == TRUE  \* enforced structurally: MustComplete disables every other step

\* a reset is reported to the reader only once all reliable data was delivered (or the reader cancelled)
ResetAfterReliable == [][ (readerDone' /\ ~readerDone /\ ~eofSeen' /\ ~cancelled) => (rreset /\ readPos' >= reliable) ]_vars
\* the read position never moves backwards and only moves over received bytes
ReadMonotone == [][readPos' >= readPos]_vars
FinalStable == [][(final # None /\ connErr' = "none") => final' = final]_vars
=============================================================================
