--------------------------- MODULE Reassembly_Env ---------------------------
(* Stimulus alphabets of C03 (environment half of Reassembly).  Uniform      *)
(* records [op, a, b, c, f]; bin/props/c03.py maps them to named fields.     *)
EXTENDS SeqEnum
CONSTANTS P, Kind   \* Kind: "stream" | "streamlite" | "sorter" | "crypto"

O(op, a, b, c, f) == [op |-> op, a |-> a, b |-> b, c |-> c, f |-> f]

Pushes(fins) == { O("Push", a, b, 0, f) : a \in 0..P, b \in 0..P, f \in fins } 
PushOK(o) == o.a < o.b \/ (o.a = o.b /\ (o.f \/ o.a = 0))

StreamAlphabet ==
     { o \in Pushes({TRUE, FALSE}) : PushOK(o) }
  \cup { O("ResetStream", fp, rp, 7, FALSE) : fp \in 0..P, rp \in 0..P } 
  \cup { O("Cancel", 0, 0, 9, FALSE), O("Shutdown", 0, 0, 0, FALSE), O("WindowUpdate", 0, 0, 0, FALSE) }
  \cup { O("Read", k, 0, 0, FALSE) : k \in {1, 100, 1000} }
  \cup { O("Peek", k, 0, 0, FALSE) : k \in {1, 130} }

\* reduced alphabet for longer sequences: frames, reads, one reset of each kind
LiteAlphabet ==
     { o \in Pushes({TRUE, FALSE}) : o.a < o.b }
  \cup { O("ResetStream", P, 0, 7, FALSE), O("ResetStream", P - 1, 1, 7, FALSE), O("Cancel", 0, 0, 9, FALSE) }
  \cup { O("Read", k, 0, 0, FALSE) : k \in {1, 1000} }
  \cup { O("Peek", 130, 0, 0, FALSE) }

SorterAlphabet == { o \in Pushes({FALSE}) : o.a < o.b } \cup { O("Pop", 0, 0, 0, FALSE) }
CryptoAlphabet == SorterAlphabet \cup { O("Finish", 0, 0, 0, FALSE) }

Alphabet == CASE Kind = "stream" -> { o \in StreamAlphabet : o.op # "ResetStream" \/ o.b <= o.a }
              [] Kind = "streamlite" -> LiteAlphabet
              [] Kind = "sorter" -> SorterAlphabet
              [] Kind = "crypto" -> CryptoAlphabet

Init == EnumInit
Next == EnumNext(Alphabet)
Spec == Init /\ [][Next]_h
=============================================================================
