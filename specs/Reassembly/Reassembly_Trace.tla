-------------------------- MODULE Reassembly_Trace --------------------------
(* Validates NDJSON traces recorded from frameSorter / ReceiveStream /       *)
(* cryptoStream (harness/root/c03_test.go) against Reassembly.               *)
(* Each line is one call with its observed result; the line is accepted iff  *)
(* the specification's action is enabled for exactly that result.            *)
EXTENDS Reassembly, TraceLib

VARIABLES l,         \* next trace line
          diverged,  \* <<>> or the first line the specification does not allow
          released,  \* buffer ids released so far
          compl      \* stream-completion callbacks seen so far

tvars == <<vars, l, diverged, released, compl>>

Line == Trace[l]

ReleaseOK(rel) == /\ Cardinality(SeqToSet(rel)) = Len(rel)
                  /\ SeqToSet(rel) \cap released = {}

\* book-keeping common to every accepted line
Book == /\ Has(Line, "rel") => (ReleaseOK(Line.rel) /\ released' = released \cup SeqToSet(Line.rel))
        /\ ~Has(Line, "rel") => UNCHANGED released
        /\ compl' = Get(Line, "compl", compl)
        /\ compl' \in {compl, compl + 1}

Strict ==
  LET e == Line IN
  \/ /\ e.ev = "Reset"
     /\ ResetAll /\ released' = {} /\ compl' = 0
  \/ /\ e.ev = "Push" /\ ~MustComplete
     /\ Push(e.a, e.b, e.fin, e.res) /\ Book
  \/ /\ e.ev = "ResetStream" /\ ~MustComplete
     /\ ResetStream(e.fp, e.rp, e.code, e.res) /\ Book
  \/ /\ e.ev = "Cancel" /\ ~MustComplete
     /\ CancelRead(e.code) /\ Book
  \/ /\ e.ev = "Shutdown" /\ ~MustComplete
     /\ CloseForShutdown /\ Book
  \/ /\ e.ev = "WindowUpdate" /\ ~MustComplete
     /\ WindowUpdate(e.v) /\ Book
  \/ /\ e.ev = "Read" /\ ~MustComplete /\ e.cok
     /\ Read(e.k, e.n, e.res) /\ Book
     /\ (e.res = "reset" => e.code = rcode) /\ (e.res = "cancelled" => e.code = ccode)
  \/ /\ e.ev = "Peek" /\ ~MustComplete /\ e.cok
     /\ Peek(e.k, e.n, e.res) /\ Book
     /\ (e.res = "reset" => e.code = rcode) /\ (e.res = "cancelled" => e.code = ccode)
  \/ /\ e.ev = "Done" /\ e.cok
     /\ Done(e.n, e.res) /\ Book
     /\ (e.res = "reset" => e.code = rcode) /\ (e.res = "cancelled" => e.code = ccode)
  \/ /\ e.ev = "Pop" /\ e.cok /\ e.at
     /\ Pop(e.n, e.res) /\ Book
  \/ /\ e.ev = "Finish"
     /\ Finish(e.res) /\ Book

Step == /\ l <= TraceLen /\ diverged = <<>>
        /\ Strict /\ l' = l + 1 /\ UNCHANGED diverged

Diverge == /\ l <= TraceLen /\ diverged = <<>>
           /\ ~ENABLED Strict
           /\ diverged' = [line |-> l, ev |-> Line]
           /\ l' = TraceLen + 1
           /\ UNCHANGED <<vars, released, compl>>

TraceInit == Init /\ l = 1 /\ diverged = <<>> /\ released = {} /\ compl = 0
TraceNext == Step \/ Diverge
TraceSpec == TraceInit /\ [][TraceNext]_tvars

----------------------------------------------------------------------------
NoDivergence == diverged = <<>>
\* completion of the receive side is signalled exactly when the final size is known and the
\* reader is done with the stream (EOF / error seen, or cancelled) - judged in settled states
CompletionRule ==
  (Impl = "stream" /\ ~MustComplete /\ connErr = "none")
     => ((compl = 1) <=> (final # None /\ (cancelled \/ readerDone)))
CompletionOnce == compl <= 1
AllConsumed == l = TraceLen + 1
=============================================================================
