---------------------------- MODULE Reassembly_MC ----------------------------
EXTENDS Reassembly
OffId == [i \in 0..P |-> i]
OffWide == [i \in 0..P |-> 2*i]   \* two-byte cells: partial reads inside a cell
=============================================================================
