--------------------------- MODULE Reassembly_Sim ---------------------------
(* Model-guided stimulus generation: TLC -simulate walks the Reassembly       *)
(* specification (identity lattice) and records the stimuli of every step in  *)
(* the history variable h; the results chosen by the model are discarded - the *)
(* real code answers for itself and the trace specification judges it.        *)
EXTENDS Reassembly_MC, Json
CONSTANT D
VARIABLE h

O(op, a, b, c, f) == [op |-> op, a |-> a, b |-> b, c |-> c, f |-> f]
Rec(o) == h' = Append(h, o)

SimStimulus ==
  \/ \E a \in 0..P, b \in 0..P, fin \in BOOLEAN, res \in Results :
        Push(a, b, fin, res) /\ Rec(O("Push", a, b, 0, fin))
  \/ \E fp \in 0..P, rp \in 0..P, c \in Codes, res \in Results :
        ResetStream(fp, rp, c, res) /\ Rec(O("ResetStream", fp, rp, c, FALSE))
  \/ \E c \in Codes : CancelRead(c) /\ ~cancelled /\ Rec(O("Cancel", 0, 0, 9, FALSE))
  \/ CloseForShutdown /\ ~shutdown /\ Rec(O("Shutdown", 0, 0, 0, FALSE))
  \/ \E kk \in {1, 100, 1000}, n \in 0..Off[P], res \in Results :
        /\ Read(IF kk = 1 THEN 1 ELSE Off[P], n, res) /\ Rec(O("Read", kk, 0, 0, FALSE))
  \/ \E kk \in {1, 130}, n \in 0..Off[P], res \in Results :
        /\ Peek(IF kk = 1 THEN 1 ELSE Off[P], n, res) /\ Rec(O("Peek", kk, 0, 0, FALSE))
  \/ \E n \in 0..Off[P], res \in Results : Pop(n, res) /\ Rec(O("Pop", 0, 0, 0, FALSE))
  \/ \E res \in Results : Finish(res) /\ Rec(O("Finish", 0, 0, 0, FALSE))
  \/ WindowUpdate(limit + 1) /\ limit < Off[P] /\ Rec(O("WindowUpdate", 0, 0, 0, FALSE))

SimNext == \/ ~MustComplete /\ SimStimulus
           \/ \E n \in 0..Off[P], res \in Results : Done(n, res) /\ UNCHANGED h
SimSpec == Init /\ h = <<>> /\ [][SimNext]_<<vars, h>>
Emit == TLCGet("level") = D => PrintT(ToJson(h))
=============================================================================
