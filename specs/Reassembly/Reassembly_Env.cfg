SPECIFICATION Spec
CONSTANTS
  P = 4
  L = 2
  Kind = "stream"
INVARIANT Emit
CHECK_DEADLOCK FALSE
