--------------------------- MODULE StreamsMap_Trace ---------------------------
(* Validates traces recorded from the real streamsMap (harness/root/c15_test.go). *)
EXTENDS StreamsMap, TraceLib
VARIABLES l, diverged,
          settled,     \* the last line was a "Settled" marker: every goroutine of the execution is blocked or done
          refusedAt    \* limits at which a plain OpenStream was refused
tvars == <<vars, l, diverged, settled, refusedAt>>
Line == Trace[l]
NoFrames(e) == e.ms = <<>> /\ e.fr = <<>>

Event ==
  LET e == Line IN
  \/ e.ev = "Reset" /\ ResetAll
  \/ e.ev = "PeerIncoming" /\ ~MustServe /\ PeerIncoming(e.n, e.res) /\ NoFrames(e)
  \/ e.ev = "PeerOutgoing" /\ ~MustServe /\ PeerOutgoing(e.n, e.res) /\ NoFrames(e)
  \/ e.ev = "PeerWrongDirection" /\ ~MustServe /\ PeerWrongDirection(e.res) /\ NoFrames(e)
  \/ e.ev = "MaxStreams" /\ ~MustServe /\ MaxStreams(e.n, e.fr) /\ e.ms = <<>>
  \/ e.ev = "Open" /\ ~MustServe /\ Open(e.res, e.fr) /\ e.ms = <<>> /\ ~Has(e, "err")
  \/ e.ev = "OpenSync" /\ ~MustServe /\ OpenSync(e.c, e.res, e.fr) /\ e.ms = <<>>
  \/ e.ev = "Accept" /\ ~MustServe /\ Accept(e.c, e.res, e.ms) /\ e.fr = <<>>
  \/ e.ev = "CancelOpen" /\ CancelOpen(e.c)
  \/ e.ev = "CancelAccept" /\ CancelAccept(e.c)
  \/ e.ev = "CompleteIn" /\ ~MustServe /\ CompleteIn(e.n, e.res, e.ms) /\ e.fr = <<>>
  \/ e.ev = "CompleteOut" /\ ~MustServe /\ CompleteOut(e.n, e.res) /\ NoFrames(e)
  \/ e.ev = "Close" /\ ~MustServe /\ Close
  \/ e.ev = "Done" /\ e.kind = "open" /\ e.res >= 1 /\ ServeOpen(e.c, e.res, e.fr) /\ e.ms = <<>>
  \/ e.ev = "Done" /\ e.kind = "accept" /\ e.res >= 1 /\ ServeAccept(e.c, e.res, e.ms) /\ e.fr = <<>>
  \/ e.ev = "Done" /\ e.res = -2 /\ ClosedReturn(e.c)
  \/ e.ev = "Settled" /\ Quiet(e.fr) /\ e.ms = <<>>
Strict ==
  /\ Event
  /\ settled' = (Line.ev = "Settled")
  /\ refusedAt' = IF Line.ev = "Reset" THEN {}
                  ELSE IF Line.ev = "Open" /\ Line.res = 0 THEN refusedAt \cup {peerMax} ELSE refusedAt

Step == /\ l <= TraceLen /\ diverged = <<>>
        /\ Strict /\ l' = l + 1 /\ UNCHANGED diverged
Diverge == /\ l <= TraceLen /\ diverged = <<>> /\ ~ENABLED Strict
           /\ diverged' = [line |-> l, ev |-> Line] /\ l' = TraceLen + 1 /\ UNCHANGED <<vars, settled, refusedAt>>
TraceInit == Init /\ l = 1 /\ diverged = <<>> /\ settled = FALSE /\ refusedAt = {}
TraceNext == Step \/ Diverge
TraceSpec == TraceInit /\ [][TraceNext]_tvars
NoDivergence == diverged = <<>>
\* at the end of an execution (next line starts a new one, or the trace ends) no blocked call that could
\* have been served is left waiting
NoStarvedWaiter == (diverged = <<>> /\ (l > TraceLen \/ Trace[l].ev = "Reset")) => ~MustServe
\* "a STREAMS_BLOCKED is sent once per limit": at most once is part of every action (BlockedOK); at least once is judged
\* where the execution is quiescent, so that it does not matter which of two racing calls the harness attributes a frame to:
\* whoever is still waiting for credit, or was refused, at a limit has had that limit reported
BlockedReported ==
  (settled /\ diverged = <<>> /\ ~closed) => /\ (queue # <<>> => peerMax \in blockedAt)
                                             /\ refusedAt \subseteq blockedAt
=============================================================================
