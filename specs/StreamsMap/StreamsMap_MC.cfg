SPECIFICATION MSpec
CONSTANTS
  Limit = 2
  PeerMax0 = 1
  MaxN = 3
  Callers = {1, 2}
  Uni = TRUE
INVARIANTS IncomingBound LocalIDs AcceptInOrder
PROPERTIES CreditMonotone NextMonotone
CHECK_DEADLOCK FALSE
