---------------------------- MODULE StreamsMap_Env ----------------------------
(* Stimulus alphabet of C15. Uniform records [op, a, b]: a = ordinal / caller, b = frame variant. *)
EXTENDS SeqEnum
CONSTANTS N, IsUni
O(op, a, b) == [op |-> op, a |-> a, b |-> b]
Alphabet ==
       { O("PeerIncoming", n, k) : n \in 1..N, k \in {0} } \cup { O("PeerIncoming", N + 1, 1), O("PeerIncoming", 1, 2) }
  \cup { O("PeerOutgoing", n, 0) : n \in 1..2 }
  \cup (IF IsUni THEN { O("PeerWrongDirection", 1, k) : k \in 0..1 } ELSE {})
  \cup { O("MaxStreams", n, 0) : n \in 1..3 }
  \cup { O("MaxStreamsThenOpen", 2, 3), O("MaxStreamsThenCancel", 2, 1) }
  \cup { O("Open", 0, 0) }
  \cup { O("OpenSync", c, 0) : c \in 1..3 }
  \cup { O("Accept", 4, 0) }
  \cup { O("Cancel", c, 0) : c \in {1, 2, 4} }
  \cup { O("CompleteIn", n, 0) : n \in 1..2 } \cup { O("CompleteOut", 1, 0), O("Close", 0, 0) }
Init == EnumInit
Next == EnumNext(Alphabet)
Spec == Init /\ [][Next]_h
=============================================================================
