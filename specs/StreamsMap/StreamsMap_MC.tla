---------------------------- MODULE StreamsMap_MC ----------------------------
EXTENDS StreamsMap
Frs(allowed) == {<<>>} \cup { <<x>> : x \in allowed }
MNext ==
  \/ ~MustServe /\
     ( \/ \E n \in 1..MaxN, res \in {"ok", "STREAM_LIMIT_ERROR", "STREAM_STATE_ERROR"} : PeerIncoming(n, res) \/ PeerOutgoing(n, res)
       \/ \E res \in {"STREAM_STATE_ERROR"} : PeerWrongDirection(res)
       \/ \E n \in 0..MaxN, fr \in Frs(0..MaxN) : MaxStreams(n, fr)
       \/ \E res \in 0..MaxN, fr \in Frs(0..MaxN) : Open(res, fr)
       \/ \E c \in Callers, res \in -1..MaxN, fr \in Frs(0..MaxN) : OpenSync(c, res, fr)
       \/ \E c \in Callers : CancelOpen(c) \/ CancelAccept(c)
       \/ \E c \in Callers, res \in -1..MaxN, ms \in Frs(0..(MaxN + Limit)) : Accept(c, res, ms)
       \/ \E n \in 1..MaxN, res \in {"ok", "STREAM_STATE_ERROR"}, ms \in Frs(0..(MaxN + Limit)) : CompleteIn(n, res, ms)
       \/ \E n \in 1..MaxN, res \in {"ok", "STREAM_STATE_ERROR"} : CompleteOut(n, res)
       \/ Close )
  \/ \E c \in Callers, res \in 1..MaxN : ServeOpen(c, res, <<>>)
  \/ \E c \in Callers, res \in 1..MaxN, ms \in Frs(0..(MaxN + Limit)) : ServeAccept(c, res, ms)
  \/ \E c \in Callers : ClosedReturn(c)
MSpec == Init /\ [][MNext]_vars
\* liveness: a waiter is served once credit arrives (weak fairness on serving)
Fair == MSpec /\ WF_vars(\E c \in Callers, res \in 1..MaxN : ServeOpen(c, res, <<>>))
WaiterServed == \A c \in Callers : [](c \in Range(queue) /\ next <= peerMax /\ c = Head(queue) => <>(c \notin Range(queue)))
=============================================================================
