----------------------------- MODULE StreamsMap -----------------------------
(***************************************************************************)
(* Stream concurrency limits and stream-ID discipline of one endpoint for   *)
(* one stream type (C15).  Streams are named by their ordinal n = 1, 2, ... *)
(* within their class; the executor maps ordinals to stream IDs.            *)
(*   incoming class: streams the peer opens, limited by what we advertise   *)
(*   outgoing class: streams we open, limited by what the peer advertises   *)
(* Results observed on the implementation are action parameters.            *)
(***************************************************************************)
EXTENDS Integers, Sequences, FiniteSets, TLC

CONSTANTS Limit,     \* configured maximum of concurrently open incoming streams
          PeerMax0,  \* peer's initial limit on streams we open
          MaxN,      \* ordinals used by the bounded environment
          Callers,   \* identities of blocked API callers
          Uni        \* TRUE for unidirectional streams (direction rules apply)

None == 0
VARIABLES opened,     \* highest incoming ordinal the peer has opened
          accepted,   \* number of incoming streams returned by Accept so far
          live,       \* incoming ordinals occupying a slot
          delPend,    \* completed but not yet accepted (keep their slot)
          advMax,     \* MAX_STREAMS advertised to the peer (ordinal count)
          next,       \* next outgoing ordinal to open
          peerMax,    \* peer's limit on our streams
          liveOut,    \* outgoing ordinals not yet completed
          queue,      \* OpenStreamSync callers waiting, in arrival order
          acceptQ,    \* Accept callers waiting (a set: no order is promised among them)
          blockedAt,  \* limits for which STREAMS_BLOCKED was sent
          closed,     \* connection closed
          err         \* transport error raised
vars == <<opened, accepted, live, delPend, advMax, next, peerMax, liveOut, queue, acceptQ, blockedAt, closed, err>>

Init == /\ opened = 0 /\ accepted = 0 /\ live = {} /\ delPend = {} /\ advMax = Limit
        /\ next = 1 /\ peerMax = PeerMax0 /\ liveOut = {} /\ queue = <<>> /\ acceptQ = {}
        /\ blockedAt = {} /\ closed = FALSE /\ err = "none"
ResetAll == /\ opened' = 0 /\ accepted' = 0 /\ live' = {} /\ delPend' = {} /\ advMax' = Limit
            /\ next' = 1 /\ peerMax' = PeerMax0 /\ liveOut' = {} /\ queue' = <<>> /\ acceptQ' = {}
            /\ blockedAt' = {} /\ closed' = FALSE /\ err' = "none"

Range(s) == { s[i] : i \in DOMAIN s }
\* credit after a slot was freed: everything opened so far plus the free slots
Credit(op, lv) == op + (Limit - Cardinality(lv))

\* blocked frames sent by a call: fr is a sequence of limits, each new
BlockedOK(fr, allowed) ==
  /\ Len(fr) <= 1
  /\ \A i \in DOMAIN fr : fr[i] \in allowed /\ fr[i] \notin blockedAt
NoteBlocked(fr) == blockedAt' = blockedAt \cup Range(fr)

----------------------------------------------------------------------------
(* Peer frames *)

\* a frame that names incoming stream n (STREAM, RESET_STREAM, STREAM_DATA_BLOCKED; for bidirectional
\* streams also MAX_STREAM_DATA / STOP_SENDING)
PeerIncoming(n, res) ==
  /\ err = "none" /\ ~closed /\ n >= 1
  /\ IF n > advMax
     THEN /\ res = "STREAM_LIMIT_ERROR" /\ err' = res
          /\ UNCHANGED <<opened, accepted, live, delPend, advMax, next, peerMax, liveOut, queue, acceptQ, blockedAt, closed>>
     ELSE /\ res = "ok"
          /\ opened' = IF n > opened THEN n ELSE opened
          /\ live' = live \cup ((opened + 1)..n)
          /\ UNCHANGED <<accepted, delPend, advMax, next, peerMax, liveOut, queue, acceptQ, blockedAt, closed, err>>

\* a frame that names one of our own streams (ordinal n of the outgoing class)
PeerOutgoing(n, res) ==
  /\ err = "none" /\ ~closed /\ n >= 1
  /\ IF n >= next
     THEN res = "STREAM_STATE_ERROR" /\ err' = res      \* the peer refers to a stream we never opened
     ELSE res = "ok" /\ UNCHANGED err
  /\ UNCHANGED <<opened, accepted, live, delPend, advMax, next, peerMax, liveOut, queue, acceptQ, blockedAt, closed>>

\* a frame in the wrong direction on a unidirectional stream (data towards the sender, or flow-control
\* / STOP_SENDING towards the receiver)
PeerWrongDirection(res) ==
  /\ Uni /\ err = "none" /\ ~closed
  /\ res = "STREAM_STATE_ERROR" /\ err' = res
  /\ UNCHANGED <<opened, accepted, live, delPend, advMax, next, peerMax, liveOut, queue, acceptQ, blockedAt, closed>>

\* MAX_STREAMS(n): fr = STREAMS_BLOCKED frames queued by the call
MaxStreams(n, fr) ==
  /\ ~closed
  /\ IF n <= peerMax
     THEN fr = <<>> /\ UNCHANGED vars                     \* not an increase: nothing happens
     ELSE /\ peerMax' = n
          /\ BlockedOK(fr, {n}) /\ NoteBlocked(fr)
          /\ (fr # <<>> => Len(queue) > n - (next - 1))   \* only if the new limit still does not cover the waiters
          /\ UNCHANGED <<opened, accepted, live, delPend, advMax, next, liveOut, queue, acceptQ, closed, err>>

----------------------------------------------------------------------------
(* Local calls *)

\* OpenStream(): res = ordinal opened, or 0 for "too many open streams"
Open(res, fr) ==
  /\ ~closed
  /\ IF queue = <<>> /\ next <= peerMax
     THEN /\ res = next /\ fr = <<>> /\ next' = next + 1 /\ liveOut' = liveOut \cup {next}
          /\ UNCHANGED <<opened, accepted, live, delPend, advMax, peerMax, queue, acceptQ, blockedAt, closed, err>>
     ELSE /\ res = 0
          /\ BlockedOK(fr, {peerMax}) /\ NoteBlocked(fr)
          /\ UNCHANGED <<opened, accepted, live, delPend, advMax, next, peerMax, liveOut, queue, acceptQ, closed, err>>

\* OpenStreamSync by caller c: opens at once, or joins the queue (res = -1: blocked)
OpenSync(c, res, fr) ==
  /\ ~closed /\ c \notin Range(queue) /\ c \notin acceptQ
  /\ IF queue = <<>> /\ next <= peerMax
     THEN /\ res = next /\ fr = <<>> /\ next' = next + 1 /\ liveOut' = liveOut \cup {next}
          /\ UNCHANGED <<opened, accepted, live, delPend, advMax, peerMax, queue, acceptQ, blockedAt, closed, err>>
     ELSE /\ res = -1 /\ queue' = Append(queue, c)
          /\ BlockedOK(fr, {peerMax}) /\ NoteBlocked(fr)
          /\ UNCHANGED <<opened, accepted, live, delPend, advMax, next, peerMax, liveOut, acceptQ, closed, err>>

\* the head of the queue is served once credit is there (a blocked call returns)
\* fr: STREAMS_BLOCKED frames seen since the previous event (a caller that arrived behind the waiters reports the limit)
ServeOpen(c, res, fr) ==
  /\ ~closed /\ queue # <<>> /\ c = Head(queue) /\ next <= peerMax
  /\ res = next /\ next' = next + 1 /\ liveOut' = liveOut \cup {next}
  /\ queue' = Tail(queue)
  /\ BlockedOK(fr, {peerMax}) /\ NoteBlocked(fr)
  /\ UNCHANGED <<opened, accepted, live, delPend, advMax, peerMax, acceptQ, closed, err>>

\* nothing moves any more; fr: STREAMS_BLOCKED frames that turned up since the last event
Quiet(fr) ==
  /\ BlockedOK(fr, {peerMax}) /\ NoteBlocked(fr)
  /\ UNCHANGED <<opened, accepted, live, delPend, advMax, next, peerMax, liveOut, queue, acceptQ, closed, err>>

\* a waiting caller's context is cancelled
CancelOpen(c) ==
  /\ c \in Range(queue)
  /\ queue' = SelectSeq(queue, LAMBDA x : x # c)
  /\ UNCHANGED <<opened, accepted, live, delPend, advMax, next, peerMax, liveOut, acceptQ, blockedAt, closed, err>>

\* after an accept / delete the slot count may allow more credit: ms = MAX_STREAMS values queued by the call
FreeSlot(n, ms) ==
  /\ live' = live \ {n} /\ delPend' = delPend \ {n}
  /\ LET cr == Credit(opened, live \ {n})
     IN /\ ms = <<cr>>                 \* credit is announced when a stream fully completes
        /\ cr >= advMax                \* never decreases
        /\ advMax' = cr

\* AcceptStream by caller c: res = ordinal returned or -1 (blocked)
Accept(c, res, ms) ==
  /\ ~closed /\ c \notin acceptQ /\ c \notin Range(queue)
  /\ IF accepted + 1 <= opened /\ acceptQ = {}
     THEN /\ res = accepted + 1 /\ accepted' = accepted + 1
          /\ IF (accepted + 1) \in delPend
             THEN FreeSlot(accepted + 1, ms)
             ELSE ms = <<>> /\ UNCHANGED <<live, delPend, advMax>>
          /\ UNCHANGED <<opened, next, peerMax, liveOut, queue, acceptQ, blockedAt, closed, err>>
     ELSE /\ accepted + 1 > opened                     \* a stream that is there is never withheld
          /\ res = -1 /\ ms = <<>> /\ acceptQ' = acceptQ \cup {c}
          /\ UNCHANGED <<opened, accepted, live, delPend, advMax, next, peerMax, liveOut, queue, blockedAt, closed, err>>

\* a blocked Accept returns the next stream
ServeAccept(c, res, ms) ==
  /\ ~closed /\ c \in acceptQ /\ accepted + 1 <= opened
  /\ res = accepted + 1 /\ accepted' = accepted + 1 /\ acceptQ' = acceptQ \ {c}
  /\ IF (accepted + 1) \in delPend
     THEN FreeSlot(accepted + 1, ms)
     ELSE ms = <<>> /\ UNCHANGED <<live, delPend, advMax>>
  /\ UNCHANGED <<opened, next, peerMax, liveOut, queue, blockedAt, closed, err>>

CancelAccept(c) ==
  /\ c \in acceptQ /\ acceptQ' = acceptQ \ {c}
  /\ UNCHANGED <<opened, accepted, live, delPend, advMax, next, peerMax, liveOut, queue, blockedAt, closed, err>>

\* incoming stream n has fully completed (both directions done / reset handled)
CompleteIn(n, res, ms) ==
  /\ err = "none"
  /\ IF n \notin live \/ n \in delPend
     THEN /\ res = "STREAM_STATE_ERROR" /\ ms = <<>> /\ err' = res
          /\ UNCHANGED <<opened, accepted, live, delPend, advMax, next, peerMax, liveOut, queue, acceptQ, blockedAt, closed>>
     ELSE /\ res = "ok"
          /\ IF n > accepted
             THEN ms = <<>> /\ delPend' = delPend \cup {n} /\ UNCHANGED <<live, advMax>>   \* keeps its slot until accepted
             ELSE FreeSlot(n, ms)
          /\ UNCHANGED <<opened, accepted, next, peerMax, liveOut, queue, acceptQ, blockedAt, closed, err>>

CompleteOut(n, res) ==
  /\ err = "none"
  /\ IF n \in liveOut
     THEN res = "ok" /\ liveOut' = liveOut \ {n} /\ UNCHANGED err
     ELSE res = "STREAM_STATE_ERROR" /\ err' = res /\ UNCHANGED liveOut
  /\ UNCHANGED <<opened, accepted, live, delPend, advMax, next, peerMax, queue, acceptQ, blockedAt, closed>>

\* the connection closes: every waiter returns the error (observed as Done lines with res = -2)
Close ==
  /\ ~closed /\ closed' = TRUE
  /\ UNCHANGED <<opened, accepted, live, delPend, advMax, next, peerMax, liveOut, queue, acceptQ, blockedAt, err>>
ClosedReturn(c) ==
  /\ closed /\ (c \in Range(queue) \/ c \in acceptQ)
  /\ queue' = SelectSeq(queue, LAMBDA x : x # c) /\ acceptQ' = acceptQ \ {c}
  /\ UNCHANGED <<opened, accepted, live, delPend, advMax, next, peerMax, liveOut, blockedAt, closed, err>>

\* a blocked call whose reason to block is gone must return before anything else happens
MustServe == \/ (~closed /\ queue # <<>> /\ next <= peerMax)
             \/ (~closed /\ acceptQ # {} /\ accepted + 1 <= opened)
             \/ (closed /\ (queue # <<>> \/ acceptQ # {}))

----------------------------------------------------------------------------
(* Properties *)
IncomingBound == Cardinality(live) <= Limit /\ opened <= advMax
LocalIDs == next - 1 <= peerMax /\ \A n \in liveOut : n < next          \* never beyond the peer's limit
AcceptInOrder == accepted <= opened /\ \A n \in delPend : n > accepted /\ n \in live
CreditMonotone == [][advMax' >= advMax]_vars
NextMonotone == [][next' >= next /\ accepted' >= accepted]_vars
=============================================================================
