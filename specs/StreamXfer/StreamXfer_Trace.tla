--------------------------- MODULE StreamXfer_Trace ---------------------------
(* Validates API-level traces of whole connections (harness/root/c01_test.go). *)
EXTENDS StreamXfer, TraceLib
VARIABLES l, diverged
tvars == <<avars, l, diverged>>
Line == Trace[l]
Strict ==
  LET e == Line IN
  \/ e.ev = "Reset" /\ AReset
  \/ e.ev = "WriteStart" /\ WriteStart(e.s, e.n)
  \/ e.ev = "WriteEnd" /\ WriteEnd(e.s, e.n, e.ok)
  \/ e.ev = "CloseW" /\ CloseW(e.s)
  \/ e.ev = "Read" /\ Read(e.s, e.n, e.cok, e.res)
  \/ e.ev = "DgramSend" /\ DgramSend(e.id)
  \/ e.ev = "DgramRecv" /\ e.id \in DgramIds /\ DgramRecv(e.id, e.intact)
  \/ e.ev = "ConnError" /\ ConnError(e.side)
  \/ e.ev = "End" /\ End
Step == /\ l <= TraceLen /\ diverged = <<>>
        /\ Strict /\ l' = l + 1 /\ UNCHANGED diverged
Diverge == /\ l <= TraceLen /\ diverged = <<>> /\ ~ENABLED Strict
           /\ diverged' = [line |-> l, ev |-> Line] /\ l' = TraceLen + 1 /\ UNCHANGED avars
TraceInit == AInit /\ l = 1 /\ diverged = <<>>
TraceNext == Step \/ Diverge
TraceSpec == TraceInit /\ [][TraceNext]_tvars
NoDivergence == diverged = <<>>
=============================================================================
