----------------------------- MODULE StreamXfer -----------------------------
(***************************************************************************)
(* End-to-end stream and datagram transfer as seen at the two APIs (C01).   *)
(* API level: what writers offered, what readers got.  The module           *)
(* StreamXfer_Net refines it with an explicit lossy / duplicating /         *)
(* reordering network and retransmission and is what TLC explores           *)
(* exhaustively (safety + completion under fairness); recorded executions   *)
(* of the real stack are validated against the API-level actions here.      *)
(***************************************************************************)
EXTENDS Integers, Sequences, FiniteSets, TLC

CONSTANTS Streams,   \* stream identities
          DgramIds   \* application datagram identities

VARIABLES offered,   \* [s -> bytes handed to Write so far (counted when the call starts)]
          accepted,  \* [s -> bytes Write has accepted (counted when the call returns)]
          closedW,   \* [s -> the writer called Close (counted when the call starts)]
          delivered, \* [s -> bytes the reader obtained]
          eof,       \* [s -> the reader saw end of stream]
          serr,      \* [s -> the reader or writer saw a stream / connection error]
          dsent,     \* datagram ids handed to SendDatagram
          drecv,     \* [id -> times delivered]
          connErr,   \* sides that reported a connection error
          ended      \* the execution was run to quiescence
avars == <<offered, accepted, closedW, delivered, eof, serr, dsent, drecv, connErr, ended>>

AInit == /\ offered = [s \in Streams |-> 0] /\ accepted = [s \in Streams |-> 0]
         /\ closedW = [s \in Streams |-> FALSE] /\ delivered = [s \in Streams |-> 0]
         /\ eof = [s \in Streams |-> FALSE] /\ serr = [s \in Streams |-> FALSE]
         /\ dsent = {} /\ drecv = [d \in DgramIds |-> 0] /\ connErr = {} /\ ended = FALSE
AReset == /\ offered' = [s \in Streams |-> 0] /\ accepted' = [s \in Streams |-> 0]
          /\ closedW' = [s \in Streams |-> FALSE] /\ delivered' = [s \in Streams |-> 0]
          /\ eof' = [s \in Streams |-> FALSE] /\ serr' = [s \in Streams |-> FALSE]
          /\ dsent' = {} /\ drecv' = [d \in DgramIds |-> 0] /\ connErr' = {} /\ ended' = FALSE

WriteStart(s, n) ==
  /\ ~closedW[s] /\ offered' = [offered EXCEPT ![s] = @ + n]
  /\ UNCHANGED <<accepted, closedW, delivered, eof, serr, dsent, drecv, connErr, ended>>
WriteEnd(s, n, ok) ==
  /\ accepted[s] + n <= offered[s]
  /\ accepted' = [accepted EXCEPT ![s] = @ + n]
  /\ serr' = [serr EXCEPT ![s] = @ \/ ~ok]
  /\ UNCHANGED <<offered, closedW, delivered, eof, dsent, drecv, connErr, ended>>
CloseW(s) ==
  /\ closedW' = [closedW EXCEPT ![s] = TRUE]
  /\ UNCHANGED <<offered, accepted, delivered, eof, serr, dsent, drecv, connErr, ended>>
\* the reader obtained n bytes whose content matched the original at positions delivered..delivered+n (cok),
\* res = "ok" | "eof" | "err"
Read(s, n, cok, res) ==
  /\ cok                                                    \* bytes are exactly the written ones, in order
  /\ delivered[s] + n <= offered[s]                         \* a prefix of what was written
  /\ ~eof[s]
  /\ delivered' = [delivered EXCEPT ![s] = @ + n]
  /\ (res = "eof" => closedW[s] /\ delivered[s] + n = offered[s])   \* end of stream only after all of them
  /\ eof' = [eof EXCEPT ![s] = (res = "eof")]
  /\ serr' = [serr EXCEPT ![s] = @ \/ res = "err"]
  /\ UNCHANGED <<offered, accepted, closedW, dsent, drecv, connErr, ended>>
DgramSend(d) ==
  /\ dsent' = dsent \cup {d}
  /\ UNCHANGED <<offered, accepted, closedW, delivered, eof, serr, drecv, connErr, ended>>
DgramRecv(d, intact) ==
  /\ intact /\ d \in dsent /\ drecv[d] = 0                  \* unmodified, at most once
  /\ drecv' = [drecv EXCEPT ![d] = 1]
  /\ UNCHANGED <<offered, accepted, closedW, delivered, eof, serr, dsent, connErr, ended>>
ConnError(side) ==
  /\ connErr' = connErr \cup {side}
  /\ UNCHANGED <<offered, accepted, closedW, delivered, eof, serr, dsent, drecv, ended>>
End ==
  /\ ended' = TRUE
  /\ UNCHANGED <<offered, accepted, closedW, delivered, eof, serr, dsent, drecv, connErr>>

----------------------------------------------------------------------------
ReadIsPrefix == \A s \in Streams : delivered[s] <= offered[s]
EOFAfterAll == \A s \in Streams : eof[s] => (closedW[s] /\ delivered[s] = offered[s])
DgramAtMostOnce == \A d \in DgramIds : drecv[d] <= 1 /\ (drecv[d] = 1 => d \in dsent)
\* writer closed and neither side reports an error => the reader obtains every byte
CompleteIfNoError ==
  ended => \A s \in Streams : (closedW[s] /\ ~serr[s] /\ connErr = {}) => (eof[s] /\ delivered[s] = accepted[s])
\* the faults of the enumerated schedules never keep the path dead for longer than the idle timeout:
\* all transfers complete, nobody reports an error
CompleteOnQuiescence ==
  ended => (connErr = {} /\ \A s \in Streams : closedW[s] => (eof[s] /\ ~serr[s] /\ delivered[s] = offered[s]))
=============================================================================
