SPECIFICATION NFair
CONSTANTS
  Streams = {1}
  DgramIds = {}
  N = 3
  MaxFaults = 2
CONSTRAINT NetBound
INVARIANTS ReadIsPrefix EOFAfterAll
PROPERTIES EventuallyComplete
CHECK_DEADLOCK FALSE
