--------------------------- MODULE StreamXfer_Net ---------------------------
(* One stream over a network that may lose, duplicate and reorder packets,     *)
(* with acknowledgement-driven retransmission: refines StreamXfer.  Bytes are  *)
(* positions 1..N; a packet carries a range [lo, hi] and possibly FIN.          *)
EXTENDS StreamXfer
CONSTANTS N,         \* bytes the writer will write in total
          MaxFaults  \* the network misbehaves at most this often
VARIABLES net,       \* set of packets in flight: [lo, hi, fin]
          rcvd,      \* byte positions the receiver holds
          finAt,     \* final size known to the receiver (0 = unknown)
          acked,     \* byte positions the sender knows to be received
          finAcked,
          faults
nvars == <<avars, net, rcvd, finAt, acked, finAcked, faults>>
S == CHOOSE s \in Streams : TRUE
Pkt(lo, hi, fin) == [lo |-> lo, hi |-> hi, fin |-> fin]
Contig == IF 1 \notin rcvd \/ delivered[S] >= N THEN delivered[S]
          ELSE CHOOSE k \in delivered[S]..N : (\A i \in 1..k : i \in rcvd) /\ (k = N \/ (k + 1) \notin rcvd)
NInit == AInit /\ net = {} /\ rcvd = {} /\ finAt = 0 /\ acked = {} /\ finAcked = FALSE /\ faults = 0
Write == /\ offered[S] < N /\ \E n \in 1..(N - offered[S]) : WriteStart(S, n) /\ UNCHANGED <<net, rcvd, finAt, acked, finAcked, faults>>
Accept == /\ accepted[S] < offered[S] /\ WriteEnd(S, offered[S] - accepted[S], TRUE) /\ UNCHANGED <<net, rcvd, finAt, acked, finAcked, faults>>
Close == /\ offered[S] = N /\ accepted[S] = N /\ ~closedW[S] /\ CloseW(S) /\ UNCHANGED <<net, rcvd, finAt, acked, finAcked, faults>>
\* (re)transmission of any unacknowledged range of accepted bytes; FIN rides on or after the last byte
Transmit == \E lo \in 1..(N + 1), hi \in 0..N, fin \in BOOLEAN :
  /\ (lo <= hi => hi <= accepted[S] /\ \E i \in lo..hi : i \notin acked)
  /\ (lo > hi => lo = hi + 1 /\ fin)
  /\ (fin => closedW[S] /\ hi = N /\ ~finAcked)
  /\ (lo <= hi \/ fin)
  /\ net' = net \cup {Pkt(lo, hi, fin)}
  /\ UNCHANGED <<avars, rcvd, finAt, acked, finAcked, faults>>
Lose == \E p \in net : faults < MaxFaults /\ net' = net \ {p} /\ faults' = faults + 1 /\ UNCHANGED <<avars, rcvd, finAt, acked, finAcked>>
\* delivery without removal models duplication (and any order of delivery is reordering)
Deliver(dup) == \E p \in net :
  /\ (dup => faults < MaxFaults)
  /\ net' = IF dup THEN net ELSE net \ {p}
  /\ faults' = IF dup THEN faults + 1 ELSE faults
  /\ rcvd' = rcvd \cup (p.lo..p.hi)
  /\ finAt' = IF p.fin THEN p.hi ELSE finAt
  /\ acked' = acked \cup (p.lo..p.hi)            \* the acknowledgement gets through (its loss = loss of a later packet)
  /\ finAcked' = (finAcked \/ p.fin)
  /\ UNCHANGED avars
ReadStep == \E n \in 0..N :
  /\ ~eof[S]
  /\ delivered[S] + n <= Contig
  /\ (n = 0 => finAt # 0 /\ delivered[S] = finAt)
  /\ Read(S, n, TRUE, IF finAt # 0 /\ delivered[S] + n = finAt THEN "eof" ELSE "ok")
  /\ UNCHANGED <<net, rcvd, finAt, acked, finAcked, faults>>
NNext == Write \/ Accept \/ Close \/ Transmit \/ Lose \/ Deliver(TRUE) \/ Deliver(FALSE) \/ ReadStep
NSpec == NInit /\ [][NNext]_nvars
\* fairness: the sender keeps retransmitting, the network keeps delivering, the reader keeps reading
NFair == NSpec /\ WF_nvars(Write) /\ WF_nvars(Accept) /\ WF_nvars(Close) /\ SF_nvars(Transmit /\ net = {}) /\ WF_nvars(Deliver(FALSE)) /\ WF_nvars(ReadStep)
EventuallyComplete == <>(eof[S] /\ delivered[S] = N)
NetBound == Cardinality(net) <= 3
=============================================================================
