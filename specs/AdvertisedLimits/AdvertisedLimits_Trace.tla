----------------------- MODULE AdvertisedLimits_Trace -----------------------
EXTENDS AdvertisedLimits, TraceLib
VARIABLES l, diverged, fails, caseFailed
cvars == <<lvars, l, diverged, fails, caseFailed>>
Line == Trace[l]
MapOf(m) == [k \in Kinds |-> IF k \in DOMAIN m THEN m[k] ELSE None]
Strict ==
  LET e == Line IN
  \/ e.ev = "Reset" /\ LReset
  \/ e.ev = "Adv" /\ Advertise(MapOf(e.adv))
  \/ e.ev = "Record" /\ Record(MapOf(e.rec))
  \/ e.ev = "Plan" /\ Plan(e.kind, e.n)
  \/ e.ev = "Use" /\ Use(e.kind, e.n)
  \/ e.ev = "ClientErr" /\ ClientError(e.err)
  \/ e.ev = "End" /\ End
  \/ e.ev = "Note" /\ UNCHANGED lvars
NextReset(j) == CHOOSE k \in (j + 1)..(TraceLen + 1) :
                  /\ (k = TraceLen + 1 \/ Trace[k].ev = "Reset")
                  /\ \A m \in (j + 1)..(k - 1) : Trace[m].ev # "Reset"
FirstBroken == IF ~NoErrorWithinAdvertised' THEN "NoErrorWithinAdvertised"
               ELSE IF ~LimitReachable' THEN "LimitReachable"
               ELSE IF ~RecordEqualsWire' THEN "RecordEqualsWire" ELSE "none"
Step == /\ l <= TraceLen
        /\ Strict /\ l' = l + 1 /\ UNCHANGED diverged
        /\ LET b == FirstBroken
               fresh == Line.ev = "Reset"
           IN /\ fails' = IF b # "none" /\ (fresh \/ ~caseFailed) THEN Append(fails, [line |-> l, inv |-> b]) ELSE fails
              /\ caseFailed' = ((~fresh /\ caseFailed) \/ b # "none")
Diverge == /\ l <= TraceLen /\ ~ENABLED Strict
           /\ fails' = IF caseFailed THEN fails ELSE Append(fails, [line |-> l, inv |-> "NoDivergence"])
           /\ caseFailed' = TRUE
           /\ l' = NextReset(l) /\ UNCHANGED <<lvars, diverged>>
TraceInit == LInit /\ l = 1 /\ diverged = <<>> /\ fails = <<>> /\ caseFailed = FALSE
TraceNext == Step \/ Diverge
TraceSpec == TraceInit /\ [][TraceNext]_cvars
Collected == (l = TraceLen + 1) => fails = <<>>
=============================================================================
