-------------------------- MODULE AdvertisedLimits --------------------------
(***************************************************************************)
(* A spec-driven client and the limits it put on the wire (C12).            *)
(* adv[k] is what the ClientHello's quic_transport_parameters advertise     *)
(* (read from the wire by the independent observer), used[k] is how much of  *)
(* limit k a conformant peer has consumed.  The peer never goes beyond       *)
(* adv[k]; the client must not raise a local error while that holds, the     *)
(* peer must be able to reach adv[k], and the client's own record of its     *)
(* parameters equals the wire.                                               *)
(***************************************************************************)
EXTENDS Integers, Sequences, FiniteSets, TLC

Kinds == {"stream_uni", "stream_bidi_local", "stream_bidi_remote", "conn", "streams_uni", "streams_bidi",
          "cids", "cids_rpt", "datagram", "idle"}
CONSTANT MaxV   \* bound of the model's value domain
None == -1
VARIABLES adv,      \* [Kinds -> value advertised] (None until the ClientHello was seen)
          used,     \* [Kinds -> amount the peer has used]
          target,   \* the limit the scenario exercises and the amount the peer wants to reach
          cerr,     \* local error raised by the client ("" if none)
          record,   \* the client's own record of its parameters (None if not observed)
          ended
lvars == <<adv, used, target, cerr, record, ended>>

LInit == /\ adv = [k \in Kinds |-> None] /\ used = [k \in Kinds |-> 0] /\ target = <<"none", 0>>
         /\ cerr = "" /\ record = [k \in Kinds |-> None] /\ ended = FALSE
LReset == /\ adv' = [k \in Kinds |-> None] /\ used' = [k \in Kinds |-> 0] /\ target' = <<"none", 0>>
          /\ cerr' = "" /\ record' = [k \in Kinds |-> None] /\ ended' = FALSE

Advertise(a) == /\ adv' = a /\ UNCHANGED <<used, target, cerr, record, ended>>
Record(r) == /\ record' = r /\ UNCHANGED <<adv, used, target, cerr, ended>>
\* the scenario: the peer will use limit k up to amount n (n <= adv[k]: the peer is conformant)
Plan(k, n) == /\ k \in Kinds /\ n <= adv[k] /\ target' = <<k, n>> /\ UNCHANGED <<adv, used, cerr, record, ended>>
\* the peer has used limit k up to n in total
Use(k, n) == /\ n <= adv[k] /\ n >= used[k] /\ used' = [used EXCEPT ![k] = n]
             /\ UNCHANGED <<adv, target, cerr, record, ended>>
ClientError(e) == /\ cerr' = e /\ UNCHANGED <<adv, used, target, record, ended>>
End == /\ ended' = TRUE /\ UNCHANGED <<adv, used, target, cerr, record>>

\* the client never raises a locally generated error against a peer that stays within what was advertised
NoErrorWithinAdvertised == cerr = ""
\* a peer relying on the advertised value can use it to the full
LimitReachable == (ended /\ cerr = "") => (target[1] = "none" \/ used[target[1]] = target[2])
\* the connection's own record of its parameters equals the bytes it sent
RecordEqualsWire == \A k \in Kinds : (record[k] # None /\ adv[k] # None) => record[k] = adv[k]
=============================================================================
