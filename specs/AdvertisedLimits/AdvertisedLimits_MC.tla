------------------------ MODULE AdvertisedLimits_MC ------------------------
(* Bounded model: a client that enforces exactly what it advertises, and a peer that uses a limit step by step. *)
EXTENDS AdvertisedLimits
VARIABLE enforced
mvars == <<lvars, enforced>>
Vals == 0..MaxV
MInit == LInit /\ enforced = [k \in Kinds |-> None]
MNext ==
  \/ /\ adv["conn"] = None /\ \E v \in Vals : Advertise([k \in Kinds |-> v]) /\ enforced' = [k \in Kinds |-> v]
  \/ /\ adv["conn"] # None /\ target[1] = "none" /\ \E k \in {"conn", "streams_uni"}, n \in Vals : Plan(k, n) /\ UNCHANGED enforced
  \/ /\ target[1] # "none" /\ cerr = "" /\ ~ended /\ used[target[1]] < target[2]
     /\ LET k == target[1] IN
        IF used[k] + 1 <= enforced[k] THEN Use(k, used[k] + 1) ELSE ClientError("limit")
     /\ UNCHANGED enforced
  \/ /\ target[1] # "none" /\ (used[target[1]] = target[2] \/ cerr # "") /\ ~ended /\ End /\ UNCHANGED enforced
  \/ /\ adv["conn"] # None /\ record["conn"] = None /\ Record(enforced) /\ UNCHANGED enforced
MSpec == MInit /\ [][MNext]_mvars
=============================================================================
