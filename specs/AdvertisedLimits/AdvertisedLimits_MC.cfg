SPECIFICATION MSpec
CONSTANT MaxV = 3
INVARIANTS NoErrorWithinAdvertised LimitReachable RecordEqualsWire
CHECK_DEADLOCK FALSE
