-------------------------- MODULE FlowControl_Trace --------------------------
EXTENDS FlowControl, TraceLib
VARIABLES l, diverged
tvars == <<fvars, l, diverged>>
Line == Trace[l]
Strict ==
  LET e == Line IN
  \/ e.ev = "Reset" /\ FReset
  \/ e.ev = "Recv" /\ Recv(e.s, e.off, e.fin, e.res) /\ e.cr = cread
  \/ e.ev = "Consume" /\ Consume(e.s, e.n, e.cr)
  \/ e.ev = "Abandon" /\ Abandon(e.s, e.cr)
  \* the window size is logged by the in-package harness; at the stream level it is what the advertised value implies
  \/ e.ev = "StreamUpdate" /\ StreamUpdate(e.s, e.v, Get(e, "w", IF e.v = 0 THEN win[e.s] ELSE e.v - read[e.s]))
  \/ e.ev = "ConnUpdate" /\ ConnUpdate(e.v, Get(e, "w", IF e.v = 0 THEN cwin ELSE e.v - cread))
  \* receive-stream tier: the answer to a frame, and the end of the execution (streams reported complete are fully credited)
  \/ e.ev = "Frame" /\ Accounted(e.s, e.off, e.fin, e.res) /\ e.cr = cread /\ UNCHANGED fvars
  \/ e.ev = "End" /\ (\A s \in SeqToSet(e.done) : read[s] = hi[s]) /\ UNCHANGED fvars
  \/ e.ev = "Send" /\ Send(e.s, e.n, e.sw)
  \/ e.ev = "MaxStreamData" /\ MaxStreamData(e.s, e.v)
  \/ e.ev = "MaxData" /\ MaxData(e.v)
  \/ e.ev = "StreamBlocked" /\ StreamBlocked(e.s, e.b)
  \/ e.ev = "ConnBlocked" /\ ConnBlocked(e.b, e.at)
Step == /\ l <= TraceLen /\ diverged = <<>>
        /\ Strict /\ l' = l + 1 /\ UNCHANGED diverged
Diverge == /\ l <= TraceLen /\ diverged = <<>> /\ ~ENABLED Strict
           /\ diverged' = [line |-> l, ev |-> Line] /\ l' = TraceLen + 1 /\ UNCHANGED fvars
TraceInit == FInit /\ l = 1 /\ diverged = <<>>
TraceNext == Step \/ Diverge
TraceSpec == TraceInit /\ [][TraceNext]_tvars
NoDivergence == diverged = <<>>
=============================================================================
