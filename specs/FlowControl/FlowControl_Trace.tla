-------------------------- MODULE FlowControl_Trace --------------------------
EXTENDS FlowControl, TraceLib
VARIABLES l, diverged
tvars == <<fvars, l, diverged>>
Line == Trace[l]
Strict ==
  LET e == Line IN
  \/ e.ev = "Reset" /\ FReset
  \/ e.ev = "Recv" /\ Recv(e.s, e.off, e.fin, e.res) /\ e.cr = cread
  \/ e.ev = "Consume" /\ Consume(e.s, e.n, e.cr)
  \/ e.ev = "Abandon" /\ Abandon(e.s, e.cr)
  \/ e.ev = "StreamUpdate" /\ StreamUpdate(e.s, e.v, e.w)
  \/ e.ev = "ConnUpdate" /\ ConnUpdate(e.v, e.w)
  \/ e.ev = "Send" /\ Send(e.s, e.n, e.sw)
  \/ e.ev = "MaxStreamData" /\ MaxStreamData(e.s, e.v)
  \/ e.ev = "MaxData" /\ MaxData(e.v)
  \/ e.ev = "StreamBlocked" /\ StreamBlocked(e.s, e.b)
  \/ e.ev = "ConnBlocked" /\ ConnBlocked(e.b, e.at)
Step == /\ l <= TraceLen /\ diverged = <<>>
        /\ Strict /\ l' = l + 1 /\ UNCHANGED diverged
Diverge == /\ l <= TraceLen /\ diverged = <<>> /\ ~ENABLED Strict
           /\ diverged' = [line |-> l, ev |-> Line] /\ l' = TraceLen + 1 /\ UNCHANGED fvars
TraceInit == FInit /\ l = 1 /\ diverged = <<>>
TraceNext == Step \/ Diverge
TraceSpec == TraceInit /\ [][TraceNext]_tvars
NoDivergence == diverged = <<>>
=============================================================================
