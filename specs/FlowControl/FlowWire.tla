------------------------------- MODULE FlowWire -------------------------------
(* Wire tier of C04: the STREAM frames one endpoint receives, against the limits that    *)
(* endpoint itself put on the wire (transport parameters, MAX_STREAM_DATA, MAX_DATA).    *)
(* A conformant sender never sends a byte beyond the largest limit it can have seen.      *)
EXTENDS Integers, Sequences, FiniteSets, TLC, TraceLib
VARIABLES init,    \* initial limits by stream kind, and for the connection
          upd,     \* [stream id -> largest MAX_STREAM_DATA sent]
          cadv,    \* largest MAX_DATA sent (or the initial connection limit)
          hiS,     \* [stream id -> highest offset received]
          l, fails, caseFailed
wvars == <<init, upd, cadv, hiS, l, fails, caseFailed>>
Line == Trace[l]
Max(a, b) == IF a >= b THEN a ELSE b
Get0(f, k) == IF k \in DOMAIN f THEN f[k] ELSE 0
Put(f, k, v) == [x \in (DOMAIN f) \cup {k} |-> IF x = k THEN v ELSE f[x]]
Kind(sid) == CASE sid % 4 = 0 -> "bidi_local" [] sid % 4 = 1 -> "bidi_remote" [] sid % 4 = 3 -> "uni" [] OTHER -> "none"
Limit(sid) == Max(Get0(init, Kind(sid)), Get0(upd, sid))
SumHi(f) == LET RECURSIVE S(_)
                S(D) == IF D = {} THEN 0 ELSE LET x == CHOOSE y \in D : TRUE IN f[x] + S(D \ {x})
            IN S(DOMAIN f)
Empty == [x \in {} |-> 0]
Strict ==
  LET e == Line IN
  \/ e.ev = "Reset" /\ init' = Empty /\ upd' = Empty /\ cadv' = 0 /\ hiS' = Empty
  \/ e.ev = "AdvInit" /\ init' = e.adv /\ cadv' = e.adv.conn /\ UNCHANGED <<upd, hiS>>
  \/ e.ev = "TxMaxStreamData" /\ upd' = Put(upd, e.sid, Max(Get0(upd, e.sid), e.v)) /\ UNCHANGED <<init, cadv, hiS>>
  \/ e.ev = "TxMaxData" /\ cadv' = Max(cadv, e.v) /\ UNCHANGED <<init, upd, hiS>>
  \/ e.ev = "RxStream" /\ hiS' = Put(hiS, e.sid, Max(Get0(hiS, e.sid), e.end)) /\ UNCHANGED <<init, upd, cadv>>
  \/ e.ev \in {"Note", "End"} /\ UNCHANGED <<init, upd, cadv, hiS>>
\* the sender stayed within the per-stream and the connection limit
SendWithinAdvertised == (\A sid \in DOMAIN hiS : hiS[sid] <= Limit(sid)) /\ SumHi(hiS) <= cadv
NextReset(j) == CHOOSE k \in (j + 1)..(TraceLen + 1) :
                  /\ (k = TraceLen + 1 \/ Trace[k].ev = "Reset")
                  /\ \A m \in (j + 1)..(k - 1) : Trace[m].ev # "Reset"
Step == /\ l <= TraceLen /\ Strict /\ l' = l + 1
        /\ LET fresh == Line.ev = "Reset"
               bad == ~SendWithinAdvertised'
           IN /\ fails' = IF bad /\ (fresh \/ ~caseFailed) THEN Append(fails, [line |-> l, inv |-> "SendWithinAdvertised"]) ELSE fails
              /\ caseFailed' = ((~fresh /\ caseFailed) \/ bad)
Diverge == /\ l <= TraceLen /\ ~ENABLED Strict
           /\ fails' = IF caseFailed THEN fails ELSE Append(fails, [line |-> l, inv |-> "NoDivergence"])
           /\ caseFailed' = TRUE /\ l' = NextReset(l) /\ UNCHANGED <<init, upd, cadv, hiS>>
TraceInit == init = Empty /\ upd = Empty /\ cadv = 0 /\ hiS = Empty /\ l = 1 /\ fails = <<>> /\ caseFailed = FALSE
TraceSpec == TraceInit /\ [][Step \/ Diverge]_wvars
Collected == (l = TraceLen + 1) => fails = <<>>
=============================================================================
