----------------------------- MODULE FlowControl -----------------------------
(***************************************************************************)
(* QUIC flow control of several streams sharing one connection window (C04). *)
(* Receive side: what the endpoint has advertised (adv / cadv) is what it    *)
(* enforces; advertised limits never decrease and are only raised to         *)
(* "consumed + window"; every consumed or abandoned byte is credited to the   *)
(* connection exactly once.  Send side: new bytes stay within the largest     *)
(* limits received; "blocked" is reported at most once per limit.             *)
(* Observed results are action parameters.                                    *)
(***************************************************************************)
EXTENDS Integers, Sequences, FiniteSets, TLC

CONSTANTS Streams, W0, MaxW, CW0, CMaxW, SLim0, CSLim0

VARIABLES hi, read, adv, win, finalKnown,    \* per stream, receive side
          chi, cread, cadv, cwin,            \* connection, receive side
          sent, slim, sblockedAt,            \* per stream, send side
          csent, cslim, cblockedAt,          \* connection, send side
          err
fvars == <<hi, read, adv, win, finalKnown, chi, cread, cadv, cwin, sent, slim, sblockedAt, csent, cslim, cblockedAt, err>>

FInit == /\ hi = [s \in Streams |-> 0] /\ read = [s \in Streams |-> 0] /\ adv = [s \in Streams |-> W0]
         /\ win = [s \in Streams |-> W0] /\ finalKnown = [s \in Streams |-> FALSE]
         /\ chi = 0 /\ cread = 0 /\ cadv = CW0 /\ cwin = CW0
         /\ sent = [s \in Streams |-> 0] /\ slim = [s \in Streams |-> SLim0] /\ sblockedAt = [s \in Streams |-> -1]
         /\ csent = 0 /\ cslim = CSLim0 /\ cblockedAt = -1 /\ err = "none"
FReset == /\ hi' = [s \in Streams |-> 0] /\ read' = [s \in Streams |-> 0] /\ adv' = [s \in Streams |-> W0]
          /\ win' = [s \in Streams |-> W0] /\ finalKnown' = [s \in Streams |-> FALSE]
          /\ chi' = 0 /\ cread' = 0 /\ cadv' = CW0 /\ cwin' = CW0
          /\ sent' = [s \in Streams |-> 0] /\ slim' = [s \in Streams |-> SLim0] /\ sblockedAt' = [s \in Streams |-> -1]
          /\ csent' = 0 /\ cslim' = CSLim0 /\ cblockedAt' = -1 /\ err' = "none"

Max(a, b) == IF a >= b THEN a ELSE b
Min(a, b) == IF a <= b THEN a ELSE b

----------------------------------------------------------------------------
(* Receive side *)
FinalBad(s, off, fin) == \/ finalKnown[s] /\ fin /\ off # hi[s]
                         \/ finalKnown[s] /\ off > hi[s]
                         \/ fin /\ off < hi[s]
\* data up to offset off (final size if fin) arrives on stream s
Recv(s, off, fin, res) ==
  /\ err = "none"
  /\ LET inc == Max(0, off - hi[s])
         fb == FinalBad(s, off, fin)
         fc == off > adv[s] \/ chi + inc > cadv
     IN IF fb \/ fc
        THEN /\ res \in (IF fb THEN {"FINAL_SIZE_ERROR"} ELSE {}) \cup (IF fc THEN {"FLOW_CONTROL_ERROR"} ELSE {})
             /\ err' = res
             /\ UNCHANGED <<hi, chi, finalKnown>>
        ELSE /\ res = "ok"          \* everything within the advertised limits is accepted
             /\ hi' = [hi EXCEPT ![s] = Max(@, off)] /\ chi' = chi + inc
             /\ finalKnown' = [finalKnown EXCEPT ![s] = @ \/ fin]
             /\ UNCHANGED err
  /\ UNCHANGED <<read, adv, win, cread, cadv, cwin, sent, slim, sblockedAt, csent, cslim, cblockedAt>>

\* the application consumed n bytes of stream s; cr = connection-level bytes read reported afterwards
Consume(s, n, cr) ==
  /\ n >= 0 /\ read[s] + n <= hi[s]
  /\ read' = [read EXCEPT ![s] = @ + n] /\ cread' = cread + n /\ cr = cread'
  /\ UNCHANGED <<hi, adv, win, finalKnown, chi, cadv, cwin, sent, slim, sblockedAt, csent, cslim, cblockedAt, err>>

\* the stream is abandoned (reset / cancelled / closed early): everything received but unread is credited once
Abandon(s, cr) ==
  /\ read' = [read EXCEPT ![s] = hi[s]] /\ cread' = cread + (hi[s] - read[s]) /\ cr = cread'
  /\ UNCHANGED <<hi, adv, win, finalKnown, chi, cadv, cwin, sent, slim, sblockedAt, csent, cslim, cblockedAt, err>>

\* a MAX_STREAM_DATA value is asked for: v = 0 means "nothing to send"; w = window size afterwards
StreamUpdate(s, v, w) ==
  /\ IF v = 0
     THEN w = win[s] /\ UNCHANGED <<adv, win>>
     ELSE /\ ~finalKnown[s]
          /\ w >= win[s] /\ w <= Max(win[s], MaxW)           \* the window may grow (auto-tuning), never beyond its maximum
          /\ v = read[s] + w                                 \* raised to consumed + window
          /\ v >= adv[s]                                     \* never decreases
          /\ adv' = [adv EXCEPT ![s] = v] /\ win' = [win EXCEPT ![s] = w]
  /\ UNCHANGED <<hi, read, finalKnown, chi, cread, cadv, cwin, sent, slim, sblockedAt, csent, cslim, cblockedAt, err>>

\* a MAX_DATA value is asked for.  The connection window may also have been pulled up by a stream's
\* auto-tuning in between (w >= cwin), never beyond its maximum.
ConnUpdate(v, w) ==
  /\ IF v = 0
     THEN w >= cwin /\ w <= Max(cwin, CMaxW) /\ cwin' = w /\ UNCHANGED cadv
     ELSE /\ w >= cwin /\ w <= Max(cwin, CMaxW)
          /\ v = cread + w /\ v >= cadv
          /\ cadv' = v /\ cwin' = w
  /\ UNCHANGED <<hi, read, adv, win, finalKnown, chi, cread, sent, slim, sblockedAt, csent, cslim, cblockedAt, err>>

\* what a frame's handler answered (res) must be what the accounting did with it: an accepted frame has been counted
\* (a frame that is dropped before it is counted escapes the limits), a refused one left the recorded error
Accounted(s, off, fin, res) ==
  IF res = "ok" THEN hi[s] >= off /\ (fin => finalKnown[s]) ELSE err = res

----------------------------------------------------------------------------
(* Send side *)
SendWindow(s) == Min(Max(0, slim[s] - sent[s]), Max(0, cslim - csent))
\* n new bytes are sent on stream s; sw = the send window reported before
Send(s, n, sw) ==
  /\ sw = SendWindow(s) /\ n >= 0 /\ n <= sw                 \* never beyond the peer's limits
  /\ sent' = [sent EXCEPT ![s] = @ + n] /\ csent' = csent + n
  /\ UNCHANGED <<hi, read, adv, win, finalKnown, chi, cread, cadv, cwin, slim, sblockedAt, cslim, cblockedAt, err>>
MaxStreamData(s, v) ==
  /\ slim' = [slim EXCEPT ![s] = Max(@, v)]                  \* reordered / duplicate updates never lower the limit
  /\ UNCHANGED <<hi, read, adv, win, finalKnown, chi, cread, cadv, cwin, sent, sblockedAt, csent, cslim, cblockedAt, err>>
MaxData(v) ==
  /\ cslim' = Max(cslim, v)
  /\ UNCHANGED <<hi, read, adv, win, finalKnown, chi, cread, cadv, cwin, sent, slim, sblockedAt, csent, cblockedAt, err>>
\* "am I newly blocked?" - b = answer
StreamBlocked(s, b) ==
  /\ b = (slim[s] - sent[s] <= 0 /\ cslim - csent > 0 /\ sblockedAt[s] # slim[s]) \/ (b /\ SendWindow(s) = 0 /\ sblockedAt[s] # slim[s])
  /\ (b => SendWindow(s) = 0 /\ sblockedAt[s] # slim[s])      \* at most once per limit
  /\ sblockedAt' = [sblockedAt EXCEPT ![s] = IF b THEN slim[s] ELSE @]
  /\ UNCHANGED <<hi, read, adv, win, finalKnown, chi, cread, cadv, cwin, sent, slim, csent, cslim, cblockedAt, err>>
ConnBlocked(b, at) ==
  /\ (b => cslim - csent <= 0 /\ cblockedAt # cslim /\ at = cslim)
  /\ ((cslim - csent <= 0 /\ cblockedAt # cslim) => b)
  /\ cblockedAt' = IF b THEN cslim ELSE cblockedAt
  /\ UNCHANGED <<hi, read, adv, win, finalKnown, chi, cread, cadv, cwin, sent, slim, sblockedAt, csent, cslim, err>>

----------------------------------------------------------------------------
(* Properties *)
SendWithinCredit == (\A s \in Streams : sent[s] <= slim[s]) /\ csent <= cslim
ReceiveWithinAdvertised == err = "none" => ((\A s \in Streams : hi[s] <= adv[s]) /\ chi <= cadv)
CreditConservation == cread = LET RECURSIVE Sum(_)
                                 Sum(S) == IF S = {} THEN 0 ELSE LET x == CHOOSE y \in S : TRUE IN read[x] + Sum(S \ {x})
                             IN Sum(Streams)
WindowBounds == (\A s \in Streams : win[s] <= Max(W0, MaxW)) /\ cwin <= Max(CW0, CMaxW)
AdvertiseMonotone == [][(\A s \in Streams : adv'[s] >= adv[s]) /\ cadv' >= cadv]_fvars
=============================================================================
