--------------------------- MODULE FlowControl_MC ---------------------------
EXTENDS FlowControl
CONSTANT Side
Offs == {0, 2, 4, 5, 7}
RecvNext ==
  \/ \E s \in Streams, off \in Offs, fin \in BOOLEAN, res \in {"ok", "FINAL_SIZE_ERROR", "FLOW_CONTROL_ERROR"} : Recv(s, off, fin, res)
  \/ \E s \in Streams, n \in {1, 2} : Consume(s, n, cread + n)
  \/ \E s \in Streams : Abandon(s, cread + (hi[s] - read[s]))
  \/ \E s \in Streams : \E w \in {win[s], Min(2 * win[s], MaxW)} : StreamUpdate(s, read[s] + w, w) \/ StreamUpdate(s, 0, win[s])
  \/ \E w \in {cwin, Min(2 * cwin, CMaxW)} : ConnUpdate(cread + w, w)
SendNext ==
  \/ \E s \in Streams, n \in {1, 2} : Send(s, n, SendWindow(s))
  \/ \E s \in Streams, v \in {2, 4, 6} : MaxStreamData(s, v)
  \/ \E v \in {4, 6, 8} : MaxData(v)
  \/ \E s \in Streams, b \in BOOLEAN : StreamBlocked(s, b)
  \/ \E b \in BOOLEAN : ConnBlocked(b, cslim)
MNext == IF Side = "recv" THEN RecvNext ELSE SendNext
MSpec == FInit /\ [][MNext]_fvars
Bound == \A s \in Streams : adv[s] <= 12 /\ cadv <= 16
=============================================================================
