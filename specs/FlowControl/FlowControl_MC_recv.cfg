SPECIFICATION MSpec
CONSTANTS
  Streams = {1, 2}
  W0 = 4
  MaxW = 8
  CW0 = 6
  CMaxW = 12
  SLim0 = 2
  CSLim0 = 3
  Side = "recv"
CONSTRAINT Bound
INVARIANTS SendWithinCredit ReceiveWithinAdvertised CreditConservation WindowBounds
PROPERTIES AdvertiseMonotone
CHECK_DEADLOCK FALSE
