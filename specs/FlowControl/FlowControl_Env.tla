--------------------------- MODULE FlowControl_Env ---------------------------
(* Stimulus alphabet of the component tier of C04: uniform records [op, s, a, f]. *)
EXTENDS SeqEnum
CONSTANTS NS, W
O(op, s, a, f) == [op |-> op, s |-> s, a |-> a, f |-> f]
Offs == {0, 1, W \div 4, W - 1, W, W + 1, 2 * W}
Alphabet ==
       { O("Recv", s, off, f) : s \in 1..NS, off \in Offs, f \in BOOLEAN }
  \cup { O("Consume", s, n, FALSE) : s \in 1..NS, n \in {1, W \div 4, W} }
  \cup { O("Abandon", s, 0, FALSE) : s \in 1..NS } \cup { O("StreamUpdate", s, 0, FALSE) : s \in 1..NS }
  \cup { O("ConnUpdate", 1, 0, FALSE), O("Tick", 1, 1, FALSE), O("Tick", 1, 200, FALSE), O("ConnBlocked", 1, 0, FALSE) }
  \cup { O("Send", s, n, FALSE) : s \in 1..NS, n \in {1, W} } \cup { O("StreamBlocked", s, 0, FALSE) : s \in 1..NS }
  \cup { O("MaxStreamData", s, v, FALSE) : s \in 1..NS, v \in {W \div 2, 2 * W} } \cup { O("MaxData", 1, v, FALSE) : v \in {W, 3 * W} }
Init == EnumInit
Next == EnumNext(Alphabet)
Spec == Init /\ [][Next]_h
=============================================================================
