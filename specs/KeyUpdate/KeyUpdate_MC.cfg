SPECIFICATION Spec
CONSTANTS MaxPhase = 3 MaxPkts = 6
INVARIANTS Protected PhasesClose
CHECK_DEADLOCK FALSE
