---------------------------- MODULE KeyUpdate_Env ----------------------------
(* Stimulus alphabet of C05 (1-RTT keys): every sequence of L operations.     *)
EXTENDS SeqEnum, Integers
O(op, who, a, b) == [op |-> op, who |-> who, a |-> a, b |-> b]
Alphabet ==
       { O("Confirm", x, 0, "") : x \in {"a", "b"} }
  \cup { O("Seal", x, n, "") : x \in {"a", "b"}, n \in {1, 4} }
  \cup { O("Open", x, back, "") : x \in {"a", "b"}, back \in {0, 2} }
  \cup { O("Open", x, 0, t) : x \in {"a", "b"}, t \in {"ct", "ad", "kp"} }
  \cup { O("Ack", x, 0, "") : x \in {"a", "b"} }
  \cup { O("Tick", "a", 200, "") }
Init == EnumInit
Next == EnumNext(Alphabet)
Spec == Init /\ [][Next]_h
=============================================================================
