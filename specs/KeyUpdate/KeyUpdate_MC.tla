----------------------------- MODULE KeyUpdate_MC -----------------------------
(* The design argument behind the clauses, checked by TLC: if both endpoints   *)
(* initiate a key update only when confirmed and after an acknowledgement for  *)
(* a packet of their current phase (and follow the peer's updates), then under *)
(* any reordering the phases of the two endpoints never differ by more than    *)
(* one, so the one-bit key phase of a packet of the peer's current phase is    *)
(* never ambiguous.  (Packets delayed across two updates are lost: allowed.)   *)
EXTENDS KeyUpdate, TLC
CONSTANTS MaxPhase, MaxPkts
VARIABLES nxt, flight, okd     \* next packet id; ids in flight; ids opened successfully (only those are acknowledged)
mvars == <<vars, nxt, flight, okd>>
Init == /\ phase = [x \in Ends |-> 0] /\ confirmed = [x \in Ends |-> TRUE] /\ sentIn = [x \in Ends |-> FALSE]
        /\ ackedIn = [x \in Ends |-> FALSE] /\ firstPN = [x \in Ends |-> -1] /\ pkts = <<>> /\ step = NoStep
        /\ nxt = 1 /\ flight = {} /\ okd = {}
DoSeal(x, upd) ==
  /\ nxt <= MaxPkts
  /\ (upd => phase[x] < MaxPhase /\ (phase[x] = 0 \/ ackedIn[x]))
  /\ Seal(x, nxt, nxt, IF upd THEN phase[x] + 1 ELSE phase[x], TRUE)
  /\ nxt' = nxt + 1 /\ flight' = flight \cup {nxt} /\ UNCHANGED okd
DoOpen(id) ==
  LET p == pkts[id]  y == Peer(p.from) IN
  /\ IF p.phase = phase[y] + 1 /\ (phase[y] = 0 \/ sentIn[y])
     THEN Open(y, id, FALSE, "ok", TRUE, phase[y] + 1, p.pn) /\ okd' = okd \cup {id}
     ELSE /\ Open(y, id, FALSE, IF p.phase \in {phase[y], phase[y] - 1} THEN "ok" ELSE "decrypt_failed", TRUE, phase[y], p.pn)
          /\ okd' = IF p.phase \in {phase[y], phase[y] - 1} THEN okd \cup {id} ELSE okd
  /\ flight' = flight \ {id} /\ UNCHANGED nxt
  \* the receiver acknowledges: the sender learns
DoAck(x) == \E id \in okd : pkts[id].from = x /\ Acked(x, pkts[id].pn) /\ UNCHANGED <<nxt, flight, okd>>
Next == (\E x \in Ends, u \in BOOLEAN : DoSeal(x, u)) \/ (\E id \in flight : DoOpen(id)) \/ (\E x \in Ends : DoAck(x))
Spec == Init /\ [][Next]_mvars
PhasesClose == phase["a"] - phase["b"] \in {-1, 0, 1}
=============================================================================
