---------------------------- MODULE KeyUpdate_Trace ----------------------------
(* Validates traces of harness/handshake/c05_test.go against KeyUpdate.        *)
EXTENDS KeyUpdate, TraceLib
VARIABLES l
tvars == <<vars, l>>
Line == Trace[l]
Ev(e) ==
  CASE e.ev = "Reset" -> Start
    [] e.ev = "Confirm" -> Confirm(e.who)
    [] e.ev = "Seal" -> Seal(e.who, e.id, e.pn, e.phase, e.rfc)
    [] e.ev = "Open" -> Open(e.who, e.id, e.tampered, e.res, e.same, e.phase, e.dec)
    [] e.ev = "Acked" -> Acked(e.who, e.pn)
    [] e.ev = "Check" -> Check(e.ok, e.why)
    [] e.ev = "Panic" -> Check(FALSE, "panic")
    [] e.ev = "Note" -> UNCHANGED vars
TraceInit == /\ l = 1 /\ phase = [x \in Ends |-> 0] /\ confirmed = [x \in Ends |-> FALSE] /\ sentIn = [x \in Ends |-> FALSE]
             /\ ackedIn = [x \in Ends |-> FALSE] /\ firstPN = [x \in Ends |-> -1] /\ pkts = <<>> /\ step = NoStep
TraceNext == l <= TraceLen /\ Ev(Line) /\ l' = l + 1
TraceSpec == TraceInit /\ [][TraceNext]_tvars
=============================================================================
