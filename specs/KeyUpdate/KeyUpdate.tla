------------------------------ MODULE KeyUpdate ------------------------------
(* C05 - packet protection round-trips, matches RFC 9001 / 9369, rejects      *)
(* tampering; key updates neither initiated nor accepted early; packet        *)
(* numbers decode to the true value.                                          *)
(*                                                                            *)
(* Two endpoints "a" and "b" holding the 1-RTT keys of one connection         *)
(* (handshake.updatableAEAD), packets sealed by one and opened by the other   *)
(* in any order, with duplicates and tampering; an independent observer       *)
(* (own HKDF / AEAD / header-protection code following the RFCs) re-derives   *)
(* the keys of every key phase and checks every protected packet.             *)
EXTENDS Integers, Sequences, FiniteSets

VARIABLES phase,       \* endpoint -> number of key updates it has gone through
          confirmed,   \* endpoint -> handshake confirmed
          sentIn,      \* endpoint -> it sealed a packet in its current phase
          ackedIn,     \* endpoint -> a packet it sealed in its current phase was acknowledged
          firstPN,     \* endpoint -> packet number of the first packet sealed in its current phase (-1 none)
          pkts,        \* packet id -> [from, pn, phase]
          step
vars == <<phase, confirmed, sentIn, ackedIn, firstPN, pkts, step>>
Ends == {"a", "b"}
Peer(x) == IF x = "a" THEN "b" ELSE "a"
NoStep == [kind |-> "none", who |-> "a", ok |-> TRUE, why |-> ""]
Bad(s, w) == [NoStep EXCEPT !.kind = s.kind, !.who = s.who, !.ok = FALSE, !.why = w]

Start == /\ phase' = [x \in Ends |-> 0] /\ confirmed' = [x \in Ends |-> FALSE] /\ sentIn' = [x \in Ends |-> FALSE]
         /\ ackedIn' = [x \in Ends |-> FALSE] /\ firstPN' = [x \in Ends |-> -1] /\ pkts' = <<>> /\ step' = NoStep
Confirm(x) == confirmed' = [confirmed EXCEPT ![x] = TRUE] /\ step' = [NoStep EXCEPT !.kind = "Confirm", !.who = x]
              /\ UNCHANGED <<phase, sentIn, ackedIn, firstPN, pkts>>

\* x seals packet id with number pn; ph: its key phase afterwards (observed); rfc: the observer decrypts it with the
\* RFC-derived key of phase ph and computes the same header-protection mask
Seal(x, id, pn, ph, rfc) ==
  LET initiated == ph > phase[x] IN
  /\ phase' = [phase EXCEPT ![x] = ph]
  /\ sentIn' = [sentIn EXCEPT ![x] = TRUE]
  /\ ackedIn' = [ackedIn EXCEPT ![x] = IF initiated THEN FALSE ELSE @]
  /\ firstPN' = [firstPN EXCEPT ![x] = IF initiated \/ ~sentIn[x] THEN pn ELSE @]
  /\ pkts' = [i \in DOMAIN pkts \cup {id} |-> IF i = id THEN [from |-> x, pn |-> pn, phase |-> ph] ELSE pkts[i]]
  /\ step' = [NoStep EXCEPT !.kind = "Seal", !.who = x,
                !.ok = /\ rfc
                       /\ ph \in {phase[x], phase[x] + 1}
                       /\ (initiated => confirmed[x] /\ (phase[x] = 0 \/ ackedIn[x])),
                !.why = IF ~rfc THEN "keys / mask differ from the RFC derivation"
                        ELSE IF initiated /\ ~confirmed[x] THEN "key update initiated before the handshake is confirmed"
                        ELSE IF initiated THEN "key update initiated before a packet of the current phase was acknowledged" ELSE ""]
  /\ UNCHANGED confirmed

\* y opens packet id (tampered or not); res: "ok" | "decrypt_failed" | "keys_dropped" | "key_update_error" | "aead_limit";
\* same: plaintext and header fields equal what was sealed; ph: y's phase afterwards; dec: the packet number y decoded
Open(y, id, tampered, res, same, ph, dec) ==
  LET p == pkts[id]
      rolled == ph > phase[y] IN
  /\ phase' = [phase EXCEPT ![y] = ph]
  /\ sentIn' = [sentIn EXCEPT ![y] = IF rolled THEN FALSE ELSE @]
  /\ ackedIn' = [ackedIn EXCEPT ![y] = IF rolled THEN FALSE ELSE @]
  /\ firstPN' = [firstPN EXCEPT ![y] = IF rolled THEN -1 ELSE @]
  /\ step' = [NoStep EXCEPT !.kind = "Open", !.who = y,
                !.ok = /\ (tampered => res # "ok")
                       /\ (res = "ok" => same)
                       /\ (~tampered /\ p.phase = phase[y] => res = "ok")
                       /\ dec = p.pn
                       /\ (rolled => ph = phase[y] + 1 /\ res = "ok" /\ p.phase = ph /\ (phase[y] = 0 \/ sentIn[y])),
                !.why = IF tampered /\ res = "ok" THEN "a modified packet was opened"
                        ELSE IF res = "ok" /\ ~same THEN "opened to different plaintext"
                        ELSE IF ~tampered /\ p.phase = phase[y] /\ res # "ok" THEN "a genuine packet of the current phase was rejected"
                        ELSE IF dec # p.pn THEN "packet number decoded wrongly"
                        ELSE IF rolled THEN "key update accepted too early" ELSE ""]
  /\ UNCHANGED <<confirmed, pkts>>

\* x learns that its packets up to pn are acknowledged
Acked(x, pn) ==
  /\ ackedIn' = [ackedIn EXCEPT ![x] = @ \/ (firstPN[x] >= 0 /\ pn >= firstPN[x])]
  /\ step' = [NoStep EXCEPT !.kind = "Acked", !.who = x]
  /\ UNCHANGED <<phase, confirmed, sentIn, firstPN, pkts>>
\* a single check reported by the harness (Initial keys for a connection ID and version, Retry tag, packet number codec)
Check(ok, why) == step' = [NoStep EXCEPT !.kind = "Check", !.ok = ok, !.why = why] /\ UNCHANGED <<phase, confirmed, sentIn, ackedIn, firstPN, pkts>>

Protected == step.ok
=============================================================================
