SPECIFICATION MSpec
CONSTANTS
  ClientVersions <- CVDef
  ServerVersions = {2}
  NeedRetry = TRUE
  MustSucceed = FALSE
  IDs = {"a", "b", "c"}
  AttackerOn = TRUE
INVARIANTS AgreeOrFail NoForgedRetryEffect VersionOnlyFromVN
CHECK_DEADLOCK FALSE
