--------------------------- MODULE Handshake_Trace ---------------------------
(* Validates wire + API traces of successive dials (harness/root/c02_test.go, c13_test.go). *)
EXTENDS Handshake, TraceLib
VARIABLES l, diverged, iscidBad
tvars == <<hvars, l, diverged, iscidBad>>
Line == Trace[l]
Strict ==
  LET e == Line IN
  \/ e.ev = "Reset" /\ HReset /\ iscidBad' = FALSE
  \/ e.ev = "DialStart" /\ DialStart /\ e.i = dial + 1 /\ iscidBad' = FALSE
  \/ /\ e.ev = "CInitial" /\ ClientInitial(e.ver, e.dcid)
     \* what a standards-conformant server checks: initial_source_connection_id = the packet's source connection ID
     /\ iscidBad' = (iscidBad \/ (e.iscid # "" /\ e.iscid # e.scid))
  \/ phase = "dialing" /\ e.ev = "VN" /\ ~e.inj /\ DeliverVN(SeqToSet(e.versions)) /\ UNCHANGED iscidBad
  \/ phase = "dialing" /\ e.ev = "VN" /\ e.inj /\ InjectedVN(SeqToSet(e.versions)) /\ UNCHANGED iscidBad
  \/ phase = "dialing" /\ e.ev = "InjClose" /\ InjectedInitialClose /\ UNCHANGED iscidBad
  \/ phase = "dialing" /\ e.ev = "CHandshake" /\ ClientHandshakePkt /\ UNCHANGED iscidBad
  \/ e.ev = "EarlyWrite" /\ EarlyWrite(e.sid) /\ UNCHANGED iscidBad
  \/ e.ev = "EarlyOutcome" /\ EarlyOutcome(e.used) /\ UNCHANGED iscidBad
  \/ e.ev = "EarlyDelivered" /\ EarlyDelivered(e.sid) /\ UNCHANGED iscidBad
  \/ phase = "dialing" /\ e.ev = "Retry" /\ DeliverRetry(e.scid, e.tagok) /\ UNCHANGED iscidBad
  \/ phase = "dialing" /\ e.ev = "SPacket" /\ DeliverServerPacket(e.scid, e.kind) /\ UNCHANGED iscidBad
  \/ e.ev = "DialEnd" /\ DialEnd(e.res, e.ver) /\ UNCHANGED iscidBad
  \/ e.ev = "AcceptEnd" /\ AcceptEnd(e.res, e.ver) /\ UNCHANGED iscidBad
  \/ e.ev = "Echo" /\ Echo(e.ok) /\ UNCHANGED iscidBad
  \/ e.ev = "DialDone" /\ DialDone /\ UNCHANGED iscidBad
  \/ e.ev \in {"Note", "Inject"} /\ UNCHANGED <<hvars, iscidBad>>
  \* datagrams still in flight after the dial was reported finished
  \/ phase = "ended" /\ e.ev \in {"CInitial", "VN", "Retry", "SPacket", "CHandshake", "InjClose", "AcceptEnd"} /\ UNCHANGED <<hvars, iscidBad>>
\* ---- collect mode: every failing execution is recorded in fails and validation continues with the next one
VARIABLES fails, caseFailed
cvars == <<tvars, fails, caseFailed>>
NextReset(j) == CHOOSE k \in (j + 1)..(TraceLen + 1) :
                  /\ (k = TraceLen + 1 \/ Trace[k].ev = "Reset")
                  /\ \A m \in (j + 1)..(k - 1) : Trace[m].ev # "Reset"
FirstBroken == IF ~AgreeOrFail' THEN "AgreeOrFail"
               ELSE IF ~DialCompletes' THEN "DialCompletes"
               ELSE IF iscidBad' THEN "ISCIDMatchesHeader"
               ELSE IF ~EarlyDataOnceOrNever' THEN "EarlyDataOnceOrNever" ELSE "none"
Step == /\ l <= TraceLen
        /\ Strict /\ l' = l + 1 /\ UNCHANGED diverged
        /\ LET b == FirstBroken
               fresh == Line.ev = "Reset"
           IN /\ fails' = IF b # "none" /\ (fresh \/ ~caseFailed) THEN Append(fails, [line |-> l, inv |-> b]) ELSE fails
              /\ caseFailed' = ((~fresh /\ caseFailed) \/ b # "none")
Diverge == /\ l <= TraceLen /\ ~ENABLED Strict
           /\ fails' = IF caseFailed THEN fails ELSE Append(fails, [line |-> l, inv |-> "NoDivergence"])
           /\ caseFailed' = TRUE
           /\ l' = NextReset(l) /\ UNCHANGED <<hvars, iscidBad, diverged>>
TraceInit == HInit /\ l = 1 /\ diverged = <<>> /\ iscidBad = FALSE /\ fails = <<>> /\ caseFailed = FALSE
TraceNext == Step \/ Diverge
TraceSpec == TraceInit /\ [][TraceNext]_cvars
NoDivergence == diverged = <<>>
ISCIDMatchesHeader == ~iscidBad
Collected == (l = TraceLen + 1) => fails = <<>>
=============================================================================
