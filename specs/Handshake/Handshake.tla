------------------------------ MODULE Handshake ------------------------------
(***************************************************************************)
(* Connection establishment as observable on the wire and at the two APIs   *)
(* (C02: successive dials with one spec value; C13: faults and forged       *)
(* packets).  The client side is reconstructed from its Initial packets     *)
(* (version, connection IDs, token, decrypted ClientHello), the server side  *)
(* from Version Negotiation / Retry / Initial packets, the outcome from      *)
(* Dial / Accept.                                                            *)
(*                                                                         *)
(* Client rules the property states:                                        *)
(*  - the version offered changes only in response to a Version Negotiation  *)
(*    packet that arrives before any genuine server packet was processed,    *)
(*    at most once, and never to a version the VN packet did not list;       *)
(*  - the destination connection ID changes to a Retry's source ID only for  *)
(*    a Retry with a valid integrity tag, before any genuine packet, once;   *)
(*  - otherwise it changes only to the server's chosen source ID;            *)
(*  - both sides complete with the same version, or the failing side         *)
(*    reports an error.                                                      *)
(***************************************************************************)
EXTENDS Integers, Sequences, FiniteSets, TLC

CONSTANTS ClientVersions,  \* versions the client is configured with, in preference order (sequence)
          ServerVersions,  \* set of versions the server accepts
          NeedRetry,       \* the server demands address validation by Retry
          MustSucceed      \* the scenario (faults confined, no attacker able to break it) must end in a working connection

None == "none"
VARIABLES dial,        \* index of the current dial (0 = none yet)
          phase,       \* "idle" | "dialing" | "ended"
          cver,        \* version of the client's latest Initial (0 = none sent)
          cdcid,       \* destination connection ID of the client's latest Initial
          odcid,       \* first destination connection ID of this dial
          vnUsed,      \* the client already reacted to a Version Negotiation packet
          retryUsed,   \* the client already followed a Retry
          vnOffer,     \* versions listed by VN packets delivered so far (before a genuine packet)
          retryIDs,    \* source connection IDs of *valid* Retry packets delivered before a genuine packet
          badRetryIDs, \* source connection IDs of Retry packets with an invalid tag
          srvIDs,      \* source connection IDs of genuine server Initial / Handshake packets delivered
          rcvdFirst,   \* a genuine server packet (not VN / Retry) has reached the client
          cres, sres,  \* outcome of Dial / Accept: None | "ok" | "err"
          cfin, sfin,  \* negotiated version reported by each side
          echo,        \* application data moved both ways
          prevAttempt, \* <<version, dcid>> of the attempt abandoned after version negotiation (its stragglers may still appear)
          cSentHs,     \* the client has sent a Handshake packet (it has discarded its Initial keys)
          mayFail,     \* an attacker's packet arrived at a moment where QUIC cannot tell it from a genuine one
          early        \* 0-RTT: [sent |-> streams written as early data, used |-> server accepted 0-RTT or "unknown", got |-> deliveries per stream]
hvars == <<dial, phase, cver, cdcid, odcid, vnUsed, retryUsed, vnOffer, retryIDs, badRetryIDs, srvIDs, rcvdFirst, cres, sres, cfin, sfin, echo, prevAttempt, cSentHs, mayFail, early>>

NoEarly == [sent |-> {}, used |-> "unknown", got |-> <<>>]
Fresh == /\ cver' = 0 /\ cdcid' = None /\ odcid' = None /\ vnUsed' = FALSE /\ retryUsed' = FALSE
         /\ vnOffer' = {} /\ retryIDs' = {} /\ badRetryIDs' = {} /\ srvIDs' = {} /\ rcvdFirst' = FALSE
         /\ cres' = None /\ sres' = None /\ cfin' = 0 /\ sfin' = 0 /\ echo' = None /\ prevAttempt' = <<0, None>>
         /\ cSentHs' = FALSE /\ mayFail' = FALSE /\ early' = NoEarly
HInit == /\ dial = 0 /\ phase = "idle" /\ cver = 0 /\ cdcid = None /\ odcid = None /\ vnUsed = FALSE /\ retryUsed = FALSE
         /\ vnOffer = {} /\ retryIDs = {} /\ badRetryIDs = {} /\ srvIDs = {} /\ rcvdFirst = FALSE
         /\ cres = None /\ sres = None /\ cfin = 0 /\ sfin = 0 /\ echo = None /\ prevAttempt = <<0, None>>
         /\ cSentHs = FALSE /\ mayFail = FALSE /\ early = NoEarly
HReset == dial' = 0 /\ phase' = "idle" /\ Fresh

Range(s) == { s[i] : i \in DOMAIN s }

DialStart == /\ phase \in {"idle", "ended"} /\ dial' = dial + 1 /\ phase' = "dialing" /\ Fresh

ClientFresh(ver, dcid) ==
  /\ IF cver = 0
     THEN /\ ver = ClientVersions[1]                         \* the first attempt offers the preferred version
          /\ odcid' = dcid /\ UNCHANGED <<vnUsed, retryUsed, prevAttempt>>
     ELSE /\ IF ver # cver
             THEN /\ ~vnUsed /\ ver \in vnOffer /\ ver \in Range(ClientVersions)
                  /\ vnUsed' = TRUE /\ odcid' = dcid /\ prevAttempt' = <<cver, odcid>> /\ UNCHANGED retryUsed   \* a fresh attempt after version negotiation
             ELSE /\ IF dcid # cdcid /\ dcid \notin srvIDs /\ ~rcvdFirst   \* (later the server may have issued further IDs under encryption)
                     THEN /\ ~retryUsed /\ dcid \in retryIDs /\ retryUsed' = TRUE  \* following a (valid) Retry
                     ELSE UNCHANGED retryUsed
                  /\ UNCHANGED <<vnUsed, odcid, prevAttempt>>
  /\ cver' = ver /\ cdcid' = dcid
  /\ UNCHANGED <<dial, phase, vnOffer, retryIDs, badRetryIDs, srvIDs, rcvdFirst, cres, sres, cfin, sfin, echo, cSentHs, mayFail, early>>

\* the client puts an Initial packet on the wire
ClientInitial(ver, dcid) ==
  /\ phase = "dialing"
  /\ IF <<ver, dcid>> = prevAttempt
     THEN UNCHANGED hvars                  \* a straggler of the attempt abandoned after version negotiation
     ELSE ClientFresh(ver, dcid)

\* packets reaching the client
DeliverVN(versions) ==
  \* a Version Negotiation packet that lists the offered version is ignored
  /\ vnOffer' = IF rcvdFirst \/ vnUsed \/ cver \in versions THEN vnOffer ELSE vnOffer \cup versions
  /\ UNCHANGED <<dial, phase, cver, cdcid, odcid, vnUsed, retryUsed, retryIDs, badRetryIDs, srvIDs, rcvdFirst, cres, sres, cfin, sfin, echo, prevAttempt, cSentHs, mayFail, early>>
DeliverRetry(scid, tagOK) ==
  /\ retryIDs' = IF tagOK /\ ~rcvdFirst /\ ~retryUsed /\ scid # cdcid THEN retryIDs \cup {scid} ELSE retryIDs
  /\ badRetryIDs' = IF tagOK THEN badRetryIDs ELSE badRetryIDs \cup {scid}
  /\ UNCHANGED <<dial, phase, cver, cdcid, odcid, vnUsed, retryUsed, vnOffer, srvIDs, rcvdFirst, cres, sres, cfin, sfin, echo, prevAttempt, cSentHs, mayFail, early>>
\* (a Handshake packet can only be processed once an Initial packet has been: only Initial packets count as
\*  "a genuine packet has been processed")
DeliverServerPacket(scid, kind) ==
  /\ rcvdFirst' = (rcvdFirst \/ kind = "initial") /\ srvIDs' = srvIDs \cup {scid}
  /\ UNCHANGED <<dial, phase, cver, cdcid, odcid, vnUsed, retryUsed, vnOffer, retryIDs, badRetryIDs, cres, sres, cfin, sfin, echo, prevAttempt, cSentHs, mayFail, early>>

\* ---- attacker (C13): forged packets reaching the client
\* A forged Version Negotiation / Retry packet is indistinguishable from a genuine one only before the first
\* genuine server packet was processed; a correctly keyed forged Initial only while the client still holds
\* Initial keys.  In those windows the handshake may fail (cleanly); outside them nothing may change.
InjectedVN(versions) ==
  /\ mayFail' = (mayFail \/ (~rcvdFirst /\ ~vnUsed /\ cver \notin versions))
  /\ vnOffer' = IF rcvdFirst \/ vnUsed \/ cver \in versions THEN vnOffer ELSE vnOffer \cup versions
  /\ UNCHANGED <<dial, phase, cver, cdcid, odcid, vnUsed, retryUsed, retryIDs, badRetryIDs, srvIDs, rcvdFirst, cres, sres, cfin, sfin, echo, prevAttempt, cSentHs, early>>
InjectedInitialClose ==
  /\ mayFail' = (mayFail \/ ~cSentHs)
  /\ UNCHANGED <<dial, phase, cver, cdcid, odcid, vnUsed, retryUsed, vnOffer, retryIDs, badRetryIDs, srvIDs, rcvdFirst, cres, sres, cfin, sfin, echo, prevAttempt, cSentHs, early>>
ClientHandshakePkt ==
  /\ cSentHs' = TRUE
  /\ UNCHANGED <<dial, phase, cver, cdcid, odcid, vnUsed, retryUsed, vnOffer, retryIDs, badRetryIDs, srvIDs, rcvdFirst, cres, sres, cfin, sfin, echo, prevAttempt, mayFail, early>>

\* ---- 0-RTT
EarlyWrite(sid) ==
  /\ early' = [early EXCEPT !.sent = @ \cup {sid}]
  /\ UNCHANGED <<dial, phase, cver, cdcid, odcid, vnUsed, retryUsed, vnOffer, retryIDs, badRetryIDs, srvIDs, rcvdFirst, cres, sres, cfin, sfin, echo, prevAttempt, cSentHs, mayFail>>
EarlyOutcome(used) ==
  /\ early' = [early EXCEPT !.used = used]
  /\ UNCHANGED <<dial, phase, cver, cdcid, odcid, vnUsed, retryUsed, vnOffer, retryIDs, badRetryIDs, srvIDs, rcvdFirst, cres, sres, cfin, sfin, echo, prevAttempt, cSentHs, mayFail>>
\* the server application received the data of early stream sid
EarlyDelivered(sid) ==
  /\ early' = [early EXCEPT !.got = Append(@, sid)]
  /\ UNCHANGED <<dial, phase, cver, cdcid, odcid, vnUsed, retryUsed, vnOffer, retryIDs, badRetryIDs, srvIDs, rcvdFirst, cres, sres, cfin, sfin, echo, prevAttempt, cSentHs, mayFail>>

DialEnd(res, ver) ==
  /\ phase = "dialing" /\ cres = None /\ cres' = res /\ cfin' = ver
  /\ (res = "ok" => ver = cver /\ ver \in ServerVersions)
  /\ UNCHANGED <<dial, phase, cver, cdcid, odcid, vnUsed, retryUsed, vnOffer, retryIDs, badRetryIDs, srvIDs, rcvdFirst, sres, sfin, echo, prevAttempt, cSentHs, mayFail, early>>
AcceptEnd(res, ver) ==
  /\ phase = "dialing" /\ sres = None /\ sres' = res /\ sfin' = ver
  /\ (res = "ok" => ver \in ServerVersions)
  /\ UNCHANGED <<dial, phase, cver, cdcid, odcid, vnUsed, retryUsed, vnOffer, retryIDs, badRetryIDs, srvIDs, rcvdFirst, cres, cfin, echo, prevAttempt, cSentHs, mayFail, early>>
Echo(ok) ==
  /\ phase = "dialing" /\ echo' = (IF ok THEN "ok" ELSE "bad")
  /\ UNCHANGED <<dial, phase, cver, cdcid, odcid, vnUsed, retryUsed, vnOffer, retryIDs, badRetryIDs, srvIDs, rcvdFirst, cres, sres, cfin, sfin, prevAttempt, cSentHs, mayFail, early>>
DialDone ==
  /\ phase = "dialing" /\ phase' = "ended"
  /\ UNCHANGED <<dial, cver, cdcid, odcid, vnUsed, retryUsed, vnOffer, retryIDs, badRetryIDs, srvIDs, rcvdFirst, cres, sres, cfin, sfin, echo, prevAttempt, cSentHs, mayFail, early>>

----------------------------------------------------------------------------
\* both complete and agree, or the failing side reported an error (never a half-open success)
AgreeOrFail == phase = "ended" =>
  /\ cres # None
  /\ (cres = "ok" /\ sres = "ok") => cfin = sfin
  /\ (cres = "ok" /\ ~mayFail) => sres = "ok"     \* (a forged packet inside its window may still kill the client right after completion)
\* the scenario's faults are bounded and nobody forges packets that can legitimately break it:
\* the handshake completes and data moves both ways - for every dial index
DialCompletes == (MustSucceed /\ ~mayFail /\ phase = "ended") => (cres = "ok" /\ sres = "ok" /\ echo = "ok")
\* 0-RTT data reaches the server application exactly once if 0-RTT was accepted and never if it was rejected
EarlyDataOnceOrNever ==
  (phase = "ended" /\ early.used # "unknown") =>
     /\ (early.used = "rejected" => early.got = <<>>)
     /\ (early.used = "accepted" => \A sid \in early.sent : Cardinality({i \in DOMAIN early.got : early.got[i] = sid}) = 1)
     /\ \A i \in DOMAIN early.got : early.got[i] \in early.sent
AtMostOneRetry == TRUE   \* structural: ClientInitial refuses a second connection-ID switch
=============================================================================
