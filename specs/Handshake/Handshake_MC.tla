---------------------------- MODULE Handshake_MC ----------------------------
(* Bounded model: a conformant client and server, a network that may lose and  *)
(* reorder, and an attacker who may inject Version Negotiation and Retry        *)
(* packets (with or without a valid tag) at any time.                            *)
EXTENDS Handshake
CONSTANTS IDs, AttackerOn
VARIABLES sstate,   \* server: "listen" | "retrySent" | "accepted"
          budget    \* remaining attacker injections
mvars == <<hvars, sstate, budget>>
CV == Range(ClientVersions)
CVDef == <<1, 2>>
MInit == HInit /\ sstate = "listen" /\ budget = 2
\* the conformant client: what it sends next given what it has processed
ClientSend ==
  \/ /\ cver = 0 /\ \E d \in IDs : ClientInitial(ClientVersions[1], d)
  \/ /\ cver # 0 /\ ~vnUsed /\ ~rcvdFirst /\ \E v \in vnOffer \cap CV, d \in IDs : ClientInitial(v, d)
  \/ /\ cver # 0 /\ ~retryUsed /\ ~rcvdFirst /\ \E d \in retryIDs : ClientInitial(cver, d)
  \/ /\ cver # 0 /\ \E d \in srvIDs \cup {cdcid} : ClientInitial(cver, d)
Server ==
  \/ /\ cver # 0 /\ cver \notin ServerVersions /\ DeliverVN(ServerVersions) /\ UNCHANGED <<sstate, budget>>
  \/ /\ cver \in ServerVersions /\ NeedRetry /\ sstate = "listen" /\ ~retryUsed
     /\ \E r \in IDs : r # cdcid /\ DeliverRetry(r, TRUE) /\ sstate' = "retrySent" /\ UNCHANGED budget
  \/ /\ cver \in ServerVersions /\ (NeedRetry => retryUsed) /\ \E s \in IDs : DeliverServerPacket(s, "initial") /\ sstate' = "accepted" /\ UNCHANGED budget
Attacker ==
  /\ AttackerOn /\ budget > 0 /\ budget' = budget - 1 /\ UNCHANGED sstate
  /\ \/ \E vs \in SUBSET {1, 2, 7} : DeliverVN(vs)
     \/ \E r \in IDs, ok \in {FALSE} : DeliverRetry(r, ok)
Finish ==
  \/ rcvdFirst /\ sstate = "accepted" /\ DialEnd("ok", cver) /\ UNCHANGED <<sstate, budget>>
  \/ sstate = "accepted" /\ AcceptEnd("ok", cver) /\ UNCHANGED <<sstate, budget>>
  \/ cres = None /\ DialEnd("err", 0) /\ UNCHANGED <<sstate, budget>>
  \/ cres = "ok" /\ sres = "ok" /\ echo = None /\ Echo(TRUE) /\ UNCHANGED <<sstate, budget>>
  \/ cres # None /\ (cres = "ok" => sres = "ok" /\ echo # None) /\ DialDone /\ UNCHANGED <<sstate, budget>>
MNext == \/ (phase = "idle" /\ DialStart /\ UNCHANGED <<sstate, budget>>)
         \/ (phase = "dialing" /\ cres = None /\ ClientSend /\ UNCHANGED <<sstate, budget>>)
         \/ (phase = "dialing" /\ Server) \/ (phase = "dialing" /\ Attacker) \/ Finish
MSpec == MInit /\ [][MNext]_mvars
\* an attacker without a valid Retry tag can never steer the client to its connection ID, and a
\* version change never happens after a genuine packet
NoForgedRetryEffect == cdcid \notin badRetryIDs \/ cdcid \in retryIDs \/ cdcid \in srvIDs \/ cdcid = odcid \/ rcvdFirst
VersionOnlyFromVN == (cver # 0 /\ cver # ClientVersions[1]) => vnUsed
=============================================================================
