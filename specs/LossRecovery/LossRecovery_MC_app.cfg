SPECIFICATION MSpec
CONSTANTS
  MaxPN = 2
  Persp = "client"
  Amp = 3
  PreValidated = FALSE
  Active = {"a"}
INVARIANTS InFlightBalanced ResolvedGone TimerObligation NumbersInOrder
CHECK_DEADLOCK FALSE
