---------------------------- MODULE LossRecovery ----------------------------
(***************************************************************************)
(* Loss recovery bookkeeping of one endpoint (C06) with the server's        *)
(* anti-amplification accounting (C14, first sentence).                     *)
(*                                                                         *)
(* Mechanism-level where the property is about the mechanism's contract:    *)
(*  - every frame handed over with a packet is reported acked or lost at     *)
(*    most once, and exactly once by the time its packet leaves the history  *)
(*    (unless the space was discarded / the path abandoned),                 *)
(*  - bytes in flight = sizes of the ack-eliciting, non-path-probe packets   *)
(*    still in the history,                                                  *)
(*  - an ACK for a number never sent or deliberately skipped is a            *)
(*    PROTOCOL_VIOLATION and changes nothing,                                *)
(*  - outstanding data and not amplification-blocked => a deadline is set.   *)
(* Which packets are declared lost is left open: any packet older than the   *)
(* largest acknowledged may be (thresholds are not part of the property).    *)
(* Observed results (callbacks, history, alarm, send mode) are parameters.   *)
(***************************************************************************)
EXTENDS Integers, Sequences, FiniteSets, TLC

CONSTANTS MaxPN,   \* packet numbers 0..MaxPN per space
          Persp,   \* "client" | "server"
          Amp,     \* amplification factor the property states (3)
          PreValidated \* server: the client presented a valid address-validation token

Spaces == {"i", "h", "a"}
None == -1

VARIABLES nextPN,       \* [space -> next unused number]
          largestSent,  \* [space -> largest number sent, None]
          skipped,      \* [space -> numbers deliberately skipped]
          hist,         \* [space -> [pn -> packet]] packets still tracked
          largestAcked, \* [space -> None or pn]
          resolved,     \* frames <<space, pn, k>> already reported acked or lost
          inflight,     \* bytes in flight as the implementation reports them
          alarm,        \* a loss-detection deadline is set
          dropped,      \* [space -> BOOLEAN]
          confirmed,    \* handshake confirmed
          validated,    \* peer address validated (server) - always TRUE for a client
          sentB, rcvdB, \* bytes sent / received (amplification accounting)
          err           \* connection error raised
vars == <<nextPN, largestSent, skipped, hist, largestAcked, resolved, inflight, alarm, dropped,
          confirmed, validated, sentB, rcvdB, err>>

Pkt(size, nf, kind, zr) == [size |-> size, nf |-> nf, kind |-> kind, zr |-> zr]   \* kind: "norm" | "mtu" | "probe"
Empty == [p \in {} |-> 0]
Init ==
  /\ nextPN = [s \in Spaces |-> 0] /\ largestSent = [s \in Spaces |-> None]
  /\ skipped = [s \in Spaces |-> {}] /\ hist = [s \in Spaces |-> Empty]
  /\ largestAcked = [s \in Spaces |-> None] /\ resolved = {} /\ inflight = 0 /\ alarm = FALSE
  /\ dropped = [s \in Spaces |-> FALSE] /\ confirmed = FALSE
  /\ validated = (Persp = "client" \/ PreValidated) /\ sentB = 0 /\ rcvdB = 0 /\ err = "none"
ResetAll ==
  /\ nextPN' = [s \in Spaces |-> 0] /\ largestSent' = [s \in Spaces |-> None]
  /\ skipped' = [s \in Spaces |-> {}] /\ hist' = [s \in Spaces |-> Empty]
  /\ largestAcked' = [s \in Spaces |-> None] /\ resolved' = {} /\ inflight' = 0 /\ alarm' = FALSE
  /\ dropped' = [s \in Spaces |-> FALSE] /\ confirmed' = FALSE
  /\ validated' = (Persp = "client" \/ PreValidated) /\ sentB' = 0 /\ rcvdB' = 0 /\ err' = "none"

Max2(a, b) == IF a >= b THEN a ELSE b
MaxS(S) == CHOOSE x \in S : \A y \in S : y <= x
AE(p) == p.nf > 0
Counted(p) == AE(p) /\ p.kind # "probe"             \* counted in bytes in flight
Outstanding(p) == AE(p) /\ p.kind = "norm"
MaxNF == 2
FramesIn(s, P) == UNION { { <<s, pn, k>> : k \in 1..hist[s][pn].nf } : pn \in P }
Bytes(s, P) == LET RECURSIVE Sum(_)
                   Sum(Q) == IF Q = {} THEN 0 ELSE LET x == CHOOSE y \in Q : TRUE
                                                   IN (IF Counted(hist[s][x]) THEN hist[s][x].size ELSE 0) + Sum(Q \ {x})
               IN Sum(P)
Restrict(f, D) == [x \in D |-> f[x]]
HasOut(s) == \E pn \in DOMAIN hist[s] : Outstanding(hist[s][pn])
AmpBlocked == ~validated /\ sentB >= Amp * rcvdB

\* common epilogue: what the implementation reports after the call
Observe(inf, al) == inflight' = inf /\ alarm' = al

----------------------------------------------------------------------------
\* a packet is sent with number pn; skips = numbers the generator jumped over just before
Send(s, pn, skips, size, nf, kind, zr, inf, al) ==
  /\ err = "none" /\ ~dropped[s]
  /\ skips = nextPN[s]..(pn - 1) /\ (skips # {} => s = "a")           \* numbers are used in order, never reused
  /\ pn <= MaxPN /\ nf \in 0..MaxNF
  /\ (kind = "probe" => s = "a" /\ nf > 0) /\ (kind = "mtu" => s = "a" /\ nf > 0) /\ (zr => s = "a")
  /\ nextPN' = [nextPN EXCEPT ![s] = pn + 1]
  /\ largestSent' = [largestSent EXCEPT ![s] = pn]
  /\ skipped' = [skipped EXCEPT ![s] = @ \cup skips]
  /\ hist' = [hist EXCEPT ![s] = [q \in (DOMAIN @) \cup {pn} |-> IF q = pn THEN Pkt(size, nf, kind, zr) ELSE @[q]]]
  /\ sentB' = sentB + size
  /\ inf = inflight + (IF nf > 0 /\ kind # "probe" THEN size ELSE 0)
  /\ Observe(inf, al)
  /\ UNCHANGED <<largestAcked, resolved, dropped, confirmed, validated, rcvdB, err>>

\* packets leave the history: A acknowledged, L lost; ackedF / lostF are the callbacks observed
Resolve(s, A, L, ackedF, lostF, keep, inf) ==
  /\ ackedF = FramesIn(s, A) /\ lostF = FramesIn(s, L)
  /\ (ackedF \cup lostF) \cap resolved = {}                   \* at most once
  /\ resolved' = resolved \cup ackedF \cup lostF
  /\ keep = (DOMAIN hist[s]) \ (A \cup L)
  /\ hist' = [hist EXCEPT ![s] = Restrict(@, keep)]
  /\ inf = inflight - Bytes(s, A \cup L)

\* an ACK frame for S arrives
Ack(s, S, res, ackedF, lostF, keep, inf, al) ==
  /\ err = "none" /\ ~dropped[s] /\ S # {}
  /\ IF MaxS(S) > largestSent[s] \/ S \cap skipped[s] # {}
     THEN /\ res = "PROTOCOL_VIOLATION" /\ ackedF = {} /\ lostF = {}
          /\ err' = res
          /\ UNCHANGED <<nextPN, largestSent, skipped, hist, largestAcked, resolved, inflight, alarm, dropped,
                         confirmed, validated, sentB, rcvdB>>
     ELSE /\ res = "ok"
          /\ LET gone == (DOMAIN hist[s]) \ keep
                 \* a covered path probe that leaves the history was either acknowledged or timed out (callbacks tell)
                 A == {p \in gone \cap S : hist[s][p].kind # "probe" \/ <<s, p, 1>> \in ackedF}
                 L == gone \ A
                 la == Max2(largestAcked[s], MaxS(S))
                 \* every covered packet is acknowledged now; a covered path probe may instead stay until
                 \* its own timeout reports it lost (its history slot can be gone already)
             IN /\ \A p \in S \cap DOMAIN hist[s] : hist[s][p].kind # "probe" => p \in A
                /\ IF A = {}
                   THEN /\ L = {} /\ ackedF = {} /\ lostF = {} /\ inf = inflight
                        /\ UNCHANGED <<hist, largestAcked, resolved>>
                   ELSE /\ \A p \in L : p < la \/ hist[s][p].kind = "probe"     \* only older packets (or timed-out path probes) are lost
                        /\ Resolve(s, A, L, ackedF, lostF, keep, inf)
                        /\ largestAcked' = [largestAcked EXCEPT ![s] = la]
          /\ Observe(inf, al)
          /\ UNCHANGED <<nextPN, largestSent, skipped, dropped, confirmed, validated, sentB, rcvdB, err>>

\* the loss-detection timer fires: packets may be declared lost (any space), or a PTO is armed
\* (application space: one number is skipped)
Timeout(lost, lostF, skips, inf, al) ==
  /\ err = "none"
  /\ \A s \in Spaces : \A p \in lost[s] : p \in DOMAIN hist[s] /\ (p < largestAcked[s] \/ hist[s][p].kind = "probe")
  /\ lostF = UNION { FramesIn(s, lost[s]) : s \in Spaces }
  /\ lostF \cap resolved = {}
  /\ resolved' = resolved \cup lostF
  /\ hist' = [s \in Spaces |-> Restrict(hist[s], (DOMAIN hist[s]) \ lost[s])]
  /\ inf = inflight - (Bytes("i", lost["i"]) + Bytes("h", lost["h"]) + Bytes("a", lost["a"]))
  /\ skips = nextPN["a"]..(nextPN["a"] + Cardinality(skips) - 1)      \* a PTO in the application space skips a number
  /\ skipped' = [skipped EXCEPT !["a"] = @ \cup skips]
  /\ nextPN' = [nextPN EXCEPT !["a"] = @ + Cardinality(skips)]
  /\ Observe(inf, al)
  /\ UNCHANGED <<largestSent, largestAcked, dropped, confirmed, validated, sentB, rcvdB, err>>

\* a probe is wanted: an outstanding packet is declared lost so that its frames are sent again
QueueProbe(s, ok, p, lostF, keep, inf, al) ==
  /\ err = "none" /\ ~dropped[s]
  /\ IF ~HasOut(s)
     THEN ~ok /\ lostF = {} /\ inf = inflight /\ keep = DOMAIN hist[s] /\ UNCHANGED <<hist, resolved>>
     ELSE /\ ok /\ p \in DOMAIN hist[s] /\ Outstanding(hist[s][p])
          /\ Resolve(s, {}, {p}, {}, lostF, keep, inf)
  /\ Observe(inf, al)
  /\ UNCHANGED <<nextPN, largestSent, skipped, largestAcked, dropped, confirmed, validated, sentB, rcvdB, err>>

\* keys of a space are dropped: its packets vanish without callbacks
DropSpace(s, inf, al) ==
  /\ s \in {"i", "h"} /\ ~dropped[s]
  /\ inf = inflight - Bytes(s, DOMAIN hist[s])
  /\ hist' = [hist EXCEPT ![s] = Empty]
  /\ dropped' = [dropped EXCEPT ![s] = TRUE]
  /\ confirmed' = (confirmed \/ s = "h")
  /\ Observe(inf, al)
  /\ UNCHANGED <<nextPN, largestSent, skipped, largestAcked, resolved, validated, sentB, rcvdB, err>>

\* 0-RTT was rejected: 0-RTT packets vanish without callbacks
Drop0RTT(keep, inf, al) ==
  /\ LET Z == {p \in DOMAIN hist["a"] : hist["a"][p].zr}
     IN /\ keep = (DOMAIN hist["a"]) \ Z
        /\ inf = inflight - Bytes("a", Z)
        /\ hist' = [hist EXCEPT !["a"] = Restrict(@, keep)]
  /\ Observe(inf, al)
  /\ UNCHANGED <<nextPN, largestSent, skipped, largestAcked, resolved, dropped, confirmed, validated, sentB, rcvdB, err>>

\* a Retry was accepted: everything sent so far (Initial, 0-RTT) is lost and will be sent again
\* (numbering continues at ni / na: a number the old generator had set aside is abandoned)
Retry(lostF, inf, al, ni, na) ==
  /\ err = "none" /\ ~dropped["i"]
  /\ DOMAIN hist["h"] = {} /\ largestSent["h"] = None      \* a Retry is only honoured before the handshake moved on
  /\ lostF = FramesIn("i", DOMAIN hist["i"]) \cup FramesIn("a", {p \in DOMAIN hist["a"] : hist["a"][p].kind # "probe"})
  /\ lostF \cap resolved = {} /\ resolved' = resolved \cup lostF
  /\ hist' = [hist EXCEPT !["i"] = Empty, !["a"] = Empty]
  /\ largestSent' = [largestSent EXCEPT !["i"] = None, !["a"] = None]
  /\ largestAcked' = [largestAcked EXCEPT !["i"] = None, !["a"] = None]
  /\ skipped' = [skipped EXCEPT !["a"] = {}]
  /\ inf = 0 /\ Observe(inf, al)
  /\ ni >= nextPN["i"] /\ na >= nextPN["a"]
  /\ nextPN' = [nextPN EXCEPT !["i"] = ni, !["a"] = na]
  /\ UNCHANGED <<dropped, confirmed, validated, sentB, rcvdB, err>>

\* the connection moved to a new path: everything in flight on the old one is lost;
\* path probes of other paths are abandoned
Migrated(lostF, keep, inf, al) ==
  /\ err = "none"
  /\ LET N == {p \in DOMAIN hist["a"] : hist["a"][p].kind # "probe"}
     IN /\ lostF = FramesIn("a", N)
        /\ lostF \cap resolved = {} /\ resolved' = resolved \cup lostF
        /\ inf = inflight - Bytes("a", N)
        /\ keep \subseteq (DOMAIN hist["a"]) \ N      \* probes of other paths may stay until their timeout reports them lost
  /\ hist' = [hist EXCEPT !["a"] = Restrict(@, keep)]
  /\ Observe(inf, al)
  /\ UNCHANGED <<nextPN, largestSent, skipped, largestAcked, dropped, confirmed, validated, sentB, rcvdB, err>>

RecvBytes(n, al) ==
  /\ rcvdB' = rcvdB + n /\ alarm' = al
  /\ UNCHANGED <<nextPN, largestSent, skipped, hist, largestAcked, resolved, inflight, dropped, confirmed, validated, sentB, err>>

\* a packet of space s was received and decrypted (address validation for a server: Handshake)
RecvPacket(s, al) ==
  /\ validated' = (validated \/ (Persp = "server" /\ s = "h")) /\ alarm' = al
  /\ UNCHANGED <<nextPN, largestSent, skipped, hist, largestAcked, resolved, inflight, dropped, confirmed, sentB, rcvdB, err>>

----------------------------------------------------------------------------
(* Properties *)
InFlightBalanced == inflight = Bytes("i", DOMAIN hist["i"]) + Bytes("h", DOMAIN hist["h"]) + Bytes("a", DOMAIN hist["a"])
\* a frame is resolved at most once (structural) and a resolved frame's packet is gone
ResolvedGone == \A f \in resolved : f[2] \notin DOMAIN hist[f[1]]
TimerObligation ==
  (err = "none" /\ ~AmpBlocked /\ (HasOut("i") \/ HasOut("h") \/ (confirmed /\ HasOut("a")))) => alarm
NumbersInOrder == \A s \in Spaces : largestSent[s] < nextPN[s] /\ \A p \in DOMAIN hist[s] : p <= largestSent[s] /\ p \notin skipped[s]
\* C14: before address validation the server has sent at most Amp x received, plus the one packet
\* that was permitted when the limit was reached (checked by the trace spec with the logged size)
=============================================================================
