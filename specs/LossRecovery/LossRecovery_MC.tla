-------------------------- MODULE LossRecovery_MC --------------------------
(* Bounded model of LossRecovery: the environment's moves with every answer  *)
(* the specification allows.                                                 *)
EXTENDS LossRecovery
CONSTANT Active   \* spaces the bounded environment uses
Oblig(h, c, v, sb, rb) ==   \* timer obligation evaluated on a candidate next state
  (~(~v /\ sb >= Amp * rb)) /\
  ((\E p \in DOMAIN h["i"] : Outstanding(h["i"][p])) \/ (\E p \in DOMAIN h["h"] : Outstanding(h["h"][p]))
     \/ (c /\ \E p \in DOMAIN h["a"] : Outstanding(h["a"][p])))
Als == BOOLEAN
MNext ==
  \/ \E s \in Active, skip \in {0, 1}, nf \in {0, 1}, kind \in {"norm", "mtu", "probe"}, al \in Als :
       LET pn == nextPN[s] + skip IN
       Send(s, pn, nextPN[s]..(pn-1), 10, nf, kind, FALSE, inflight + (IF nf > 0 /\ kind # "probe" THEN 10 ELSE 0), al)
  \/ \E s \in Active, S \in SUBSET (0..MaxPN), keep \in SUBSET (0..MaxPN), res \in {"ok", "PROTOCOL_VIOLATION"}, al \in Als :
       /\ keep \subseteq DOMAIN hist[s]
       /\ LET gone == (DOMAIN hist[s]) \ keep
              A == S \cap DOMAIN hist[s]
          IN Ack(s, S, res, IF res = "ok" /\ A # {} THEN FramesIn(s, A) ELSE {}, IF res = "ok" /\ A # {} THEN FramesIn(s, gone \ A) ELSE {},
                 keep, IF res = "ok" /\ A # {} THEN inflight - Bytes(s, gone) ELSE inflight, al)
  \/ \E s \in Active, L \in SUBSET (0..MaxPN), sk \in BOOLEAN, al \in Als :
       /\ L \subseteq DOMAIN hist[s]
       /\ LET lost == [x \in Spaces |-> IF x = s THEN L ELSE {}]
          IN Timeout(lost, FramesIn(s, L), IF sk /\ nextPN["a"] <= MaxPN THEN {nextPN["a"]} ELSE {}, inflight - Bytes(s, L), al)
  \/ \E s \in Active, p \in 0..MaxPN, al \in Als :
       IF HasOut(s)
       THEN p \in DOMAIN hist[s] /\ QueueProbe(s, TRUE, p, FramesIn(s, {p}), (DOMAIN hist[s]) \ {p}, inflight - Bytes(s, {p}), al)
       ELSE p = 0 /\ QueueProbe(s, FALSE, p, {}, DOMAIN hist[s], inflight, al)
  \/ \E s \in {"i", "h"} \cap Active, al \in Als : DropSpace(s, inflight - Bytes(s, DOMAIN hist[s]), al)
  \/ \E al \in Als : "a" \in Active /\ Migrated(FramesIn("a", {p \in DOMAIN hist["a"] : hist["a"][p].kind # "probe"}), {},
                              inflight - Bytes("a", {p \in DOMAIN hist["a"] : hist["a"][p].kind # "probe"}), al)
  \/ \E al \in Als : Retry(FramesIn("i", DOMAIN hist["i"]) \cup FramesIn("a", {p \in DOMAIN hist["a"] : hist["a"][p].kind # "probe"}), 0, al, nextPN["i"], nextPN["a"]) /\ largestAcked["i"] = None /\ Persp = "client"
  \/ \E al \in Als : RecvBytes(10, al) /\ rcvdB < 30
  \/ \E s \in {"i", "h"} \cap Active, al \in Als : RecvPacket(s, al)
\* a correct implementation arms the timer whenever the obligation holds
MSpec == Init /\ [][MNext /\ (alarm' = Oblig(hist', confirmed', validated', sentB', rcvdB'))]_vars
=============================================================================
