SPECIFICATION MSpec
CONSTANTS
  MaxPN = 1
  Persp = "server"
  Amp = 3
  PreValidated = FALSE
  Active = {"i","h"}
INVARIANTS InFlightBalanced ResolvedGone TimerObligation NumbersInOrder
CHECK_DEADLOCK FALSE
