-------------------------- MODULE LossRecovery_Env --------------------------
(* Stimulus alphabet of C06 / C14(amplification): uniform records [op,a,b,c]. *)
(* Spaces: 0 Initial, 1 Handshake, 2 application.  ACK patterns are relative   *)
(* to the largest number sent in the space (the executor resolves them).       *)
EXTENDS SeqEnum
O(op, a, b, c) == [op |-> op, a |-> a, b |-> b, c |-> c]
\* Send: a = space, b = number of frames, c = kind (0 normal, 1 MTU probe, 2 path probe, 3 0-RTT)
Sends == { O("Send", 2, nf, 0) : nf \in 0..2 } \cup { O("Send", 2, 1, k) : k \in 1..3 }
         \cup { O("Send", s, nf, 0) : s \in 0..1, nf \in 0..1 }
\* Ack: a = space, b = pattern
Acks == { O("Ack", 2, p, 0) : p \in 0..8 } \cup { O("Ack", s, p, 0) : s \in 0..1, p \in {0, 4, 5} }
Alphabet == Sends \cup Acks
  \cup { O("Tick", d, 0, 0) : d \in {1, 50, 2000} }
  \cup { O("Timeout", 0, 0, 0), O("Retry", 0, 0, 0), O("Migrated", 0, 0, 0), O("RecvBytes", 1200, 0, 0), O("RecvPacket", 1, 0, 0) }
  \cup { O("QueueProbe", s, 0, 0) : s \in 0..2 }
  \cup { O("Drop", s, 0, 0) : s \in {0, 1, 3} }
Init == EnumInit
Next == EnumNext(Alphabet)
Spec == Init /\ [][Next]_h
=============================================================================
