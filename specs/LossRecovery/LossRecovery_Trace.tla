------------------------- MODULE LossRecovery_Trace -------------------------
(* Validates traces recorded from ackhandler.sentPacketHandler               *)
(* (harness/ackhandler/c06_test.go) against LossRecovery.                     *)
EXTENDS LossRecovery, TraceLib
VARIABLES l, diverged, lastSize
tvars == <<vars, l, diverged, lastSize>>
Line == Trace[l]

SetOfRanges(rs) == UNION { rs[i][1]..rs[i][2] : i \in DOMAIN rs }
Frames(fs) == { <<fs[i][1], fs[i][2], fs[i][3]>> : i \in DOMAIN fs }
Pk(e, s) == SeqToSet(e.pk[s])

\* every callback appears once in the log of a call (a frame reported twice within one call is a violation too)
CallbacksOnce(e) == /\ Has(e, "acked") => Cardinality(Frames(e.acked)) = Len(e.acked)
                    /\ Has(e, "lost") => Cardinality(Frames(e.lost)) = Len(e.lost)
                    /\ (Has(e, "acked") /\ Has(e, "lost")) => Frames(e.acked) \cap Frames(e.lost) = {}
StrictEv ==
  LET e == Line IN
  \/ e.ev = "Reset" /\ ResetAll /\ lastSize' = 0
  \/ /\ e.ev = "Send"
     /\ Send(e.s, e.pn, SeqToSet(e.skips), e.size, e.nf, e.kind, e.zr, e.inf, e.al)
     /\ Pk(e, e.s) = DOMAIN hist'[e.s]
     /\ lastSize' = e.size
  \/ /\ e.ev = "Ack"
     /\ Ack(e.s, SetOfRanges(e.ranges), e.res, Frames(e.acked), Frames(e.lost), Pk(e, e.s), e.inf, e.al)
     /\ UNCHANGED lastSize
  \/ /\ e.ev = "Timeout" /\ e.res = "ok"
     /\ Timeout([s \in Spaces |-> (DOMAIN hist[s]) \ Pk(e, s)], Frames(e.lost), SeqToSet(e.skips), e.inf, e.al)
     /\ Frames(e.acked) = {}
     /\ UNCHANGED lastSize
  \/ /\ e.ev = "QueueProbe"
     /\ QueueProbe(e.s, e.ok, e.p, Frames(e.lost), Pk(e, e.s), e.inf, e.al)
     /\ Frames(e.acked) = {} /\ UNCHANGED lastSize
  \/ /\ e.ev = "Drop" /\ e.s \in {"i", "h"}
     /\ DropSpace(e.s, e.inf, e.al) /\ Frames(e.acked) = {} /\ Frames(e.lost) = {} /\ UNCHANGED lastSize
  \/ /\ e.ev = "Drop" /\ e.s = "z"
     /\ Drop0RTT(Pk(e, "a"), e.inf, e.al) /\ Frames(e.acked) = {} /\ Frames(e.lost) = {} /\ UNCHANGED lastSize
  \/ /\ e.ev = "Retry"
     /\ Retry(Frames(e.lost), e.inf, e.al, e.ni, e.na) /\ Frames(e.acked) = {} /\ UNCHANGED lastSize
  \/ /\ e.ev = "Migrated"
     /\ Migrated(Frames(e.lost), Pk(e, "a"), e.inf, e.al) /\ Frames(e.acked) = {} /\ UNCHANGED lastSize
  \/ e.ev = "RecvBytes" /\ RecvBytes(e.n, e.al) /\ e.inf = inflight /\ UNCHANGED lastSize
  \/ e.ev = "RecvPacket" /\ RecvPacket(e.s, e.al) /\ e.inf = inflight /\ UNCHANGED lastSize
  \/ e.ev = "Blocked" /\ AmpBlocked /\ UNCHANGED <<vars, lastSize>>     \* the send was refused: only legal while blocked

Strict == CallbacksOnce(Line) /\ StrictEv

Step == /\ l <= TraceLen /\ diverged = <<>>
        /\ Strict /\ l' = l + 1 /\ UNCHANGED diverged
Diverge == /\ l <= TraceLen /\ diverged = <<>> /\ ~ENABLED Strict
           /\ diverged' = [line |-> l, ev |-> Line] /\ l' = TraceLen + 1 /\ UNCHANGED <<vars, lastSize>>
TraceInit == Init /\ l = 1 /\ diverged = <<>> /\ lastSize = 0
TraceNext == Step \/ Diverge
TraceSpec == TraceInit /\ [][TraceNext]_tvars
NoDivergence == diverged = <<>>
\* C14: an unvalidated peer was sent at most Amp x what it sent us, plus the one packet that was
\* permitted when the limit was reached
AmpBound == ~validated => sentB <= Amp * rcvdB + lastSize
\* while amplification-blocked the handler reports that nothing may be sent (logged mode of the last line)
ModeNoneWhenBlocked == (l > 1 /\ diverged = <<>> /\ AmpBlocked /\ Has(Trace[l-1], "mode")) => Trace[l-1].mode = "none"
=============================================================================
