SPECIFICATION MSpec
CONSTANTS
  MaxPN = 1
  Persp = "client"
  Amp = 3
  PreValidated = FALSE
  Active = {"i","a"}
INVARIANTS InFlightBalanced ResolvedGone TimerObligation NumbersInOrder
CHECK_DEADLOCK FALSE
