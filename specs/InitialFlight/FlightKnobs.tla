----------------------------- MODULE FlightKnobs -----------------------------
(* TLC as enumerator of InitialPacketSpec knob combinations (C10). *)
EXTENDS Naturals, Sequences, TLC, Json
CONSTANTS Bases
VARIABLE h
Knobs == [base : Bases, dcid : {8, 13, 20}, scid : {0, 5, 20}, pn0 : {0, 1, 255, 70000},
          pnmode : {"default", "single1", "single4", "list12", "list434_single1"},
          tok : {"none", "pre3len32", "pre8len4", "len16", "explicit12"},
          fb : {"base", "nil", "random_plan999", "random_tight", "random_short_plan1000"},
          udp : {0, 1350}]
Init == h = <<>>
Next == h = <<>> /\ \E kn \in Knobs : h' = <<kn>>
Spec == Init /\ [][Next]_h
Emit == h # <<>> => PrintT(ToJson(h))
=============================================================================
