------------------------------- MODULE TPKnobs -------------------------------
(* TLC as enumerator of transport-parameter lists, suppression sets and the randomisation flag (C11). *)
EXTENDS Naturals, Sequences, FiniteSets, TLC, Json
CONSTANTS MaxLen
VARIABLE h
\* symbols: standard parameters, a raw (fake) one, a GREASE parameter, a raw parameter with a GREASE-shaped identifier
Syms == {"max_data", "streams_uni", "google", "grease", "raw58", "idle"}
Lists == UNION { [1..n -> Syms] : n \in 0..MaxLen }
Sups == SUBSET {"max_data", "streams_uni", "grease27", "google"}
Init == h = <<>>
Next == h = <<>> /\ \E l \in Lists, s \in Sups, r \in BOOLEAN : h' = <<[list |-> l, sup |-> s, rand |-> r]>>
Spec == Init /\ [][Next]_h
Emit == h # <<>> => PrintT(ToJson(h))
=============================================================================
