------------------------------ MODULE Suppress_MC ------------------------------
(* TLC check of the specification's own suppression operator (C11): exact, idempotent, order-preserving, *)
(* for every list of up to 3 parameters over a small identifier universe and every suppression set.       *)
EXTENDS Integers, Sequences, FiniteSets, TLC
IDs == {1, 4, 27, 58, 89}          \* 27, 58, 89 are GREASE-shaped (31 N + 27)
IsGrease(id) == id % 31 = 27
Suppressed(id, sup) == id \in sup \/ (27 \in sup /\ IsGrease(id))
SuppressSeq(s, sup) == SelectSeq(s, LAMBDA p : ~Suppressed(p, sup))
Lists == UNION { [1..n -> IDs] : n \in 0..3 }
IsSubSeq(a, b) == \E f \in [DOMAIN a -> DOMAIN b] : (\A i \in DOMAIN a : a[i] = b[f[i]]) /\ (\A i, j \in DOMAIN a : i < j => f[i] < f[j])
VARIABLE done
Init == done = FALSE
Next == done' = TRUE
Spec == Init /\ [][Next]_done
Props == \A s \in Lists, sup \in SUBSET {1, 4, 27, 58} :
  LET r == SuppressSeq(s, sup) IN
  /\ \A i \in DOMAIN r : ~Suppressed(r[i], sup)                                   \* removes every listed identifier
  /\ \A i \in DOMAIN s : ~Suppressed(s[i], sup) => \E j \in DOMAIN r : r[j] = s[i] \* and nothing else
  /\ SuppressSeq(r, sup) = r                                                       \* idempotent
  /\ IsSubSeq(r, s)                                                                \* order preserving
  /\ Len(r) = Cardinality({i \in DOMAIN s : ~Suppressed(s[i], sup)})
ASSUME Props
=============================================================================
