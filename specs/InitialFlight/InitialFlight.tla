---------------------------- MODULE InitialFlight ----------------------------
(***************************************************************************)
(* What an observer who removes Initial packet protection with the standard  *)
(* keys sees of the first flight, against the InitialPacketSpec / QUICSpec    *)
(* knobs that produced it (C10), and the ClientHello's transport parameters   *)
(* against the spec's list after suppression / shuffling (C11).               *)
(* The knobs k arrive with the Reset line of every execution.                 *)
(***************************************************************************)
EXTENDS Integers, Sequences, FiniteSets, TLC, TraceLib

VARIABLES k,        \* knobs of this execution (record)
          dial,     \* current dial
          npkt,     \* Initial packets seen in this dial
          nextPN,   \* packet number expected next
          coff,     \* CRYPTO offset expected at the start of the next datagram carrying CRYPTO
          lastDg,   \* index of the datagram the previous packet belonged to
          tails,    \* token tails seen in earlier dials
          reported, \* TransportParameterIDs() of the spec
          perms,    \* [permutation (sequence of ids) -> times seen]
          poscnt,   \* [<<id, position>> -> count]
          nch,      \* ClientHellos seen
          l, fails, caseFailed
ivars == <<k, dial, npkt, nextPN, coff, lastDg, tails, reported, perms, poscnt, nch, l, fails, caseFailed>>
Line == Trace[l]
Max(a, b) == IF a >= b THEN a ELSE b
Min(a, b) == IF a <= b THEN a ELSE b
Range(s) == { s[i] : i \in DOMAIN s }
HasK(f) == f \in DOMAIN k

----------------------------------------------------------------------------
(* C10: expectations derived from the knobs *)
PN0 == IF HasK("pn0") THEN (IF k.pn0 < 0 THEN 0 ELSE k.pn0) ELSE -1   \* -1: the fingerprint's own first number, learnt from the first packet
\*       \* beyond 2^62-1 the flight starts at 0
ExpPNLen(i) ==                                                            \* i = 0-based packet index; 0 = "library default"
  IF HasK("pnlens") /\ Len(k.pnlens) > 0 THEN k.pnlens[Min(i + 1, Len(k.pnlens))]
  ELSE IF HasK("pnlen") THEN k.pnlen ELSE 0
ExpTokLen == IF HasK("tokpre") \/ HasK("toklen") THEN Max(Get(k, "toklen", 0), Get(k, "tokprelen", 0)) ELSE -1   \* -1: no expectation
PlanFor(i) == IF HasK("plan") /\ Len(k.plan) > 0 THEN k.plan[Min(i + 1, Len(k.plan))] ELSE [crypto |-> 0, size |-> 0]

PktOK(e) ==
  /\ e.opened                                                             \* a conformant server decrypts it
  /\ (HasK("dcidlen") => e.dcidlen = k.dcidlen)
  /\ (HasK("scidlen") => e.scidlen = k.scidlen)
  /\ (nextPN >= 0 => e.pn = nextPN)                                       \* first number and increment
  /\ (ExpPNLen(npkt) # 0 => e.pnlen = ExpPNLen(npkt))
  /\ (ExpPNLen(npkt) = 0 => e.pnlen >= 1)
  /\ (ExpTokLen >= 0 => (e.toklen = ExpTokLen /\ (ExpTokLen > 0 => e.tokpreok)))
  /\ ((e.first /\ PlanFor(e.dg).size = 0) => e.dlen >= Max(1200, Get(k, "udpmin", 0)))   \* datagram sizes (an exact packet size wins)
  /\ e.dlen <= 1452
  /\ (PlanFor(e.dg).size > 0 => e.size = PlanFor(e.dg).size)
  /\ (HasK("fbp") /\ e.ncrypto > 0 =>                                      \* frame counts within the builder's bounds
        /\ e.nping <= Max(k.fbp.maxping, k.fbp.minping)
        /\ e.ncrypto <= Max(Max(k.fbp.maxcrypto, k.fbp.mincrypto), 1))
  /\ (e.cbytes > 0 => e.cmin = coff)                                       \* CRYPTO continues where the previous datagram stopped
  /\ (PlanFor(e.dg).crypto > 0 /\ e.cbytes > 0 /\ ~e.last => e.cbytes = PlanFor(e.dg).crypto)   \* split offsets as planned
  /\ \A i \in DOMAIN e.frames : e.frames[i][1] \in {"padding", "ping", "crypto"}

\* token freshness across dials: a synthesised token's random tail differs from dial to dial
TokFresh(e) == (ExpTokLen - Get(k, "tokprelen", 0) >= 4 /\ e.first /\ npkt = 0) => e.tok \notin tails

----------------------------------------------------------------------------
(* C11: transport parameters *)
IsGrease(id) == id % 31 = 27
\* spec list after suppression: 27 (the canonical GREASE id) suppresses every GREASE id
Suppressed(id, sup) == id \in sup \/ (27 \in sup /\ IsGrease(id))
SuppressSeq(s, sup) == SelectSeq(s, LAMBDA p : ~Suppressed(p[1], sup))
Canon(id) == IF IsGrease(id) THEN 27 ELSE id
\* expected parameter list: entries <<id or 27 for grease, kind>>
ExpTPs == IF HasK("tplist") THEN SuppressSeq(k.tplist, SeqToSet(Get(k, "suppress", <<>>))) ELSE <<>>
WireIDs(e) == [i \in DOMAIN e.tps |-> e.tps[i][1]]    \* (the executor already canonicalises GREASE identifiers to 27)
SortedEq(a, b) == \* equal as multisets
  /\ Len(a) = Len(b)
  /\ \A x \in Range(a) \cup Range(b) : Cardinality({i \in DOMAIN a : a[i] = x}) = Cardinality({i \in DOMAIN b : b[i] = x})
IsSorted(s) == \A i \in DOMAIN s : IF i = 1 THEN TRUE ELSE s[i-1] <= s[i]
CHOK(e) ==
  /\ ~e.conflict /\ e.tperr = ""
  \* cipher suites and extension identifiers are the ClientHelloSpec's, in its order (GREASE positions kept; padding / PSK may be absent)
  /\ Get(e, "extsok", TRUE) /\ Get(e, "ciphersok", TRUE)
  /\ (HasK("tplist") =>
        LET exp == [i \in DOMAIN ExpTPs |-> ExpTPs[i][1]]
        IN IF Get(k, "randomize", FALSE) THEN SortedEq(WireIDs(e), exp) ELSE WireIDs(e) = exp)
  /\ SortedEq(WireIDs(e), reported) /\ IsSorted(reported)                  \* the ID list the spec reports = what a fingerprinter canonicalising the wire sees

----------------------------------------------------------------------------
Strict ==
  LET e == Line IN
  \/ /\ e.ev = "Reset" /\ k' = e.cfg /\ dial' = 0 /\ npkt' = 0 /\ nextPN' = 0 /\ coff' = 0 /\ lastDg' = -1
     /\ tails' = {} /\ reported' = <<>> /\ perms' = [x \in {} |-> 0] /\ poscnt' = [x \in {} |-> 0] /\ nch' = 0
  \/ e.ev = "Reported" /\ reported' = e.ids /\ UNCHANGED <<k, dial, npkt, nextPN, coff, lastDg, tails, perms, poscnt, nch>>
  \/ /\ e.ev = "DialStart" /\ dial' = e.dial /\ npkt' = 0 /\ nextPN' = PN0 /\ coff' = 0 /\ lastDg' = -1
     /\ UNCHANGED <<k, tails, reported, perms, poscnt, nch>>
  \/ /\ e.ev = "Pkt" /\ PktOK(e) /\ TokFresh(e)
     /\ npkt' = npkt + 1 /\ nextPN' = e.pn + 1 /\ coff' = coff + e.cbytes /\ lastDg' = e.dg
     /\ tails' = IF npkt = 0 THEN tails \cup {e.tok} ELSE tails
     /\ UNCHANGED <<k, dial, reported, perms, poscnt, nch>>
  \/ /\ e.ev = "CH" /\ CHOK(e)
     /\ LET ids == WireIDs(e) IN
        /\ perms' = [x \in (DOMAIN perms) \cup {ids} |-> IF x = ids THEN (IF ids \in DOMAIN perms THEN perms[ids] ELSE 0) + 1 ELSE perms[x]]
        /\ poscnt' = [x \in (DOMAIN poscnt) \cup {<<ids[i], i>> : i \in DOMAIN ids} |->
                       (IF x \in DOMAIN poscnt THEN poscnt[x] ELSE 0) + (IF \E i \in DOMAIN ids : x = <<ids[i], i>> THEN 1 ELSE 0)]
     /\ nch' = nch + 1
     /\ UNCHANGED <<k, dial, npkt, nextPN, coff, lastDg, tails, reported>>
  \/ /\ e.ev = "DialEnd" /\ e.chdone /\ npkt >= 1                          \* the flight carried the complete ClientHello
     /\ UNCHANGED <<k, dial, npkt, nextPN, coff, lastDg, tails, reported, perms, poscnt, nch>>
  \/ /\ e.ev = "End"
     \* distribution of the per-dial shuffle (small lists, many dials): every permutation seen, position frequencies
     \* within 7 standard deviations of uniform: (c*n - N)^2 <= 49*N*(n-1)
     /\ (Get(k, "distribution", FALSE) =>
           LET n == Len(ExpTPs)
               fact == IF n = 1 THEN 1 ELSE IF n = 2 THEN 2 ELSE IF n = 3 THEN 6 ELSE 24
           IN /\ Cardinality(DOMAIN perms) = fact
              /\ \A x \in DOMAIN poscnt : (poscnt[x] * n - nch) * (poscnt[x] * n - nch) <= 49 * nch * (n - 1))
     /\ UNCHANGED <<k, dial, npkt, nextPN, coff, lastDg, tails, reported, perms, poscnt, nch>>

NextReset(j) == CHOOSE m \in (j + 1)..(TraceLen + 1) :
                  /\ (m = TraceLen + 1 \/ Trace[m].ev = "Reset")
                  /\ \A q \in (j + 1)..(m - 1) : Trace[q].ev # "Reset"
Step == /\ l <= TraceLen /\ Strict /\ l' = l + 1
        /\ fails' = fails /\ caseFailed' = (IF Line.ev = "Reset" THEN FALSE ELSE caseFailed)
Diverge == /\ l <= TraceLen /\ ~ENABLED Strict
           /\ fails' = IF caseFailed THEN fails ELSE Append(fails, [line |-> l, inv |-> "NoDivergence"])
           /\ caseFailed' = TRUE /\ l' = NextReset(l)
           /\ UNCHANGED <<k, dial, npkt, nextPN, coff, lastDg, tails, reported, perms, poscnt, nch>>
TraceInit == /\ k = [x \in {} |-> 0] /\ dial = 0 /\ npkt = 0 /\ nextPN = 0 /\ coff = 0 /\ lastDg = -1 /\ tails = {} /\ reported = <<>>
             /\ perms = [x \in {} |-> 0] /\ poscnt = [x \in {} |-> 0] /\ nch = 0 /\ l = 1 /\ fails = <<>> /\ caseFailed = FALSE
TraceSpec == TraceInit /\ [][Step \/ Diverge]_ivars
Collected == (l = TraceLen + 1) => fails = <<>>
=============================================================================
