----------------------------- MODULE CryptoTiling -----------------------------
(* C09 - Initial CRYPTO framing always carries the complete ClientHello at    *)
(* true offsets.                                                              *)
(*                                                                            *)
(* The observer (an independent frame reader) reports every frame put on the  *)
(* wire, or returned by a builder, as one Frame step:                         *)
(*   type  "padding" | "ping" | "crypto" | anything else                      *)
(*   off, len  of a CRYPTO frame                                              *)
(*   match  the frame's bytes equal the ClientHello's bytes at [off, off+len) *)
(*          (the harness knows the ClientHello, or - on the wire - checks     *)
(*          that no two frames disagree on a byte and that the reassembled    *)
(*          message parses as the ClientHello announced in its own header)    *)
(* Coverage is kept as the contiguous prefix [lo, cov) plus the pieces beyond *)
(* it; CryptoTiling_MC shows with TLC that cov = hi at the end is exactly     *)
(* "every byte of [lo, hi) is carried by some frame".                         *)
EXTENDS Integers, Sequences, FiniteSets

VARIABLES lo, hi,     \* the bytes this framing is responsible for: [lo, hi) of the CRYPTO stream (hi = -1: not known yet)
          cov,        \* [lo, cov) is covered
          pend,       \* covered pieces <<a, b>> beyond cov
          nframes,    \* frames seen since Start
          step
vars == <<lo, hi, cov, pend, nframes, step>>

NoStep == [kind |-> "none", type |-> "", off |-> 0, len |-> 0, match |-> TRUE, err |-> FALSE, stuck |-> FALSE]

RECURSIVE Absorb(_, _)
Absorb(c, P) ==
  IF \E r \in P : r[1] <= c
  THEN LET r == CHOOSE r \in P : r[1] <= c IN Absorb(IF r[2] > c THEN r[2] ELSE c, P \ {r})
  ELSE <<c, P>>

Start(l, h) ==
  /\ lo' = l /\ hi' = h /\ cov' = l /\ pend' = {} /\ nframes' = 0 /\ step' = NoStep
Frame(type, off, len, match) ==
  /\ nframes' = nframes + 1
  /\ LET a == Absorb(cov, IF type = "crypto" /\ len > 0 THEN pend \cup {<<off, off + len>>} ELSE pend) IN
       cov' = a[1] /\ pend' = a[2]
  /\ step' = [NoStep EXCEPT !.kind = "Frame", !.type = type, !.off = off, !.len = len, !.match = match]
  /\ UNCHANGED <<lo, hi>>
\* the ClientHello's length became known (whole-stack tier: from the handshake header inside the reassembled bytes)
Learn(h) == hi' = h /\ step' = [NoStep EXCEPT !.kind = "Learn"] /\ UNCHANGED <<lo, cov, pend, nframes>>
\* the framing is finished (builder returned / flight sent / stream drained); err: the configuration was rejected
End(err, stuck) ==
  /\ step' = [NoStep EXCEPT !.kind = "End", !.err = err, !.stuck = stuck]
  /\ UNCHANGED <<lo, hi, cov, pend, nframes>>
Crash == step' = [NoStep EXCEPT !.kind = "Panic"] /\ UNCHANGED <<lo, hi, cov, pend, nframes>>

------------------------------------------------------------------------------
OnlyInitialFrames == step.kind = "Frame" => step.type \in {"padding", "ping", "crypto"}
TrueOffsets == (step.kind = "Frame" /\ step.type = "crypto") =>
                  /\ step.match /\ step.off >= lo
                  /\ (hi >= 0 => step.off + step.len <= hi)      \* never zero-extended / shifted past the end
CompleteOrRejected == (step.kind = "End" /\ ~step.err) => hi >= 0 /\ cov = hi /\ pend = {}
RejectedBeforeSend == (step.kind = "End" /\ step.err) => nframes = 0
NeverStuck == step.kind = "End" => ~step.stuck
NeverPanics == step.kind # "Panic"
=============================================================================
