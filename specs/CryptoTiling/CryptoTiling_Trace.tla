-------------------------- MODULE CryptoTiling_Trace --------------------------
(* Validates traces of harness/root/c09_test.go (builders, scrambler, wire).   *)
EXTENDS CryptoTiling, TraceLib
VARIABLES l
tvars == <<vars, l>>
Line == Trace[l]
Ev(e) ==
  CASE e.ev = "Reset" -> Start(0, -1)
    [] e.ev = "Start" -> Start(e.lo, e.hi)
    [] e.ev = "Frame" -> Frame(e.type, e.off, e.len, e.match)
    [] e.ev = "Learn" -> Learn(e.hi)
    [] e.ev = "End"   -> End(e.err, e.stuck)
    [] e.ev = "Panic" -> Crash
TraceInit == l = 1 /\ lo = 0 /\ hi = -1 /\ cov = 0 /\ pend = {} /\ nframes = 0 /\ step = NoStep
TraceNext == l <= TraceLen /\ Ev(Line) /\ l' = l + 1
TraceSpec == TraceInit /\ [][TraceNext]_tvars
=============================================================================
