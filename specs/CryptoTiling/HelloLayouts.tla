---------------------------- MODULE HelloLayouts ----------------------------
(* TLC as enumerator of ClientHello extension layouts (C09 scrambler tier):   *)
(* every sequence of L extensions - SNI / ECH of several sizes at any         *)
(* position, several of them, none of them.                                   *)
EXTENDS SeqEnum
Letters == {"sni1", "sni10", "sni40", "sni_other_first", "sni_no_host", "ech1", "ech5", "ech12", "ech13", "ech100", "ech300",
            "fill0", "fill3", "fill20", "fill700"}
Alphabet == { [a |-> x] : x \in Letters }
Init == EnumInit
Next == EnumNext(Alphabet)
Spec == Init /\ [][Next]_h
=============================================================================
