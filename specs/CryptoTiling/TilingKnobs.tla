----------------------------- MODULE TilingKnobs -----------------------------
(* TLC as enumerator of QUICRandomFrames parameterisations x slice lengths x  *)
(* base offsets (C09 builder tier).                                           *)
EXTENDS Naturals, Sequences, TLC, Json
VARIABLE h
Knobs == [minping : {0, 2}, maxping : {0, 2}, mincrypto : {0, 1, 3}, maxcrypto : {0, 1, 3, 8},
          minpad : {0, 1, 3}, maxpad : {0, 3}, length : {0, 300, 1200, 3000},
          n : {0, 1, 2, 7, 300, 1162, 1700}, base : {0, 1162, 70000}]
Init == h = <<>>
Next == h = <<>> /\ \E kn \in Knobs : h' = <<kn>>
Spec == Init /\ [][Next]_h
Emit == h # <<>> => PrintT(ToJson(h))
=============================================================================
