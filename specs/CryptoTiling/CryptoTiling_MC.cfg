SPECIFICATION Spec
CONSTANTS N = 5 K = 4
INVARIANT Agree
CHECK_DEADLOCK FALSE
