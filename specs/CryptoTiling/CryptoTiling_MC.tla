--------------------------- MODULE CryptoTiling_MC ---------------------------
(* TLC: for every sequence of at most K CRYPTO frames over a stream of N      *)
(* bytes (any order, overlaps, duplicates, gaps), the incremental coverage    *)
(* (cov, pend) says "complete" exactly when every byte is carried.            *)
EXTENDS CryptoTiling, TLC
CONSTANTS N, K
VARIABLE seen    \* the set of bytes carried so far (declarative side)
Init == lo = 0 /\ hi = N /\ cov = 0 /\ pend = {} /\ nframes = 0 /\ step = NoStep /\ seen = {}
Next == nframes < K /\ \E a \in 0..N, b \in 0..N : a <= b /\ Frame("crypto", a, b - a, TRUE) /\ seen' = seen \cup (a..(b-1))
Spec == Init /\ [][Next]_<<vars, seen>>
Agree == /\ (cov = hi /\ pend = {}) <=> seen = 0..(N-1)
         /\ \A i \in 0..(cov-1) : i \in seen
         /\ \A r \in pend : r[1] > cov /\ \A i \in r[1]..(r[2]-1) : i \in seen
=============================================================================
