----------------------------- MODULE Tokens_Env -----------------------------
(* Stimulus alphabet of C14 (token tier): tokens issued to an address, time   *)
(* passing around the lifetimes, presentations - unchanged or mutated, from   *)
(* any address, under the issuing or another key.                             *)
EXTENDS SeqEnum, Integers
O(op, a, b, c) == [op |-> op, a |-> a, b |-> b, c |-> c]
Addrs == {"a", "a2", "b", "a6", "b6", "am"}
Alphabet ==
       { O("Issue", k, ad, "") : k \in {"retry", "new"}, ad \in {"a", "a6"} }
  \cup { O("Tick", d, "", "") : d \in {90, 110, 1000} }
  \cup { O("Present", m, ad, "same") : m \in {"none"}, ad \in Addrs }
  \cup { O("Present", m, "a", "same") : m \in {"trunc", "flip", "extend", "empty", "prefix"} }
  \cup { O("Present", "none", "a", "other"), O("Present", "none", "a6", "other") }
Init == EnumInit
Next == EnumNext(Alphabet)
Spec == Init /\ [][Next]_h
=============================================================================
