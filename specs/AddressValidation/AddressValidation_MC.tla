------------------------- MODULE AddressValidation_MC -------------------------
(* Reference server (sends only while validated or sent < 3 x received, as    *)
(* sentPacketHandler.isAmplificationLimited decides it) against every         *)
(* arrival pattern: TLC checks the bound the wire tier is validated against,  *)
(* including "plus the one datagram permitted when the limit was reached".    *)
EXTENDS AddressValidation, TLC
CONSTANTS MaxDg, N
Init == rcvd = 0 /\ sent = 0 /\ validated = FALSE /\ issued = <<>> /\ now = 0 /\ step = NoStep
Arrive == rcvd + sent < N /\ \E s \in 1..MaxDg, p \in BOOLEAN : ClientDatagram(s, p)
Send == rcvd + sent < N /\ (validated \/ sent < Factor * rcvd) /\ \E s \in 1..MaxDg : ServerDatagram(s)
Next == Arrive \/ Send
Spec == Init /\ [][Next]_vars
Bound == validated \/ sent <= Factor * rcvd + MaxDg - 1
=============================================================================
