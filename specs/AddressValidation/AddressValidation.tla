-------------------------- MODULE AddressValidation --------------------------
(* C14 - unvalidated clients get at most 3x their bytes; tokens prove only    *)
(* their address.                                                             *)
(*                                                                            *)
(* Part 1 (wire): the observer at the router counts, per connection attempt,  *)
(* the bytes delivered to the server from the client's address and the bytes  *)
(* the server sends towards it.  The address is validated when a genuine      *)
(* client Handshake packet, or an Initial carrying the Retry token the server *)
(* issued to this address, has been delivered.                                *)
(* Part 2 (tokens): tokens issued by handshake.TokenGenerator are presented   *)
(* to the server's decode-and-validate sequence (server.go handleInitialImpl: *)
(* DecodeToken, then validateToken) unchanged or mutated, from the same or    *)
(* another address, with the same or another key, at a later time.            *)
EXTENDS Integers, Sequences, FiniteSets
CONSTANTS Factor          \* 3

VARIABLES rcvd, sent, validated,     \* part 1
          issued, now,               \* part 2: token id -> [kind, addr, t, ids, life]
          step
vars == <<rcvd, sent, validated, issued, now, step>>
NoStep == [kind |-> "none", size |-> 0, before |-> 0, ok |-> TRUE]

\* a datagram from the client's address is delivered to the server; proves: it carries what validates the address
ClientDatagram(size, proves) ==
  /\ rcvd' = rcvd + size /\ validated' = (validated \/ proves)
  /\ step' = [NoStep EXCEPT !.kind = "C2S", !.size = size]
  /\ UNCHANGED <<sent, issued, now>>
\* the server hands a datagram for the client's address to the network
ServerDatagram(size) ==
  /\ sent' = sent + size
  /\ step' = [NoStep EXCEPT !.kind = "S2C", !.size = size, !.before = sent, !.ok = (validated \/ sent < Factor * rcvd)]
  /\ UNCHANGED <<rcvd, validated, issued, now>>
NewAttempt == rcvd' = 0 /\ sent' = 0 /\ validated' = FALSE /\ step' = NoStep /\ UNCHANGED <<issued, now>>

\* at most three times the bytes received, plus the one datagram that was permitted when the limit was reached
AmplificationBound == step.kind = "S2C" => step.ok

------------------------------------------------------------------------------
Issue(id, kind, addr, ids, life) ==
  /\ issued' = [x \in DOMAIN issued \cup {id} |-> IF x = id THEN [kind |-> kind, addr |-> addr, t |-> now, ids |-> ids, life |-> life] ELSE issued[x]]
  /\ step' = [NoStep EXCEPT !.kind = "Issue"]
  /\ UNCHANGED <<rcvd, sent, validated, now>>
Advance(t) == now' = t /\ step' = [NoStep EXCEPT !.kind = "Tick"] /\ UNCHANGED <<rcvd, sent, validated, issued>>
\* mut: "none" or how the bytes were altered; samekey: decoded with the issuing key; accepted: treated as proof of address;
\* idsback: the connection IDs a decoded Retry token handed back (<<>> if none)
Present(id, mut, samekey, addr, accepted, idsback) ==
  LET tk == issued[id] IN
  /\ step' = [NoStep EXCEPT !.kind = "Present",
                !.ok = /\ (accepted => /\ mut = "none" /\ samekey /\ addr = tk.addr /\ now - tk.t <= tk.life)
                       /\ ((accepted /\ tk.kind = "retry") => idsback = tk.ids)]
  /\ UNCHANGED <<rcvd, sent, validated, issued, now>>
\* a token validates only for its address, within its lifetime, unaltered, under its key; a Retry token returns exactly its connection IDs
TokensProveOnlyTheirAddress == step.kind = "Present" => step.ok
=============================================================================
