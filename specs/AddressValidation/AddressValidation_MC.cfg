SPECIFICATION Spec
CONSTANTS Factor = 3 MaxDg = 3 N = 14
INVARIANTS AmplificationBound Bound
CHECK_DEADLOCK FALSE
