---------------------------- MODULE AmpInductive ----------------------------
(* Unbounded version of the argument TLC checks within small constants in    *)
(* AddressValidation_MC: for a server that sends a datagram only while the   *)
(* address is validated or sent < 3 x received, the bound                    *)
(*     validated \/ sent <= 3 * rcvd + MaxDg - 1                             *)
(* is an inductive invariant for datagrams of 1..MaxDg bytes, for all byte   *)
(* counts (Apalache: Init => IndInv, IndInv /\ Next => IndInv').             *)
EXTENDS Integers
CONSTANT
  \* @type: Int;
  MaxDg
VARIABLES
  \* @type: Int;
  rcvd,
  \* @type: Int;
  sent,
  \* @type: Bool;
  validated
ConstInit == MaxDg \in 1..65535
Init == rcvd = 0 /\ sent = 0 /\ validated = FALSE
Arrive == \E s \in 1..MaxDg : \E p \in BOOLEAN : rcvd' = rcvd + s /\ validated' = (validated \/ p) /\ UNCHANGED sent
Send == (validated \/ sent < 3 * rcvd) /\ \E s \in 1..MaxDg : sent' = sent + s /\ UNCHANGED <<rcvd, validated>>
Next == Arrive \/ Send
IndInv == rcvd >= 0 /\ sent >= 0 /\ (validated \/ sent <= 3 * rcvd + MaxDg - 1)
IndInit == rcvd \in Int /\ sent \in Int /\ validated \in BOOLEAN /\ IndInv
=============================================================================
