------------------------ MODULE AddressValidation_Trace ------------------------
(* Validates traces of harness/root/c14_test.go against AddressValidation.     *)
EXTENDS AddressValidation, TraceLib
VARIABLES l
tvars == <<vars, l>>
Line == Trace[l]
Ev(e) ==
  CASE e.ev \in {"Reset", "Attempt"} -> (IF e.ev = "Reset" THEN issued' = <<>> /\ now' = 0 /\ rcvd' = 0 /\ sent' = 0 /\ validated' = FALSE /\ step' = NoStep ELSE NewAttempt)
    [] e.ev = "C2S" -> ClientDatagram(e.size, e.proves)
    [] e.ev = "S2C" -> ServerDatagram(e.size)
    [] e.ev = "Issue" -> Issue(e.id, e.kind, e.addr, e.ids, e.life)
    [] e.ev = "Tick" -> Advance(e.now)
    [] e.ev = "Present" -> Present(e.id, e.mut, e.samekey, e.addr, e.accepted, e.idsback)
    [] e.ev \in {"Note", "Panic", "End"} -> UNCHANGED vars
TraceInit == l = 1 /\ rcvd = 0 /\ sent = 0 /\ validated = FALSE /\ issued = <<>> /\ now = 0 /\ step = NoStep
TraceNext == l <= TraceLen /\ Ev(Line) /\ l' = l + 1
TraceSpec == TraceInit /\ [][TraceNext]_tvars
=============================================================================
