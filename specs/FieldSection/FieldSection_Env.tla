--------------------------- MODULE FieldSection_Env ---------------------------
(* Stimulus alphabet of C19 (parser tier): every sequence of L field letters; *)
(* bin/props/c19.py instantiates a letter with concrete bytes.                *)
EXTENDS SeqEnum
Letters == {"method", "path", "path_empty", "scheme", "authority", "authority_crlf", "status", "protocol",
            "p_unknown", "p_upper", "tok", "tok_lf", "tok_nul", "tok_ctl", "tok_empty", "upper", "badname", "colon_inside",
            "connspec", "te_trailers", "te_gzip", "cl5", "cl7", "cl_abc", "cl_empty", "cl_neg", "cookie", "host"}
Alphabet == { [a |-> x] : x \in Letters }
Init == EnumInit
Next == EnumNext(Alphabet)
Spec == Init /\ [][Next]_h
=============================================================================
