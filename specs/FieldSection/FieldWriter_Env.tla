--------------------------- MODULE FieldWriter_Env ---------------------------
(* Stimulus alphabet of C19 (writer tier): header map entries as an           *)
(* application may set them - every spelling of the key.                      *)
EXTENDS SeqEnum
Names == {"connection", "keep-alive", "proxy-connection", "transfer-encoding", "upgrade", "host", "content-length",
          "user-agent", "cookie", "x-custom", "te", "accept-encoding", "content-type"}
Forms == {"canon", "lower", "upper"}
Alphabet == { [name |-> n, form |-> f] : n \in Names, f \in Forms }
Init == EnumInit
Next == EnumNext(Alphabet)
Spec == Init /\ [][Next]_h
=============================================================================
