--------------------------- MODULE FieldSection_MC ---------------------------
(* TLC: for every sequence of at most L field classes, every kind of section  *)
(* and limits around the size, the incremental acceptor (what a parser loop   *)
(* can compute field by field) and the declarative WellFormed agree.          *)
EXTENDS FieldSection, TLC
CONSTANTS L, Limits
F(nk, vk, v) == [nk |-> nk, vk |-> vk, v |-> v, size |-> 1]
Alphabet ==
  { F(p, "ok", "") : p \in Pseudo } \cup { F(":path", "empty", ""), F(":authority", "bad", ""), F("p_unknown", "ok", ""), F("p_upper", "ok", "") }
  \cup { F("tok", vk, "") : vk \in {"ok", "bad", "ctl", "empty"} }
  \cup { F("upper", "ok", ""), F("bad", "ok", ""), F("connspec", "ok", ""), F("te", "trailers", ""), F("te", "ok", "") }
  \cup { F("cl", "num", "5"), F("cl", "num", "7"), F("cl", "ok", "x"), F("cl", "empty", "") }
Init == /\ kind \in {"request", "response", "trailer"} /\ limit \in Limits
        /\ fields = <<>> /\ acc = NoAcc /\ step = NoStep
Next == Len(fields) < L /\ \E f \in Alphabet : Feed(f)
Spec == Init /\ [][Next]_vars
Equivalent == acc.ok = WellFormed(kind, fields, limit)
=============================================================================
