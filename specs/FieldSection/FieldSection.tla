---------------------------- MODULE FieldSection ----------------------------
(* C19 - only well-formed HTTP/3 field sections are accepted; writers and     *)
(* parser agree.                                                              *)
(*                                                                            *)
(* A field is seen through a classification (made by the harness with its own *)
(* classifier, not the code's):                                               *)
(*   nk  name kind:  ":method" ":path" ":scheme" ":authority" ":protocol"     *)
(*                   ":status"  (known pseudo-header fields, lower case)      *)
(*                   "p_unknown" (any other name starting with ':')           *)
(*                   "p_upper"  (a pseudo-header name with an upper-case letter)*)
(*                   "tok" (lower-case token) "upper" (token with upper case)  *)
(*                   "bad" (empty / not a token)                              *)
(*                   "connspec" (connection keep-alive proxy-connection       *)
(*                              transfer-encoding upgrade)                    *)
(*                   "te" "cl" (content-length)                               *)
(*   vk  value kind: "ok" "empty" "num" (1*DIGIT, fits 63 bits) "trailers"    *)
(*                   "bad" (contains NUL / CR / LF)                           *)
(*                   "ctl" (another control byte or DEL: not judged)          *)
(*   v   the value itself for content-length fields, "" otherwise             *)
(*   size  len(name) + len(value) + 32                                        *)
(*                                                                            *)
(* WellFormed is the declarative reading of the property; Feed is the         *)
(* incremental acceptor (one step per decoded field, like the parser's loop). *)
(* FieldSection_MC shows with TLC that the two coincide for every sequence;   *)
(* FieldSection_Trace validates what the real parser accepted.                *)
EXTENDS Integers, Sequences, FiniteSets

Pseudo == {":method", ":path", ":scheme", ":authority", ":protocol", ":status"}
IsPseudoKind(nk) == nk \in Pseudo \cup {"p_unknown", "p_upper"}
ReqPseudo == Pseudo \ {":status"}

VARIABLES kind,      \* "request" | "response" | "trailer"
          limit,     \* configured size limit of the decoded section
          fields,    \* the fields decoded so far
          acc,       \* incremental acceptor: [ok, regular (a regular field was seen), seen (pseudo names), cl (<<>> or <<v>>), used]
          step
vars == <<kind, limit, fields, acc, step>>

RECURSIVE SumSize(_)
SumSize(s) == IF s = <<>> THEN 0 ELSE Head(s).size + SumSize(Tail(s))

FieldOK(k, f) ==
  /\ f.nk \notin {"bad", "upper", "p_upper", "p_unknown", "connspec"}
  /\ f.vk # "bad"
  /\ (f.nk = "te" => f.vk = "trailers")
  /\ (f.nk \in Pseudo => CASE k = "request"  -> f.nk \in ReqPseudo
                           [] k = "response" -> f.nk = ":status"
                           [] OTHER -> FALSE)

\* content-length: single-valued and numeric (an empty value is treated as absent by the parser: named deviation)
CLOK(s) == LET cls == { i \in DOMAIN s : s[i].nk = "cl" } IN
  /\ \A i, j \in cls : s[i].v = s[j].v
  /\ \A i \in cls : s[i].vk \in {"num", "empty"}

WellFormed(k, s, lim) ==
  /\ \A i \in DOMAIN s : FieldOK(k, s[i])
  /\ \A i, j \in DOMAIN s : (i < j /\ IsPseudoKind(s[j].nk)) => IsPseudoKind(s[i].nk)     \* pseudo ahead of regular
  /\ \A i, j \in DOMAIN s : (i # j /\ s[i].nk \in Pseudo) => s[i].nk # s[j].nk         \* unique
  /\ CLOK(s)
  /\ SumSize(s) <= lim

NoAcc == [ok |-> TRUE, regular |-> FALSE, seen |-> {}, cl |-> <<>>, used |-> 0]
NoStep == [kind |-> "none", accepted |-> FALSE, out |-> 0, same |-> FALSE, werr |-> FALSE, errclass |-> ""]

FeedAcc(a, f) ==
  LET used2 == a.used + f.size
      ok2 == /\ a.ok /\ used2 <= limit /\ FieldOK(kind, f)
             /\ (IsPseudoKind(f.nk) => ~a.regular /\ f.nk \notin a.seen)
             /\ (f.nk = "cl" => f.vk \in {"num", "empty"} /\ (a.cl = <<>> \/ a.cl[1] = f.v))
  IN [ok |-> ok2, regular |-> a.regular \/ ~IsPseudoKind(f.nk),
      seen |-> IF f.nk \in Pseudo THEN a.seen \cup {f.nk} ELSE a.seen,
      cl |-> IF f.nk = "cl" /\ a.cl = <<>> THEN <<f.v>> ELSE a.cl, used |-> used2]

Start(k, lim) ==
  /\ kind' = k /\ limit' = lim /\ fields' = <<>> /\ acc' = NoAcc /\ step' = NoStep
Feed(f) ==
  /\ fields' = Append(fields, f) /\ acc' = FeedAcc(acc, f)
  /\ step' = [NoStep EXCEPT !.kind = "Field"]
  /\ UNCHANGED <<kind, limit>>
\* the parser's verdict; out = number of regular field values it handed over
Result(accepted, out, errclass) ==
  /\ step' = [NoStep EXCEPT !.kind = "Result", !.accepted = accepted, !.out = out, !.errclass = errclass]
  /\ UNCHANGED <<kind, limit, fields, acc>>
\* a writer's output was decoded into fields (fed above) and parsed back
WriterResult(werr, accepted, same) ==
  /\ step' = [NoStep EXCEPT !.kind = "Writer", !.werr = werr, !.accepted = accepted, !.same = same]
  /\ UNCHANGED <<kind, limit, fields, acc>>

------------------------------------------------------------------------------
(* clauses *)
Regulars == { i \in DOMAIN fields : ~IsPseudoKind(fields[i].nk) /\ fields[i].nk # "cl" }
HasCL == \E i \in DOMAIN fields : fields[i].nk = "cl" /\ fields[i].vk = "num"
\* every accepted section is well-formed
AcceptedOnlyWellFormed == (step.kind = "Result" /\ step.accepted) => WellFormed(kind, fields, limit)
\* ... and is handed over completely: every regular field value, content-length once
HandedOverFaithfully == (step.kind = "Result" /\ step.accepted /\ step.out >= 0) => step.out = Cardinality(Regulars) + (IF HasCL THEN 1 ELSE 0)
\* a section over the limit is answered as excessive load, any other malformed one as a message error
RejectedWithRightError ==
  (step.kind = "Result" /\ ~step.accepted /\ step.errclass # "" /\ ~WellFormed(kind, fields, limit)) =>
     IF SumSize(fields) > limit /\ WellFormed(kind, fields, SumSize(fields))
     THEN step.errclass = "excessive_load" ELSE step.errclass \in {"message_error", "excessive_load"}
\* what a writer emits without error is well-formed, accepted by the parser and decodes to the same fields
WriterEmitsWellFormed == (step.kind = "Writer" /\ ~step.werr) => WellFormed(kind, fields, limit)
WriterParserAgree == (step.kind = "Writer" /\ ~step.werr) => step.accepted /\ step.same
=============================================================================
