SPECIFICATION Spec
CONSTANTS L = 4 Limits = {2, 3, 100}
INVARIANT Equivalent
CHECK_DEADLOCK FALSE
