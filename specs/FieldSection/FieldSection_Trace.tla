-------------------------- MODULE FieldSection_Trace --------------------------
(* Validates traces recorded from the real HTTP/3 field-section parser and    *)
(* writers (harness/http3/c19_test.go, c19s_test.go) against FieldSection.    *)
EXTENDS FieldSection, TraceLib
VARIABLES l
tvars == <<vars, l>>
Line == Trace[l]

Ev(e) ==
  CASE e.ev = "Reset"  -> Start("request", 0)
    [] e.ev = "Start"  -> Start(e.kind, e.limit)
    [] e.ev = "Field"  -> Feed([nk |-> e.nk, vk |-> e.vk, v |-> e.v, size |-> e.size])
    [] e.ev = "Result" -> Result(e.accepted, e.out, e.errclass)
    [] e.ev = "Writer" -> WriterResult(e.werr, e.accepted, e.same)
    [] e.ev = "Panic"  -> UNCHANGED vars

TraceInit == l = 1 /\ kind = "request" /\ limit = 0 /\ fields = <<>> /\ acc = NoAcc /\ step = NoStep
TraceNext == l <= TraceLen /\ Ev(Line) /\ l' = l + 1
TraceSpec == TraceInit /\ [][TraceNext]_tvars
\* the incremental acceptor and the declarative definition agree on every recorded section too
AcceptorAgrees == step.kind \in {"Result", "Writer"} => acc.ok = WellFormed(kind, fields, limit)
=============================================================================
