--------------------------- MODULE AckWire_Trace ---------------------------
(* Validates 1-RTT wire traces of a real connection (harness/root/c07w_test.go, *)
(* recorded through Config.Tracer on both sides) against AckWire.               *)
EXTENDS AckWire, TraceLib
VARIABLES l
tvars == <<vars, l>>
Line == Trace[l]
SetOf(rs) == UNION { rs[i][1]..rs[i][2] : i \in DOMAIN rs }
Ev(e) ==
  CASE e.ev = "Reset" -> Start
    [] e.ev = "Rx" -> Rx(e.side, e.pn, e.ae, e.t)
    [] e.ev = "TxAck" -> TxAck(e.side, SetOf(e.ranges), e.t)
    [] e.ev = "End" -> End(e.t)
    [] e.ev \in {"Note", "Panic"} -> UNCHANGED vars
TraceInit == /\ l = 1 /\ rcvd = [x \in Sides |-> {}] /\ pending = [x \in Sides |-> [p \in {} |-> 0]]
             /\ overdue = [x \in Sides |-> {}] /\ step = NoStep
TraceNext == l <= TraceLen /\ Ev(Line) /\ l' = l + 1
TraceSpec == TraceInit /\ [][TraceNext]_tvars
=============================================================================
