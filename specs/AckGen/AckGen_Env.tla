----------------------------- MODULE AckGen_Env -----------------------------
(* Stimulus alphabet of C07: arrivals in any order (duplicates, late packets), *)
(* clock ticks around the max ack delay, ACK retrievals, forget-below updates. *)
EXTENDS SeqEnum
CONSTANTS N, Kind      \* numbers 0..N-1; Kind "app" | "hs"
O(op, a, b, c) == [op |-> op, a |-> a, b |-> b, c |-> c]
\* Recv: a = pn, b = 1 if ack-eliciting, c = ECN mark (0 none, 3 CE)
Recvs == { O("Recv", pn, 1, 0) : pn \in 0..(N-1) } \cup { O("Recv", pn, 0, 0) : pn \in 0..(N-1) }
Alphabet ==
  IF Kind = "app"
  THEN Recvs \cup { O("Recv", pn, 1, 3) : pn \in {0, N-1} }
        \cup { O("Tick", d, 0, 0) : d \in {1000, 24000, 25000} }
        \cup { O("GetAck", q, 0, 0) : q \in {0, 1} }
        \cup { O("Ignore", 0, 0, 0) }    \* the peer confirmed the last ACK sent: forget below its largest + 1
  ELSE Recvs \cup { O("GetAck", 0, 0, 0), O("Drop", 0, 0, 0) }
Init == EnumInit
Next == EnumNext(Alphabet)
Spec == Init /\ [][Next]_h
=============================================================================
