SPECIFICATION Spec
CONSTANTS D = 3
 Slack = 0
 MaxT = 12
 PNs = {0, 1, 2}
INVARIANTS WireAckDue WireAckSound NoLateAck
CHECK_DEADLOCK FALSE
