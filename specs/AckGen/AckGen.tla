------------------------------- MODULE AckGen -------------------------------
(***************************************************************************)
(* ACK generation and duplicate detection of one packet-number space (C07). *)
(*                                                                         *)
(* Space = "app": the 1-RTT policy (ACK every 2nd ack-eliciting packet,     *)
(* immediately when a packet fills a gap reported in the last ACK sent or   *)
(* reveals a new gap relative to it, otherwise within MaxAckDelay).         *)
(* Space = "hs": Initial / Handshake - every ack-eliciting packet is        *)
(* acknowledged at once.                                                    *)
(* The specification fixes what the property states and nothing else: an    *)
(* ACK may always be sent earlier than required, it may never be later,     *)
(* never cover a number that was not received or lies below the forget-     *)
(* below threshold, must be well-formed and contain the largest received.   *)
(* Results observed on the implementation are action parameters.            *)
(***************************************************************************)
EXTENDS Integers, Sequences, FiniteSets, TLC

CONSTANTS PNs,        \* packet-number universe, e.g. 0..6
          MaxRanges,  \* number of ranges the history keeps (64 in the code)
          D,          \* maximum ack delay (time units of the trace)
          Space       \* "app" | "hs"

None == -1
VARIABLES rcvd,      \* every number ever handed to the tracker
          tracked,   \* numbers still in the tracked history
          forgot,    \* forget-below threshold (IgnorePacketsBelow)
          arrival,   \* arrival time of every ack-eliciting number not yet covered by an ACK
          hasNew,    \* an ack-eliciting packet arrived since the last ACK
          since,     \* ack-eliciting packets since the last ACK
          queued,    \* an ACK is due now
          alarm,     \* ACK deadline (0 = none)
          lastAck,   \* numbers in the last ACK sent (<<>> if none): [set, largest]
          ecn,       \* <<ect0, ect1, ce>> marks seen
          dropped    \* the space was dropped

vars == <<rcvd, tracked, forgot, arrival, hasNew, since, queued, alarm, lastAck, ecn, dropped>>

NoAck == [set |-> {}, largest |-> None]

Init == /\ rcvd = {} /\ tracked = {} /\ forgot = 0 /\ arrival = [p \in {} |-> 0]
        /\ hasNew = FALSE /\ since = 0 /\ queued = FALSE /\ alarm = 0
        /\ lastAck = NoAck /\ ecn = <<0, 0, 0>> /\ dropped = FALSE

ResetAll == /\ rcvd' = {} /\ tracked' = {} /\ forgot' = 0 /\ arrival' = [p \in {} |-> 0]
            /\ hasNew' = FALSE /\ since' = 0 /\ queued' = FALSE /\ alarm' = 0
            /\ lastAck' = NoAck /\ ecn' = <<0, 0, 0>> /\ dropped' = FALSE

Max(S) == CHOOSE x \in S : \A y \in S : y <= x
Starts(S) == {x \in S : (x - 1) \notin S}
\* the history keeps the MaxRanges highest ranges
Prune(S) == IF Cardinality(Starts(S)) <= MaxRanges THEN S
            ELSE LET k == CHOOSE s \in Starts(S) : Cardinality({y \in Starts(S) : y >= s}) = MaxRanges
                 IN {x \in S : x >= k}

----------------------------------------------------------------------------
(* Duplicate detection: what IsPotentiallyDuplicate may answer for pn *)
DupAnswerOK(pn, dup) ==
  /\ (pn \in tracked => dup)                     \* within the tracked history: always recognised
  /\ (pn < forgot => dup)                        \* below the threshold nothing is known: treated as duplicate
  /\ ((pn >= forgot /\ pn \notin rcvd) => ~dup)  \* a genuinely new number is never mistaken for a duplicate

\* Is an immediate ACK required for ack-eliciting pn (app space)?  Evaluated on the state after insertion.
WasMissing(pn) == lastAck # NoAck /\ pn >= forgot /\ pn < lastAck.largest /\ pn \notin lastAck.set
NewGap(tr, largest) ==
  /\ lastAck # NoAck /\ largest >= 1
  /\ LET miss == {x \in 0..(largest - 1) : x \notin tr /\ x >= forgot}
     IN miss # {} /\ Max(miss) >= lastAck.largest

\* Recv: the connection first asks IsPotentiallyDuplicate and only hands new numbers to the tracker.
\* qd / al are the queued flag and alarm observed afterwards.
Recv(pn, ae, mark, t, dup, qd, al) ==
  /\ ~dropped /\ pn \in PNs
  /\ DupAnswerOK(pn, dup)
  /\ IF dup
     THEN /\ qd = queued /\ al = alarm /\ UNCHANGED vars
     ELSE /\ rcvd' = rcvd \cup {pn}
          /\ tracked' = Prune(tracked \cup {pn})
          /\ ecn' = [ecn EXCEPT ![1] = @ + (IF mark = 1 THEN 1 ELSE 0),
                                ![2] = @ + (IF mark = 2 THEN 1 ELSE 0),
                                ![3] = @ + (IF mark = 3 THEN 1 ELSE 0)]
          /\ IF ~ae
             THEN /\ qd = queued /\ al = alarm
                  /\ arrival' = [p \in (DOMAIN arrival) \cap tracked' |-> arrival[p]]   \* pruned numbers leave the history
                  /\ UNCHANGED <<hasNew, since, queued, alarm>>
             ELSE /\ hasNew' = TRUE /\ since' = since + 1
                  /\ arrival' = [p \in ((DOMAIN arrival) \cup {pn}) \cap tracked' |-> IF p = pn THEN t ELSE arrival[p]]
                  /\ LET largest == Max(tracked')
                         must == IF Space = "hs" THEN TRUE
                                 ELSE WasMissing(pn) \/ since' >= 2 \/ NewGap(tracked', largest)
                     IN /\ (must => qd)
                        /\ (queued => qd)                 \* a due ACK stays due
                        /\ (~qd => (al > 0 /\ \A p \in DOMAIN arrival' : p \in tracked' => al <= arrival'[p] + D))
                  /\ queued' = qd /\ alarm' = al
          /\ UNCHANGED <<forgot, lastAck, dropped>>

IgnoreBelow(p) ==
  /\ Space = "app" /\ ~dropped
  /\ forgot' = IF p > forgot THEN p ELSE forgot
  /\ tracked' = {x \in tracked : x >= forgot'}
  /\ arrival' = [x \in {y \in DOMAIN arrival : y >= forgot'} |-> arrival[x]]
  /\ UNCHANGED <<rcvd, hasNew, since, queued, alarm, lastAck, ecn, dropped>>

\* ACK well-formedness is checked on the logged ranges by the trace spec (descending, disjoint, non-adjacent);
\* here the ACK is the set S of numbers it covers.
AckContentOK(S) ==
  /\ S # {} /\ S \subseteq rcvd
  /\ \A x \in S : x >= forgot
  /\ Max(rcvd) \in S
  /\ \A x \in DOMAIN arrival : x \in tracked => x \in S       \* every pending ack-eliciting packet is covered
  /\ Cardinality(Starts(S)) <= MaxRanges

Due(t) == queued \/ (alarm > 0 /\ alarm <= t)

\* GetAck: S = {} means "no ACK frame returned"
GetAck(t, onlyIfQueued, S, marks) ==
  /\ IF dropped THEN S = {} /\ UNCHANGED vars
     ELSE IF S = {}
     THEN /\ (~Due(t) \/ tracked = {})                \* a due ACK must be produced (unless nothing is left to acknowledge)
          /\ (~onlyIfQueued => (~hasNew \/ tracked = {}))   \* when asked unconditionally, pending ack-eliciting packets are acked
          /\ UNCHANGED vars
     ELSE /\ AckContentOK(S) /\ marks = ecn
          /\ lastAck' = [set |-> S, largest |-> Max(S)]
          /\ queued' = FALSE /\ alarm' = 0 /\ since' = 0 /\ hasNew' = FALSE
          /\ arrival' = [x \in {y \in DOMAIN arrival : y \notin S} |-> arrival[x]]
          /\ UNCHANGED <<rcvd, tracked, forgot, ecn, dropped>>

DropSpace ==
  /\ Space = "hs"
  /\ dropped' = TRUE /\ queued' = FALSE /\ alarm' = 0
  /\ UNCHANGED <<rcvd, tracked, forgot, arrival, hasNew, since, lastAck, ecn>>

----------------------------------------------------------------------------
(* Properties *)
\* every pending ack-eliciting packet has an ACK due no later than MaxAckDelay after its arrival
AckDue == ~dropped => \A p \in DOMAIN arrival : p \in tracked => (queued \/ (alarm > 0 /\ alarm <= arrival[p] + D))
TrackedSound == tracked \subseteq rcvd /\ \A x \in tracked : x >= forgot
LastAckSound == lastAck.set \subseteq rcvd
RangeBound == Cardinality(Starts(tracked)) <= MaxRanges
ForgotMonotone == [][forgot' >= forgot]_vars
=============================================================================
