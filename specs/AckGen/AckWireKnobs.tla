---------------------------- MODULE AckWireKnobs ----------------------------
(* TLC as enumerator of connection-level ACK scenarios.                      *)
EXTENDS Naturals, Sequences, TLC, Json
CONSTANTS Deltas, Gaps, Losses
VARIABLE h
Knobs == [scen : {"limited"}, side : {"c", "s"}, client : {"plain", "chrome115"}, a : Deltas, b : {0}]
   \cup  [scen : {"sparse"}, side : {"c", "s"}, client : {"plain", "chrome115"}, a : Gaps, b : Gaps]
   \cup  [scen : {"bulk"}, side : {"c", "s"}, client : {"plain", "chrome115"}, a : Losses, b : {1, 2, 3}]
Init == h = <<>>
Next == h = <<>> /\ \E kn \in Knobs : h' = <<kn>>
Spec == Init /\ [][Next]_h
Emit == h # <<>> => PrintT(ToJson(h))
=============================================================================
