---------------------------- MODULE AckWireKnobs ----------------------------
(* TLC as enumerator of connection-level ACK scenarios.                      *)
EXTENDS Naturals, Sequences, TLC, Json
CONSTANTS Deltas, Gaps, Losses
VARIABLE h
Knobs == [scen : {"limited"}, side : {"c", "s"}, client : {"plain", "chrome115"}, a : Deltas, b : {0}]
   \cup  [scen : {"sparse"}, side : {"c", "s"}, client : {"plain", "chrome115"}, a : Gaps, b : Gaps]
   \* (the "bulk" scenario - upload under random loss - is withdrawn: see DESIGN.md 0a, second round)
Init == h = <<>>
Next == h = <<>> /\ \E kn \in Knobs : h' = <<kn>>
Spec == Init /\ [][Next]_h
Emit == h # <<>> => PrintT(ToJson(h))
=============================================================================
