------------------------------ MODULE AckWire ------------------------------
(***************************************************************************)
(* C07 at the connection level: what an endpoint puts on the wire.          *)
(*                                                                         *)
(* AckGen specifies the tracker (when an ACK becomes due).  Whether the     *)
(* connection actually sends it - whatever else it is doing: congestion     *)
(* limited, pacing limited, application limited, probing - is decided by    *)
(* the run loop and its timer (connection.go maybeResetTimer, sendPackets,  *)
(* maybeSendAckOnlyPacket).  This module specifies the 1-RTT wire view of   *)
(* one connection, per side x:                                              *)
(*   Rx(x, pn, ae, t)   x processed application-data packet pn at time t    *)
(*   TxAck(x, S, t)     x sent a packet with an ACK frame covering S        *)
(*   End(t)             the observation ends (before anybody closes)        *)
(* Times in microseconds of virtual time.                                   *)
(***************************************************************************)
EXTENDS Integers, FiniteSets

CONSTANTS D,       \* max ack delay the endpoint applies to itself
          Slack    \* timer granularity allowance

Sides == {"c", "s"}
VARIABLES rcvd,      \* side -> numbers it processed
          pending,   \* side -> [pn -> arrival time] of ack-eliciting numbers no ACK sent so far covers
          overdue,   \* side -> numbers whose ACK was still outstanding later than arrival + D + Slack (observed at the last step)
          step
vars == <<rcvd, pending, overdue, step>>
NoStep == [kind |-> "none", side |-> "c", set |-> {}, t |-> 0]
Max(S) == CHOOSE x \in S : \A y \in S : y <= x

Start == /\ rcvd' = [x \in Sides |-> {}] /\ pending' = [x \in Sides |-> [p \in {} |-> 0]]
         /\ overdue' = [x \in Sides |-> {}] /\ step' = NoStep
\* everything that was pending for too long when the clock shows t
Late(t) == [x \in Sides |-> {p \in DOMAIN pending[x] : t > pending[x][p] + D + Slack}]

Rx(x, pn, ae, t) ==
  /\ rcvd' = [rcvd EXCEPT ![x] = @ \cup {pn}]
  /\ pending' = IF ae /\ pn \notin rcvd[x]
                THEN [pending EXCEPT ![x] = [p \in DOMAIN @ \cup {pn} |-> IF p = pn THEN t ELSE @[p]]]
                ELSE pending
  /\ overdue' = Late(t)
  /\ step' = [NoStep EXCEPT !.kind = "Rx", !.side = x, !.t = t]
TxAck(x, S, t) ==
  /\ overdue' = Late(t)            \* judged before the ACK takes them off the list: a late ACK is late
  /\ pending' = [pending EXCEPT ![x] = [p \in DOMAIN @ \ S |-> @[p]]]
  /\ step' = [kind |-> "TxAck", side |-> x, set |-> S, t |-> t]
  /\ UNCHANGED rcvd
End(t) == overdue' = Late(t) /\ step' = [NoStep EXCEPT !.kind = "End", !.t = t] /\ UNCHANGED <<rcvd, pending>>

----------------------------------------------------------------------------
\* an ACK acknowledges only what was received, and includes the largest received
WireAckSound == step.kind = "TxAck" => (step.set # {} /\ step.set \subseteq rcvd[step.side] /\ Max(rcvd[step.side]) \in step.set)
\* every ack-eliciting packet is covered by an ACK sent no later than D after its arrival
WireAckDue == \A x \in Sides : overdue[x] = {}
=============================================================================
