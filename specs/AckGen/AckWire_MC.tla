----------------------------- MODULE AckWire_MC -----------------------------
(* Reference design of the connection timer (connection.go maybeResetTimer): *)
(* the run loop sleeps until the earliest of its deadlines.  Which deadlines *)
(* count depends on what blocks sending: while congestion limited the        *)
(* pacing deadline is irrelevant, the ACK alarm and the loss-detection timer *)
(* are not.  TLC checks WireAckDue for every interleaving of arrivals,       *)
(* blocking and timer expiries over a small clock.                           *)
EXTENDS AckWire, TLC
CONSTANTS MaxT, PNs
VARIABLES now, alarm, blocked, lossTimer
mvars == <<vars, now, alarm, blocked, lossTimer>>
None == -1
Min2(a, b) == IF a = None THEN b ELSE IF b = None THEN a ELSE IF a < b THEN a ELSE b
\* the deadline the run loop sleeps until (the design under test)
Deadline == Min2(alarm, lossTimer)       \* both regardless of `blocked`
Init == /\ rcvd = [x \in Sides |-> {}] /\ pending = [x \in Sides |-> [p \in {} |-> 0]] /\ overdue = [x \in Sides |-> {}] /\ step = NoStep
        /\ now = 0 /\ alarm = None /\ blocked = FALSE /\ lossTimer = None
\* a packet arrives at "s": the tracker arms the alarm (AckGen: alarm <= arrival + D)
Arrive == \E pn \in PNs :
  /\ pn \notin rcvd["s"]
  /\ Rx("s", pn, TRUE, now)
  /\ alarm' = (IF alarm = None THEN now + D ELSE alarm)
  /\ UNCHANGED <<now, blocked, lossTimer>>
Block ==
  /\ blocked' = ~blocked
  /\ lossTimer' = (IF ~blocked THEN now + 3 * D ELSE None)
  /\ UNCHANGED <<vars, now, alarm>>
\* time passes, but never beyond the deadline without the run loop waking up
Tick == now < MaxT /\ (Deadline = None \/ now < Deadline) /\ now' = now + 1 /\ UNCHANGED <<vars, alarm, blocked, lossTimer>>
\* the run loop wakes at the deadline: a due ACK is sent (ACKs are not congestion controlled)
Wake == /\ Deadline # None /\ now >= Deadline
        /\ IF alarm # None /\ now >= alarm
           THEN TxAck("s", rcvd["s"], now) /\ alarm' = None /\ UNCHANGED <<now, blocked, lossTimer>>
           ELSE lossTimer' = None /\ UNCHANGED <<vars, now, alarm, blocked>>
Next == Arrive \/ Block \/ Tick \/ Wake
Spec == Init /\ [][Next]_mvars
NoLateAck == \A x \in Sides : \A p \in DOMAIN pending[x] : now <= pending[x][p] + D + Slack
=============================================================================
