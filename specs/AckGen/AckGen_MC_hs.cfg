SPECIFICATION MSpec
CONSTANTS
  PNs = {0,1,2,3}
  MaxRanges = 2
  D = 2
  Space = "hs"
INVARIANTS AckDue TrackedSound LastAckSound RangeBound
PROPERTIES ForgotMonotone
CHECK_DEADLOCK FALSE
