------------------------------ MODULE AckGen_MC ------------------------------
EXTENDS AckGen
----------------------------------------------------------------------------
(* Bounded model: a clock that the environment advances *)
VARIABLE now
mvars == <<vars, now>>
Times == {0, 1, D - 1, D, D + 1}
Tick(d) == now' = now + d /\ UNCHANGED vars
MNext ==
  \/ \E d \in {1} : Tick(d) /\ now < D + 2
  \/ \E pn \in PNs, ae \in BOOLEAN, mark \in {0}, dup \in BOOLEAN, qd \in BOOLEAN, al \in {0} \cup {now + D, alarm} :
        Recv(pn, ae, mark, now, dup, qd, al) /\ UNCHANGED now
  \/ \E p \in PNs : IgnoreBelow(p) /\ UNCHANGED now
  \/ \E oiq \in BOOLEAN, S \in {{}, tracked} : GetAck(now, oiq, S, ecn) /\ UNCHANGED now
  \/ DropSpace /\ UNCHANGED now
MSpec == Init /\ now = 0 /\ [][MNext]_mvars

=============================================================================
