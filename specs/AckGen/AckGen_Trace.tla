---------------------------- MODULE AckGen_Trace ----------------------------
(* Validates traces recorded from ackhandler.ReceivedPacketHandler           *)
(* (harness/ackhandler/c07_test.go) against AckGen.                           *)
EXTENDS AckGen, TraceLib
VARIABLES l, diverged
tvars == <<vars, l, diverged>>
Line == Trace[l]

\* ranges as logged: sequence of <<smallest, largest>>, first = highest
WellFormed(rs) ==
  /\ \A i \in DOMAIN rs : rs[i][1] <= rs[i][2] /\ rs[i][1] >= 0
  /\ \A i \in DOMAIN rs : i > 1 => rs[i][2] < rs[i-1][1] - 1      \* descending, disjoint, not adjacent
SetOf(rs) == UNION { rs[i][1]..rs[i][2] : i \in DOMAIN rs }

Strict ==
  LET e == Line IN
  \/ e.ev = "Reset" /\ ResetAll
  \/ /\ e.ev = "Recv" /\ e.err = ""
     /\ Recv(e.pn, e.ae, e.mark, e.t, e.dup, e.qd, e.al)
  \/ e.ev = "Ignore" /\ IgnoreBelow(e.p)
  \/ /\ e.ev = "GetAck"
     /\ WellFormed(e.ranges)
     /\ (e.ranges = <<>> => e.nil)            \* an ACK frame without ranges is not an ACK frame
     /\ GetAck(e.t, e.oiq, SetOf(e.ranges), <<e.ect0, e.ect1, e.ce>>)
     /\ (e.ranges # <<>> => e.delay >= 0)
  \/ e.ev = "Drop" /\ DropSpace

Step == /\ l <= TraceLen /\ diverged = <<>>
        /\ Strict /\ l' = l + 1 /\ UNCHANGED diverged
Diverge == /\ l <= TraceLen /\ diverged = <<>> /\ ~ENABLED Strict
           /\ diverged' = [line |-> l, ev |-> Line] /\ l' = TraceLen + 1 /\ UNCHANGED vars
TraceInit == Init /\ l = 1 /\ diverged = <<>>
TraceNext == Step \/ Diverge
TraceSpec == TraceInit /\ [][TraceNext]_tvars
NoDivergence == diverged = <<>>
=============================================================================
