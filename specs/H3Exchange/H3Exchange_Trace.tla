-------------------------- MODULE H3Exchange_Trace --------------------------
(* Validates traces of harness/http3/c18_test.go against H3Exchange.         *)
EXTENDS H3Exchange, TraceLib
VARIABLES l
tvars == <<vars, l>>
Line == Trace[l]
Ev(e) ==
  CASE e.ev = "Reset" -> Begin
    [] e.ev = "Sent" -> Sent(e.id, e.reqdecl, e.reqlen, e.reqfail)
    [] e.ev = "Handled" -> Handled(e.id, e.same, e.n, e.content, e.rerr)
    [] e.ev = "Wrote" -> Wrote(e.id, e.rspdecl, e.rsplen)
    [] e.ev = "Received" -> Received(e.id, e.got, e.same, e.n, e.content, e.rerr, e.calm)
    [] e.ev = "Completed" -> Completed(e.id, e.got, e.expected)
    [] e.ev = "Raw" -> Raw(e.class, e.answer)
    [] e.ev = "Panic" -> Crash
    [] e.ev \in {"Note", "End"} -> UNCHANGED vars
TraceInit == l = 1 /\ ex = <<>> /\ step = NoStep
TraceNext == l <= TraceLen /\ Ev(Line) /\ l' = l + 1
TraceSpec == TraceInit /\ [][TraceNext]_tvars
=============================================================================
