SPECIFICATION Spec
CONSTANTS MaxLen = 4
INVARIANT Intact
CHECK_DEADLOCK FALSE
