------------------------------- MODULE H3Knobs -------------------------------
(* TLC as enumerator of HTTP/3 exchange shapes (C18).                         *)
EXTENDS Naturals, Sequences, TLC, Json
VARIABLE h
Knobs == [method : {"GET", "POST", "PUT", "HEAD", "DELETE", "CONNECT"}, reqbody : {0, 1, 3000, 70000},
          reqdecl : {"none", "ok"}, reqtrailers : BOOLEAN,
          status : {200, 204, 304, 404}, early103 : BOOLEAN, rspbody : {0, 10, 100000},
          rspdecl : {"none", "ok", "more"}, rsptrailers : {"none", "declared", "prefix"}, flush : BOOLEAN]
Init == h = <<>>
Next == h = <<>> /\ \E kn \in Knobs : h' = <<kn>>
Spec == Init /\ [][Next]_h
Emit == h # <<>> => PrintT(ToJson(h))
=============================================================================
