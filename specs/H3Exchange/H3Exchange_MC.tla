--------------------------- MODULE H3Exchange_MC ---------------------------
(* Reference transfer of a body with a declared length over a stream that    *)
(* may be cut at any point (reset, connection loss): the reader that counts  *)
(* bytes against the declaration and reports every early end as an error     *)
(* satisfies the Handled / Received clauses for every combination of         *)
(* declared length, actual length, source failure and cut point (TLC).       *)
EXTENDS H3Exchange, TLC
CONSTANTS MaxLen
VARIABLES phase
mvars == <<vars, phase>>
Init == ex = <<>> /\ step = NoStep /\ phase = "idle"
Send == /\ phase = "idle"
        /\ \E decl \in -1..MaxLen, len \in 0..MaxLen, fail \in BOOLEAN : Sent(1, decl, len, fail)
        /\ phase' = "sent"
\* the reference reader: delivers min(len, cut, decl when declared) bytes; error unless the sender finished cleanly and
\* the count matches the declaration
Read == /\ phase = "sent"
        /\ \E cut \in 0..MaxLen :
             LET e == ex[1]
                 arrived == IF cut < e.reqlen THEN cut ELSE e.reqlen
                 n == IF e.reqdecl >= 0 /\ arrived > e.reqdecl THEN e.reqdecl ELSE arrived
                 clean == cut >= e.reqlen /\ ~e.reqfail /\ (e.reqdecl < 0 \/ e.reqdecl = e.reqlen)
             IN Handled(1, TRUE, n, TRUE, ~clean)
        /\ phase' = "read"
Next == Send \/ Read
Spec == Init /\ [][Next]_mvars
=============================================================================
