----------------------------- MODULE H3Exchange -----------------------------
(* C18 - HTTP/3 carries requests and responses end to end without loss or    *)
(* alteration.                                                               *)
(*                                                                           *)
(* One exchange = what the client application sent (Sent), what the server   *)
(* handler saw (Handled: each part compared by the harness against the       *)
(* position-derived content it generated), what the handler wrote (Wrote),   *)
(* what the client saw (Received).  A body that disagrees with its declared  *)
(* Content-Length must surface as an error on the reading side.  The raw     *)
(* peer tier scripts frames / streams directly: unknown ones are ignored,    *)
(* forbidden ones end the stream or connection with the RFC 9114 error.      *)
EXTENDS Integers, Sequences, FiniteSets

VARIABLES ex,       \* exchange id -> [reqdecl (declared request length, -1 none), reqlen (bytes the client actually sent),
                    \*                 reqfail (the client's body source failed), rspdecl, rsplen, handled, done]
          step
vars == <<ex, step>>
NoStep == [kind |-> "none", ok |-> TRUE, why |-> ""]

Begin == ex' = <<>> /\ step' = NoStep
\* the client sends a request: declared length (-1: chunked / none), bytes its body source yields, whether the source fails
Sent(id, reqdecl, reqlen, reqfail) ==
  /\ ex' = [i \in DOMAIN ex \cup {id} |-> IF i = id THEN [reqdecl |-> reqdecl, reqlen |-> reqlen, reqfail |-> reqfail,
                                                      rspdecl |-> -1, rsplen |-> 0, handled |-> FALSE, done |-> FALSE] ELSE ex[i]]
  /\ step' = [NoStep EXCEPT !.kind = "Sent"]
\* the handler ran: same = method, URL, header fields and trailers equal what was sent; n = body bytes it read, all correct
\* (content); rerr = its body read ended with an error instead of EOF
Handled(id, same, n, content, rerr) ==
  LET e == ex[id] IN
  /\ ex' = [ex EXCEPT ![id].handled = TRUE]
  /\ step' = [NoStep EXCEPT !.kind = "Handled",
        !.ok = /\ same /\ content
               /\ n <= e.reqlen
               \* the whole body, or an error - never a silent truncation / extension
               /\ (~rerr => n = e.reqlen /\ ~e.reqfail /\ (e.reqdecl >= 0 => e.reqdecl = e.reqlen)),
        !.why = IF ~same THEN "the handler saw another method / URL / header fields / trailers than were sent"
                ELSE IF ~content \/ n > e.reqlen THEN "request body bytes altered"
                ELSE IF ~rerr /\ e.reqfail THEN "the client's body source failed, the handler saw a clean end of body"
                ELSE IF ~rerr /\ n # e.reqlen THEN "request body silently truncated"
                ELSE IF ~rerr THEN "request body disagrees with its declared Content-Length and no error was reported" ELSE ""]
\* the handler wrote a response: declared Content-Length (-1 none) and the bytes it actually wrote successfully
Wrote(id, rspdecl, rsplen) ==
  /\ ex' = [ex EXCEPT ![id].rspdecl = rspdecl, ![id].rsplen = rsplen]
  /\ step' = [NoStep EXCEPT !.kind = "Wrote"]
\* the client got a response (or an error before one): same = status, header fields, trailers as written
\* calm: nothing disturbed the exchange (no network fault, the application read to the end)
Received(id, got, same, n, content, rerr, calm) ==
  LET e == ex[id] IN
  /\ ex' = [ex EXCEPT ![id].done = TRUE]
  /\ step' = [NoStep EXCEPT !.kind = "Received",
        !.ok = /\ got => /\ same /\ content /\ n <= e.rsplen
                             /\ (~rerr => n = e.rsplen /\ (e.rspdecl >= 0 => e.rspdecl = e.rsplen))
               \* a well-formed, undisturbed exchange ends without an error
               /\ (calm /\ ~e.reqfail /\ (e.reqdecl < 0 \/ e.reqdecl = e.reqlen) /\ (e.rspdecl < 0 \/ e.rspdecl = e.rsplen)) => (got /\ ~rerr),
        !.why = IF got /\ ~same THEN "the client saw another status / header fields / trailers than the handler wrote"
                ELSE IF got /\ (~content \/ n > e.rsplen) THEN "response body bytes altered"
                ELSE IF got /\ ~rerr /\ n # e.rsplen THEN "response body silently truncated"
                ELSE IF got /\ ~rerr /\ e.rspdecl >= 0 /\ e.rspdecl # e.rsplen THEN "response body disagrees with its declared Content-Length and no error was reported"
                ELSE "a well-formed, undisturbed exchange ended with an error"]
\* without faults that kill the connection every exchange completes with a response
Completed(id, got, expected) ==
  /\ step' = [NoStep EXCEPT !.kind = "Completed", !.ok = (expected => got), !.why = IF expected /\ ~got THEN "no response although the network recovered" ELSE ""]
  /\ UNCHANGED ex
\* raw peer tier: what the scripted peer did (class) and how the endpoint answered
\*   class: "ignore" (unknown frame / stream type, reserved-for-greasing) -> the exchange must still succeed
\*          "stream:<code>" / "conn:<code>" -> that error, on the stream or the connection
Raw(class, answer) ==
  /\ step' = [NoStep EXCEPT !.kind = "Raw", !.ok = (IF class = "ignore" THEN answer = "ok" ELSE answer = class),
                !.why = IF class = "ignore" /\ answer # "ok" THEN "an unknown frame / stream type was not ignored"
                        ELSE IF class # "ignore" /\ answer # class THEN "a forbidden frame / stream was not answered with the RFC 9114 error" ELSE ""]
  /\ UNCHANGED ex
Crash == step' = [NoStep EXCEPT !.kind = "Panic", !.ok = FALSE, !.why = "panic"] /\ UNCHANGED ex
Intact == step.ok
=============================================================================
