----------------------------- MODULE Teardown_MC -----------------------------
(* Reference design of the close path (connection.go setCloseError /          *)
(* handleCloseError): the first cause wins, is fanned out to every blocked    *)
(* call, the context and later calls; two causes may race (local close vs.    *)
(* the peer's close arriving vs. a timeout).  TLC: OneCause, nothing stays    *)
(* blocked once the fan-out is done.                                          *)
EXTENDS Teardown, TLC
CONSTANTS Calls, Causes
VARIABLES recorded, fanned     \* side -> recorded cause class ("" none); side -> fan-out done
mvars == <<vars, recorded, fanned>>
Init == /\ blocked = <<>> /\ cause = [x \in Sides |-> NoCause] /\ seen = [x \in Sides |-> {}]
        /\ lastRecv = [x \in Sides |-> 0] /\ firstSend = [x \in Sides |-> -1] /\ idle = [x \in Sides |-> 0] /\ ka = FALSE /\ step = NoStep
        /\ recorded = [x \in Sides |-> ""] /\ fanned = [x \in Sides |-> FALSE]
Block == \E id \in Calls, x \in Sides : id \notin DOMAIN blocked /\ recorded[x] = "" /\ Blocked(id, x) /\ UNCHANGED <<recorded, fanned>>
\* a cause arrives at side x: only the first is recorded
Arrive == \E x \in Sides, k \in Causes :
  /\ recorded' = [recorded EXCEPT ![x] = IF @ = "" THEN k ELSE @]
  /\ Cause(x, k, IF recorded[x] = "" THEN k ELSE recorded[x], 0) /\ UNCHANGED fanned
\* the run loop fans the recorded cause out: one call at a time, then the context
FanOut == \E x \in Sides : recorded[x] # "" /\ ~fanned[x] /\
  IF \E id \in DOMAIN blocked : blocked[id] = x
  THEN \E id \in DOMAIN blocked : blocked[id] = x /\ Returned(id, x, recorded[x], 0, FALSE, 0, FALSE) /\ UNCHANGED <<recorded, fanned>>
  ELSE Ctx(x, recorded[x], 0) /\ fanned' = [fanned EXCEPT ![x] = TRUE] /\ UNCHANGED recorded
\* a call made after the end returns at once with the recorded cause
Late == \E id \in Calls, x \in Sides : id \notin DOMAIN blocked /\ fanned[x] /\ Returned(id, x, recorded[x], 0, FALSE, 0, FALSE) /\ UNCHANGED <<recorded, fanned>>
Next == Block \/ Arrive \/ FanOut \/ Late
Spec == Init /\ [][Next]_mvars /\ WF_mvars(FanOut)
NothingBlockedAfterFanOut == \A x \in Sides : fanned[x] => ~\E id \in DOMAIN blocked : blocked[id] = x
EventuallyFanned == \A x \in Sides : (recorded[x] # "") ~> fanned[x]
=============================================================================
