SPECIFICATION Spec
CONSTANTS Slack = 0 MinRemote = 5000 Calls = {1, 2, 3} Causes = {"app:1:local", "app:2:remote", "idle"}
INVARIANTS OneCause RightCause NothingBlockedAfterFanOut
PROPERTY EventuallyFanned
CHECK_DEADLOCK FALSE
