---------------------------- MODULE TeardownKnobs ----------------------------
(* TLC as enumerator of C17 scenarios: cause x side x sets of blocked calls   *)
(* on either side x client kind.                                              *)
EXTENDS Naturals, Sequences, FiniteSets, TLC, Json
CONSTANTS Clients
VARIABLE h
Calls == {"read", "write", "accept", "accept2", "acceptuni", "opensync", "recvdgram"}
CallSets == { S \in SUBSET Calls : Cardinality(S) <= 2 } \cup {Calls}
Causes == {"close", "close_lossy", "idle", "idle_writer", "keepalive", "reset", "transport_close"}
Knobs == [cause : Causes, side : {"c", "s"}, ccalls : CallSets, scalls : CallSets, client : Clients]
Init == h = <<>>
Next == h = <<>> /\ \E kn \in Knobs : h' = <<[cause |-> kn.cause, side |-> kn.side, client |-> kn.client,
                                               ccalls |-> kn.ccalls, scalls |-> kn.scalls]>>
Spec == Init /\ [][Next]_h
Emit == h # <<>> => PrintT(ToJson(h))
=============================================================================
