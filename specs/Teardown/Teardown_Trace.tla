---------------------------- MODULE Teardown_Trace ----------------------------
(* Validates traces of harness/root/c17_test.go against Teardown.             *)
EXTENDS Teardown, TraceLib
VARIABLES l
tvars == <<vars, l>>
Line == Trace[l]
Ev(e) ==
  CASE e.ev = "Reset" -> Start([x \in Sides |-> 0], FALSE)
    [] e.ev = "Start" -> Start(Negotiated(e.conf, e.adv), e.ka)
    [] e.ev = "Blocked" -> Blocked(e.id, e.side)
    [] e.ev = "Cause" -> Cause(e.side, e.kind, e.class, e.at)
    [] e.ev = "Returned" -> Returned(e.id, e.side, e.class, e.at, e.late, e.dt, Get(e, "ok", FALSE))
    [] e.ev = "Unblocked" -> Unblocked(e.id)
    [] e.ev = "Ctx" -> Ctx(e.side, e.class, e.at)
    [] e.ev = "Delivered" -> Delivered(e.side, e.at)
    [] e.ev = "Sent" -> Sent(e.side, e.at)
    [] e.ev = "Quiesced" -> Quiesced(e.side, e.blocked, e.routes)
    [] e.ev = "Panic" -> Leak
    [] e.ev \in {"Note", "End"} -> UNCHANGED vars
TraceInit == /\ l = 1 /\ blocked = <<>> /\ cause = [x \in Sides |-> NoCause] /\ seen = [x \in Sides |-> {}]
             /\ lastRecv = [x \in Sides |-> 0] /\ firstSend = [x \in Sides |-> -1] /\ idle = [x \in Sides |-> 0] /\ ka = FALSE /\ step = NoStep
TraceNext == l <= TraceLen /\ Ev(Line) /\ l' = l + 1
TraceSpec == TraceInit /\ [][TraceNext]_tvars
=============================================================================
