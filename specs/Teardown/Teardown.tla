------------------------------ MODULE Teardown ------------------------------
(* C17 - every way a connection ends unblocks callers, informs the peer,     *)
(* frees resources.                                                          *)
(*                                                                           *)
(* Two endpoints "c" (client) and "s" (server) of one connection.  API calls *)
(* block (Blocked), a cause ends the connection on one side (Cause), the     *)
(* calls return (Returned) with an error class, the connection context is    *)
(* cancelled (Ctx) with a cause class, later calls return at once.  At the   *)
(* end of the execution (Quiesced) the harness reports what is left: calls   *)
(* still blocked, routing entries per transport.                             *)
(*                                                                           *)
(* Error classes: "app:<code>:local|remote", "transport:<code>:local|remote",*)
(* "idle", "hstimeout", "reset", "canceled", "transportclosed",              *)
(* "serverclosed", "other:...".                                              *)
EXTENDS Integers, Sequences, FiniteSets

CONSTANTS Slack,       \* ms: how much later than due a timeout may fire / a call may return ("promptly")
          MinRemote    \* ms: smallest remote max_idle_timeout the implementation honours (5000)

VARIABLES blocked,     \* call id -> side, for calls that have not returned
          cause,       \* side -> [kind, class, t]  (first cause recorded on that side; kind "" = none yet)
          seen,        \* side -> set of error classes its calls / context reported
          lastRecv,    \* side -> time the last packet was delivered to it
          firstSend,   \* side -> time of the first data-bearing datagram it sent after lastRecv (-1 none)
          idle,        \* side -> the idle period in force there (ms), 0 = none: the smaller of its own configured value and what
                       \* the peer advertised (a peer that advertises nothing imposes no limit)
          ka,          \* keep-alives are sent (and answered: the scenario has no loss)
          step
vars == <<blocked, cause, seen, lastRecv, firstSend, idle, ka, step>>
Sides == {"c", "s"}
Other(x) == IF x = "c" THEN "s" ELSE "c"
NoStep == [kind |-> "none", side |-> "c", class |-> "", t |-> 0, n |-> 0, late |-> FALSE, dt |-> 0, ok |-> FALSE]
NoCause == [kind |-> "", class |-> "", t |-> 0]
Max(a, b) == IF a > b THEN a ELSE b

MinPos(a, b) == IF a = 0 THEN b ELSE IF b = 0 THEN a ELSE IF a < b THEN a ELSE b
\* conf: side -> max_idle_timeout it is configured with; adv: side -> the value it advertises (0 = parameter omitted)
\* Deliberate deviation of the implementation, modelled as such: a value the peer advertises below MinRemote (5 s) is
\* treated as MinRemote (internal/wire/transport_parameters.go: "the minimum value that we accept for the remote idle
\* timeout"), so an endpoint configured with more than its peer's small value outlives the peer's timer.
Floor(v) == IF v = 0 THEN 0 ELSE IF v < MinRemote THEN MinRemote ELSE v
Negotiated(conf, adv) == [x \in Sides |-> MinPos(conf[x], Floor(adv[Other(x)]))]
Start(idl, k) ==
  /\ blocked' = <<>> /\ cause' = [x \in Sides |-> NoCause] /\ seen' = [x \in Sides |-> {}]
  /\ lastRecv' = [x \in Sides |-> 0] /\ firstSend' = [x \in Sides |-> -1] /\ idle' = idl /\ ka' = k /\ step' = NoStep
Blocked(id, side) ==
  /\ blocked' = [x \in DOMAIN blocked \cup {id} |-> IF x = id THEN side ELSE blocked[x]]
  /\ step' = [NoStep EXCEPT !.kind = "Blocked", !.side = side]
  /\ UNCHANGED <<cause, seen, lastRecv, firstSend, idle, ka>>
\* what ended the connection on this side, as the harness triggered / first observed it
Cause(side, kind, class, t) ==
  /\ cause' = IF cause[side].kind = "" THEN [cause EXCEPT ![side] = [kind |-> kind, class |-> class, t |-> t]] ELSE cause
  /\ step' = [NoStep EXCEPT !.kind = "Cause", !.side = side, !.class = class, !.t = t]
  /\ UNCHANGED <<blocked, seen, lastRecv, firstSend, idle, ka>>
\* ok: a call made after the end succeeded (judged by LateCallsFail; it reports no cause at all)
Returned(id, side, class, t, late, dt, ok) ==
  /\ blocked' = [x \in DOMAIN blocked \ {id} |-> blocked[x]]
  /\ seen' = IF ok THEN seen ELSE [seen EXCEPT ![side] = @ \cup {class}]
  /\ step' = [NoStep EXCEPT !.kind = "Returned", !.side = side, !.class = class, !.t = t, !.late = late, !.dt = dt, !.ok = ok]
  /\ UNCHANGED <<cause, lastRecv, firstSend, idle, ka>>
\* the call returned without error before anything ended the connection: it was not blocked
Unblocked(id) ==
  /\ blocked' = [x \in DOMAIN blocked \ {id} |-> blocked[x]]
  /\ step' = [NoStep EXCEPT !.kind = "Unblocked"]
  /\ UNCHANGED <<cause, seen, lastRecv, firstSend, idle, ka>>
Ctx(side, class, t) ==
  /\ seen' = [seen EXCEPT ![side] = @ \cup {class}]
  /\ step' = [NoStep EXCEPT !.kind = "Ctx", !.side = side, !.class = class, !.t = t]
  /\ UNCHANGED <<blocked, cause, lastRecv, firstSend, idle, ka>>
Delivered(side, t) ==     \* a packet reached side
  /\ lastRecv' = [lastRecv EXCEPT ![side] = t] /\ firstSend' = [firstSend EXCEPT ![side] = -1]
  /\ step' = [NoStep EXCEPT !.kind = "Delivered", !.side = side, !.t = t]
  /\ UNCHANGED <<blocked, cause, seen, idle, ka>>
Sent(side, t) ==          \* side put a data-bearing datagram on the wire
  /\ firstSend' = [firstSend EXCEPT ![side] = IF @ = -1 THEN t ELSE @]
  /\ step' = [NoStep EXCEPT !.kind = "Sent", !.side = side, !.t = t]
  /\ UNCHANGED <<blocked, cause, seen, lastRecv, idle, ka>>
\* end of the execution: calls still blocked, routing entries left in the side's transport, goroutines leaked
Quiesced(side, nblocked, nroutes) ==
  /\ step' = [NoStep EXCEPT !.kind = "Quiesced", !.side = side, !.n = nblocked + nroutes]
  /\ UNCHANGED <<blocked, cause, seen, lastRecv, firstSend, idle, ka>>
Leak == step' = [NoStep EXCEPT !.kind = "Leak"] /\ UNCHANGED <<blocked, cause, seen, lastRecv, firstSend, idle, ka>>

------------------------------------------------------------------------------
\* every call returns with the one recorded cause, the context carries it too
OneCause == \A x \in Sides : Cardinality(seen[x]) <= 1
\* ... and that cause is the one that ended the connection there (the harness knows what it did)
RightCause == (step.kind \in {"Returned", "Ctx"} /\ ~step.ok /\ cause[step.side].class # "") => step.class = cause[step.side].class
\* a call made after the end does not succeed
LateCallsFail == step.kind = "Returned" => ~step.ok
\* promptly
\* (a call made after the end: measured from its own start)
Prompt == (step.kind \in {"Returned", "Ctx"} /\ cause[step.side].kind # "") =>
             IF step.late THEN step.dt <= Slack ELSE step.t <= cause[step.side].t + Slack
\* nothing stays blocked, no routing entry, no goroutine is left
Released == step.kind = "Quiesced" => step.n = 0
NoLeak == step.kind # "Leak"
\* the idle timeout fires no earlier than the negotiated period after the last packet received, and not much later
\* than that period after the last packet received / the first data sent since
IdleTiming ==
  (step.kind = "Cause" /\ step.class = "idle" /\ idle[step.side] > 0) =>
     /\ step.t >= lastRecv[step.side] + idle[step.side]
     /\ step.t <= Max(lastRecv[step.side], firstSend[step.side]) + idle[step.side] + Slack
\* ... and never while keep-alives are being answered
NoIdleWhileKeptAlive == (step.kind = "Cause" /\ ka) => step.class # "idle"
=============================================================================
