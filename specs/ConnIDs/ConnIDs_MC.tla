----------------------------- MODULE ConnIDs_MC -----------------------------
(* Sanity theorem behind AcceptWithinLimit, checked by TLC: a peer that keeps *)
(* "IDs not below its Retire Prior To <= limit" at every NEW_CONNECTION_ID it *)
(* sends can never - under any reordering, loss or duplication of its frames  *)
(* - make the receiver's count (received, not below the largest Retire Prior  *)
(* To seen) exceed the limit.  So an endpoint that answers                    *)
(* CONNECTION_ID_LIMIT_ERROR only above that count never rejects a conformant *)
(* peer, and AcceptWithinLimit never asks it to hold more than it advertised. *)
EXTENDS Integers, FiniteSets
CONSTANTS L, N
VARIABLES sent,      \* frames the peer sent: set of <<seq, rpt>>
          rcv, rpt   \* receiver: sequence numbers received, largest Retire Prior To seen
vars == <<sent, rcv, rpt>>
Seqs == { f[1] : f \in sent } \cup {0}
PeerRPT == IF sent = {} THEN 0 ELSE LET m == CHOOSE f \in sent : \A g \in sent : g[1] <= f[1] IN m[2]
Init == sent = {} /\ rcv = {0} /\ rpt = 0
Issue == \E r \in 0..N :
  LET s == Cardinality(sent) + 1 IN
  /\ s <= N /\ r <= s /\ r >= PeerRPT
  /\ Cardinality({ x \in Seqs \cup {s} : x >= r }) <= L
  /\ sent' = sent \cup {<<s, r>>} /\ UNCHANGED <<rcv, rpt>>
Deliver == \E f \in sent : rcv' = rcv \cup {f[1]} /\ rpt' = (IF f[2] > rpt THEN f[2] ELSE rpt) /\ UNCHANGED sent
Next == Issue \/ Deliver
Spec == Init /\ [][Next]_vars
NeverAboveLimit == Cardinality({ s \in rcv : s >= rpt }) <= L
=============================================================================
