SPECIFICATION Spec
CONSTANTS L = 3 N = 6
INVARIANT NeverAboveLimit
CHECK_DEADLOCK FALSE
