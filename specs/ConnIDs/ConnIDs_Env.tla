---------------------------- MODULE ConnIDs_Env ----------------------------
(* Stimulus alphabets of C16: every sequence of L calls per tier.            *)
EXTENDS SeqEnum, Integers
CONSTANTS Tier, MaxSeq
O(op, a, b) == [op |-> op, a |-> a, b |-> b]
Manager ==
       UNION { { O("Add", s, r) : r \in 0..s } : s \in 1..MaxSeq }
  \cup { O("AddConflict", s, 0) : s \in {1, 2} }
  \cup { O("Get", 0, 0), O("SentPackets", 20000, 0), O("HandshakeComplete", 0, 0), O("SetToken", 0, 0), O("Close", 0, 0) }
  \cup { O("GetForPath", p, 0) : p \in {1, 2} } \cup { O("RetireForPath", 1, 0) }
Generator ==
       { O("SetMax", l, 0) : l \in {2, 4, 8} }
  \cup { O("Retire", s, same) : s \in 0..3, same \in {0, 1} } \cup { O("Retire", 9, 0) }
  \cup { O("Packet", s, 0) : s \in {0, 1, 2, 9} }
  \cup { O("HandshakeDone", 30, 0), O("Tick", 10, 0), O("Tick", 100, 0), O("Sweep", 0, 0),
         O("Close", 0, 50), O("Close", 1, 50), O("Close", 2, 50) }
Alphabet == IF Tier = "manager" THEN Manager ELSE Generator
Init == EnumInit
Next == EnumNext(Alphabet)
Spec == Init /\ [][Next]_h
=============================================================================
