---------------------------- MODULE ConnIDs_Trace ----------------------------
(* Validates traces of harness/root/c16_test.go against ConnIDs.              *)
EXTENDS ConnIDs, TraceLib
VARIABLES l
tvars == <<vars, l>>
Line == Trace[l]
H(e) == [active |-> e.active, queue |-> SeqToSet(e.queue), probing |-> SeqToSet(e.probing)]
R(e) == LET C == SeqToSet(e.conn) D == SeqToSet(e.closedl) IN [s \in C \cup D |-> IF s \in C THEN "conn" ELSE "closed"]
Blank == /\ received' = {0} /\ maxRPT' = 0 /\ reported' = {} /\ held' = [active |-> 0, queue |-> {}, probing |-> {}]
         /\ tokens' = {} /\ tokenKnown' = FALSE
         /\ issued' = {0} /\ retired' = <<>> /\ peerLimit' = 0 /\ now' = 0 /\ lastSweep' = 0 /\ routed' = <<>>
         /\ closed' = "" /\ closeUntil' = 0 /\ step' = NoStep
Ev(e) ==
  CASE e.ev = "Reset" -> Blank
    [] e.ev = "InitGen" -> /\ issued' = SeqToSet(e.issued) /\ routed' = R(e) /\ step' = NoStep
                           /\ UNCHANGED <<mvars, retired, peerLimit, now, lastSweep, closed, closeUntil>>
    [] e.ev = "NewConnID" -> NewConnID(e.seq, e.rpt, e.res, SeqToSet(e.retires), H(e), SeqToSet(e.tokens))
    [] e.ev \in {"Get", "GetForPath", "RetireForPath", "SentPackets", "HandshakeComplete"} -> ManagerCall(e.ev, SeqToSet(e.retires), H(e), SeqToSet(e.tokens))
    [] e.ev = "SetToken" -> SetToken(H(e), SeqToSet(e.tokens))
    [] e.ev = "ManagerClose" -> ManagerClose(SeqToSet(e.tokens))
    [] e.ev = "SetPeerLimit" -> SetPeerLimit(e.limit, SeqToSet(e.newseqs), R(e))
    [] e.ev = "PeerRetires" -> PeerRetires(e.seq, e.samedest, e.expiry, e.res, SeqToSet(e.newseqs), R(e))
    [] e.ev = "HandshakeDone" -> HandshakeDone(e.expiry, R(e))
    [] e.ev = "Tick" -> Tick(e.now, R(e))
    [] e.ev = "Sweep" -> Sweep(R(e))
    [] e.ev = "Packet" -> Packet(e.seq, e.to, R(e))
    [] e.ev = "Close" -> Close(e.mode, e.until, R(e))
    [] e.ev = "Panic" -> UNCHANGED vars
TraceInit == /\ l = 1 /\ received = {0} /\ maxRPT = 0 /\ reported = {} /\ held = [active |-> 0, queue |-> {}, probing |-> {}]
             /\ tokens = {} /\ tokenKnown = FALSE
             /\ issued = {0} /\ retired = <<>> /\ peerLimit = 0 /\ now = 0 /\ lastSweep = 0 /\ routed = <<>>
             /\ closed = "" /\ closeUntil = 0 /\ step = NoStep
TraceNext == l <= TraceLen /\ Ev(Line) /\ l' = l + 1
TraceSpec == TraceInit /\ [][TraceNext]_tvars
=============================================================================
