------------------------------- MODULE ConnIDs -------------------------------
(* C16 - connection IDs: limits honoured both ways, retirements reported,     *)
(* routing clean.                                                             *)
(*                                                                            *)
(* Two sides of one endpoint, one action per call made by connection.go:      *)
(*  peer-issued IDs (connIDManager): NEW_CONNECTION_ID frames, rotation,      *)
(*    path probing; what the code holds (active / queued / probing sequence   *)
(*    numbers), the RETIRE_CONNECTION_ID frames it queued and the stateless   *)
(*    reset tokens it registered are observed after every call;               *)
(*  own IDs (connIDGenerator wired to the real packetHandlerMap): issuing up  *)
(*    to the peer's limit, RETIRE_CONNECTION_ID from the peer, expiry, close; *)
(*    the NEW_CONNECTION_ID frames queued and the routing table are observed. *)
(* Sequence numbers stand for the IDs (sequence number s carries ID / token   *)
(* "s", a conflicting retransmission carries other contents).                 *)
EXTENDS Integers, Sequences, FiniteSets

CONSTANTS Limit,        \* active_connection_id_limit this endpoint advertised (peer-issued side)
          IssueCap      \* protocol.MaxIssuedConnectionIDs
VARIABLES
  \* peer-issued side
  received,     \* sequence numbers received in NEW_CONNECTION_ID frames (0 is the handshake ID)
  maxRPT,       \* largest Retire Prior To received
  reported,     \* sequence numbers for which RETIRE_CONNECTION_ID was queued
  held,         \* observed: [active, queue (set), probing (set)]
  tokens,       \* observed: reset tokens currently registered (as sequence numbers)
  tokenKnown,   \* the handshake ID's reset token was announced (transport parameter)
  \* own side
  issued,       \* sequence numbers issued
  retired,      \* seq -> expiry of those the peer retired ("-1" key of the client's original DCID is "odcid")
  peerLimit,    \* the peer's active_connection_id_limit (0: not known yet)
  now, lastSweep,
  routed,       \* observed: label -> "conn" | "closed"
  closed,       \* "" | "immediate" | "graceful"
  closeUntil,
  step
mvars == <<received, maxRPT, reported, held, tokens, tokenKnown>>
gvars == <<issued, retired, peerLimit, now, lastSweep, routed, closed, closeUntil>>
vars == <<mvars, gvars, step>>

NoStep == [kind |-> "none", res |-> "ok", seq |-> 0, wasHeld |-> FALSE]
Max(a, b) == IF a > b THEN a ELSE b
HeldSet(h) == {h.active} \cup h.queue \cup h.probing

------------------------------------------------------------------------------
(* peer-issued side *)
\* res: "ok" | "limit" (CONNECTION_ID_LIMIT_ERROR) | "violation" | "error"; retires: RETIRE frames queued by this call
MStep(kind, res, retires, h, toks) ==
  /\ reported' = reported \cup retires
  /\ held' = h /\ tokens' = toks
NewConnID(seq, rpt, res, retires, h, toks) ==
  /\ received' = received \cup {seq}
  /\ maxRPT' = Max(maxRPT, rpt)
  /\ MStep("NewConnID", res, retires, h, toks)
  /\ step' = [NoStep EXCEPT !.kind = "NewConnID", !.res = res, !.seq = seq]
  /\ UNCHANGED <<tokenKnown, gvars>>
ManagerCall(kind, retires, h, toks) ==        \* Get (rotation) / GetForPath / RetireForPath / SentPackets / HandshakeComplete
  /\ MStep(kind, "ok", retires, h, toks)
  /\ step' = [NoStep EXCEPT !.kind = kind]
  /\ UNCHANGED <<received, maxRPT, tokenKnown, gvars>>
SetToken(h, toks) ==
  /\ tokenKnown' = TRUE /\ MStep("SetToken", "ok", {}, h, toks)
  /\ step' = [NoStep EXCEPT !.kind = "SetToken"]
  /\ UNCHANGED <<received, maxRPT, gvars>>
ManagerClose(toks) ==
  /\ tokens' = toks /\ step' = [NoStep EXCEPT !.kind = "ManagerClose"]
  /\ UNCHANGED <<received, maxRPT, reported, held, tokenKnown, gvars>>

\* accepts every connection ID within the limit it advertised: the limit is evaluated after adding and retiring
\* (RFC 9000 5.1.1); IDs below the largest Retire Prior To or reported retired do not count
AcceptWithinLimit ==
  (step.kind = "NewConnID" /\ step.res = "limit") =>
     Cardinality({ s \in received : s >= maxRPT /\ s \notin reported }) > Limit
\* every sequence number no longer held has been reported; nothing unknown is reported.
\* (Not required, because the property does not state it: that nothing still held is reported. The code does report
\*  IDs it keeps using - see DESIGN.md, observations outside the listed properties.)
RetirementsReported ==
  (step.kind \in {"NewConnID", "Get", "GetForPath", "RetireForPath", "SentPackets", "HandshakeComplete", "SetToken"} /\ step.res = "ok") =>
     /\ (received \ HeldSet(held)) \subseteq reported
     /\ reported \subseteq received
\* everything below the largest Retire Prior To is gone
RetirePriorToHonoured ==
  (step.kind = "NewConnID" /\ step.res = "ok") => \A s \in HeldSet(held) : s >= maxRPT
\* reset tokens are registered exactly for the peer IDs in use
TokensExact ==
  step.kind \in {"NewConnID", "Get", "GetForPath", "RetireForPath", "SetToken"} /\ step.res = "ok" =>
     tokens = ({held.active} \cup held.probing) \ (IF tokenKnown THEN {} ELSE {0})
TokensGoneAfterClose == step.kind = "ManagerClose" => tokens = {}

------------------------------------------------------------------------------
(* own side *)
Unretired == issued \ DOMAIN retired
GStep(kind, res, r) == routed' = r /\ step' = [NoStep EXCEPT !.kind = kind, !.res = res]
SetPeerLimit(limit, newSeqs, r) ==
  /\ peerLimit' = limit /\ issued' = issued \cup newSeqs
  /\ GStep("SetPeerLimit", "ok", r)
  /\ UNCHANGED <<mvars, retired, now, lastSweep, closed, closeUntil>>
\* RETIRE_CONNECTION_ID from the peer; sameDest: the frame arrived in a packet addressed to that very ID
PeerRetires(seq, sameDest, expiry, res, newSeqs, r) ==
  /\ issued' = issued \cup newSeqs
  /\ retired' = IF res = "ok" /\ seq \in Unretired THEN [x \in DOMAIN retired \cup {seq} |-> IF x = seq THEN expiry ELSE retired[x]] ELSE retired
  /\ routed' = r
  /\ step' = [NoStep EXCEPT !.kind = "PeerRetires", !.res = res, !.seq = seq, !.wasHeld = (seq \in Unretired /\ sameDest)]
  /\ UNCHANGED <<mvars, peerLimit, now, lastSweep, closed, closeUntil>>
HandshakeDone(expiry, r) ==      \* the client's original destination ID ("-1") starts its retirement period
  /\ retired' = IF -1 \in issued THEN [x \in DOMAIN retired \cup {-1} |-> IF x = -1 THEN expiry ELSE retired[x]] ELSE retired
  /\ GStep("HandshakeDone", "ok", r)
  /\ UNCHANGED <<mvars, issued, peerLimit, now, lastSweep, closed, closeUntil>>
Tick(t, r) == now' = t /\ GStep("Tick", "ok", r) /\ UNCHANGED <<mvars, issued, retired, peerLimit, lastSweep, closed, closeUntil>>
Sweep(r) ==                     \* RemoveRetiredConnIDs(now)
  /\ lastSweep' = now /\ GStep("Sweep", "ok", r)
  /\ UNCHANGED <<mvars, issued, retired, peerLimit, now, closed, closeUntil>>
Close(mode, until, r) ==
  /\ closed' = mode /\ closeUntil' = until /\ GStep("Close", "ok", r)
  /\ UNCHANGED <<mvars, issued, retired, peerLimit, now, lastSweep>>

\* a short-header packet for ID seq (999: an ID that was never ours) reached the transport; to: "conn" | "closed" | "reset" | "dropped"
Packet(seq, to, r) ==
  /\ routed' = r
  /\ step' = [NoStep EXCEPT !.kind = "Packet", !.seq = seq, !.res = to]
  /\ UNCHANGED <<mvars, issued, retired, peerLimit, now, lastSweep, closed, closeUntil>>
\* packets reach the connection for precisely its issued and not yet expired IDs; never after it closed; never for a foreign ID
RoutedPrecisely ==
  step.kind = "Packet" =>
     /\ (step.res = "conn" => closed = "" /\ step.seq \in issued /\ (step.seq \in Unretired \/ step.seq \in DOMAIN routed))
     /\ ((closed = "" /\ step.seq \in Unretired) => step.res = "conn")
     /\ ((closed = "" /\ step.seq \in DOMAIN retired /\ retired[step.seq] > lastSweep) => step.res = "conn")
     /\ (step.seq \notin issued => step.res \in {"reset", "dropped"})

\* never more unretired IDs issued than the peer allows (the handshake ID counts)
IssuedWithinPeerLimit == Cardinality(Unretired \ {-1}) <= Max(1, peerLimit)
\* while open: packets are routed to the connection for precisely its issued and not yet expired IDs
RoutingExact ==
  (closed = "" /\ step.kind \in {"SetPeerLimit", "PeerRetires", "HandshakeDone", "Sweep", "Tick"}) =>
     /\ \A s \in Unretired : s \in DOMAIN routed /\ routed[s] = "conn"
     /\ \A s \in DOMAIN retired : retired[s] > lastSweep => (s \in DOMAIN routed /\ routed[s] = "conn")
     /\ \A s \in DOMAIN retired : (step.kind = "Sweep" /\ retired[s] <= lastSweep) => s \notin DOMAIN routed
     /\ DOMAIN routed \subseteq issued
\* a RETIRE_CONNECTION_ID for a sequence number never issued, or for the ID the packet was addressed to, is a protocol violation
RetireErrors ==
  step.kind = "PeerRetires" =>
     /\ (step.seq \notin issued \/ step.wasHeld) => step.res = "violation"
     /\ (step.seq \in issued /\ ~step.wasHeld) => step.res = "ok"
\* after the connection closed: nothing reaches it; stand-ins only until the closing period ends
CleanAfterClose ==
  closed # "" =>
     /\ \A s \in DOMAIN routed : routed[s] # "conn"
     /\ closed = "immediate" => routed = <<>>
     /\ (closed = "graceful" /\ now >= closeUntil /\ step.kind = "Tick") => routed = <<>>
=============================================================================
