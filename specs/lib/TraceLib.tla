------------------------------ MODULE TraceLib ------------------------------
(* Shared plumbing of every *_Trace specification.                           *)
(* The trace is an NDJSON file (one JSON object per line) named by the       *)
(* environment variable TRACE.  Several executions are concatenated; each    *)
(* starts with a line  {"ev":"Reset", "cfg":{...}}.                          *)
EXTENDS Naturals, Sequences, TLC, Json, IOUtils

Trace == ndJsonDeserialize(IOEnv.TRACE)
TraceLen == Len(Trace)

Has(r, f) == f \in DOMAIN r
Get(r, f, d) == IF f \in DOMAIN r THEN r[f] ELSE d

(* JSON arrays arrive as sequences (tuples); the empty array as <<>>. *)
SeqToSet(s) == { s[i] : i \in DOMAIN s }
=============================================================================
