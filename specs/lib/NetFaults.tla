------------------------------ MODULE NetFaults ------------------------------
(* TLC as enumerator of network fault schedules: every assignment of at most K *)
(* faults to the first NDg datagrams of each direction.  One state = one        *)
(* schedule (faults kept in increasing (direction, ordinal) order), printed as  *)
(* a JSON line.                                                                 *)
EXTENDS Naturals, Sequences, TLC, Json
CONSTANTS K, NDg, Kinds, Dirs
VARIABLE h
Key(f) == (IF f.dir = "c2s" THEN 0 ELSE 1000) + f.from
Faults == [dir : Dirs, from : 1..NDg, kind : Kinds]
Init == h = <<>>
Next == /\ Len(h) < K
        /\ \E f \in Faults : (IF h = <<>> THEN TRUE ELSE Key(f) > Key(h[Len(h)])) /\ h' = Append(h, f)
Spec == Init /\ [][Next]_h
Emit == PrintT(ToJson(h))
=============================================================================
