------------------------------ MODULE SeqEnum ------------------------------
(* TLC as enumerator: every sequence of exactly L stimuli over Alphabet is   *)
(* one distinct state; reaching length L prints it as a JSON line.  Shorter  *)
(* sequences are prefixes of the printed ones and are validated as such.     *)
EXTENDS Naturals, Sequences, TLC, Json
CONSTANTS L
VARIABLE h
EnumInit == h = <<>>
EnumNext(Alphabet) == Len(h) < L /\ \E o \in Alphabet : h' = Append(h, o)
Emit == Len(h) = L => PrintT(ToJson(h))
=============================================================================
