SPECIFICATION Spec
CONSTANTS MaxPkts = 6 MinPkts = 2 LimitPkts = 1 InitPkts = 3 NPkts = 9 Mss2 = 2 Inf = 1000
INVARIANTS CwndBounds ShrinkOnlyOnLoss OncePerWindow GrowOnlyLimited SendGate PacerBound
VIEW View
CHECK_DEADLOCK FALSE
