----------------------------- MODULE PacerBucket -----------------------------
(* Why the per-call bound checked on traces (Congestion!PacerBound: every     *)
(* budget the pacer reports is at most min(burst, left over at the last send  *)
(* + rate * elapsed)) gives the interval statement of C20: on this token      *)
(* bucket, with packets released only against a sufficient budget, the bytes  *)
(* released in ANY interval [s, now] never exceed one burst plus rate times   *)
(* the length of the interval.  Discrete time, rate = 1.25 * bandwidth.       *)
EXTENDS Integers
CONSTANTS B, R, T, S
VARIABLES now, tokens, last, sentOnce, win   \* win[s]: bytes released at times >= s
vars == <<now, tokens, last, sentOnce, win>>
Min(a, b) == IF a < b THEN a ELSE b
Budget == IF sentOnce THEN Min(B, tokens + R * (now - last)) ELSE B
Init == now = 0 /\ tokens = 0 /\ last = 0 /\ sentOnce = FALSE /\ win = [s \in 0..T |-> 0]
Tick == now < T /\ now' = now + 1 /\ UNCHANGED <<tokens, last, sentOnce, win>>
Send == \E size \in 1..S :
  /\ Budget >= size
  /\ tokens' = Budget - size /\ last' = now /\ sentOnce' = TRUE
  /\ win' = [s \in 0..T |-> IF s <= now THEN win[s] + size ELSE win[s]]
  /\ UNCHANGED now
Next == Tick \/ Send
Spec == Init /\ [][Next]_vars
IntervalBound == \A s \in 0..now : win[s] <= B + R * (now - s)
=============================================================================
