SPECIFICATION Spec
CONSTANTS B = 5 R = 2 T = 5 S = 3
INVARIANT IntervalBound
CHECK_DEADLOCK FALSE
