----------------------------- MODULE Congestion -----------------------------
(* C20 - congestion window and pacing stay within their bounds.              *)
(*                                                                           *)
(* One action per call of the SendAlgorithm interface                        *)
(* (internal/congestion/cubic_sender.go) as made by                          *)
(* ackhandler.sentPacketHandler.  Every action takes the *observed* result   *)
(* (the window after the call, the budget returned, ...) as a parameter and  *)
(* records what happened in the variable step; the clauses of the property   *)
(* are state predicates over (step, state) so that TLC names the clause a    *)
(* recorded execution breaks.  Congestion_MC adds a reference algorithm (an   *)
(* abstract Reno sender) and checks that it   *)
(* satisfies the clauses, Congestion_Trace checks the real code against the  *)
(* clauses only (not against the reference algorithm: any growth function    *)
(* within the bounds conforms).                                              *)
(*                                                                           *)
(* Sizes are bytes.  The pacer's arithmetic (bandwidth * time) does not fit  *)
(* TLC's 32-bit integers; the two products the bound needs,                  *)
(*   credit = ceil(1.25 * cwnd * elapsed / srtt)   (0 if elapsed <= 0)       *)
(*   burst  = max(10 * mss, ceil(1.25 * cwnd * 2ms / srtt))                  *)
(* are computed exactly (math/big) by the harness from the inputs it fed and *)
(* capped at 2^29; the token bucket itself and every comparison are here.    *)
EXTENDS Integers, Sequences, FiniteSets

CONSTANTS MaxPkts,        \* configured maximum window, packets (protocol.MaxCongestionWindowPackets)
          MinPkts,        \* minimum window, packets (2)
          LimitPkts       \* "window-limited" slack, packets (maxBurstPackets = 3)

VARIABLES mss,            \* current maximum datagram size
          cwnd,           \* congestion window
          lsent,          \* largest ack-eliciting packet number sent (-1 none)
          lacked,         \* largest acknowledged (-1 none)
          cut,            \* largest sent when the window was last reduced by a loss (-1: none in this epoch)
          tokens,         \* pacer: upper bound on the budget left right after the last send
          sentOnce,       \* pacer: a packet has been sent
          step            \* what the last transition was (clauses are evaluated on it)
cvars == <<mss, cwnd, lsent, lacked, cut>>
pvars == <<tokens, sentOnce>>
vars == <<cvars, pvars, step>>

Max(a, b) == IF a > b THEN a ELSE b
Min(a, b) == IF a < b THEN a ELSE b
MinW(m) == MinPkts * m
MaxW(m) == MaxPkts * m

NoStep == [kind |-> "none", pre |-> 0, pn |-> 0, pcut |-> 0, limited |-> FALSE, b |-> 0, avail |-> 0, inf |-> 0, ok |-> FALSE]
St(k, f) == [x \in DOMAIN NoStep |-> IF x \in DOMAIN f THEN f[x] ELSE IF x = "kind" THEN k ELSE IF x = "pre" THEN cwnd ELSE NoStep[x]]

\* "actually window-limited": the flight fills the window, or leaves at most LimitPkts packets of room,
\* or (in slow start) uses more than half of it.  ss: the sender is in slow start.
Limited(inf, w, m, ss) == inf >= w \/ w - inf <= LimitPkts * m \/ (ss /\ inf > w \div 2)

------------------------------------------------------------------------------
(* actions; w2 etc. are the observed results *)

\* what the bucket holds; values at Cap are saturated ("more than we can count": no bound is claimed)
Cap == 536870912
Avail(credit, burst) ==
  IF ~sentOnce THEN burst
  ELSE IF tokens >= Cap \/ credit >= Cap THEN burst
  ELSE Min(burst, tokens + credit)

Sent(pn, ae, size, credit, burst, w2) ==
  /\ lsent' = IF ae THEN pn ELSE lsent
  /\ LET avail == Avail(credit, burst) IN
       tokens' = IF avail >= Cap THEN Cap ELSE Max(0, avail - size)
  /\ sentOnce' = TRUE
  /\ cwnd' = w2
  /\ step' = St("Sent", [pn |-> pn])
  /\ UNCHANGED <<mss, lacked, cut>>

Acked(pn, prior, ss, w2) ==
  /\ lacked' = Max(lacked, pn)
  /\ cwnd' = w2
  /\ step' = St("Acked", [pn |-> pn, limited |-> Limited(prior, cwnd, mss, ss), inf |-> prior])
  /\ UNCHANGED <<mss, lsent, cut, pvars>>

Lost(pn, prior, w2) ==
  /\ cwnd' = w2
  /\ cut' = IF w2 < cwnd THEN lsent ELSE cut
  /\ step' = St("Lost", [pn |-> pn, pcut |-> cut, inf |-> prior])
  /\ UNCHANGED <<mss, lsent, lacked, pvars>>

ExitSlowStart(w2) ==          \* MaybeExitSlowStart: may only move the threshold
  /\ cwnd' = w2
  /\ step' = St("ExitSS", <<>>)
  /\ UNCHANGED <<mss, lsent, lacked, cut, pvars>>

Rto(w2) ==                    \* OnRetransmissionTimeout: a new loss epoch
  /\ cwnd' = w2 /\ cut' = -1
  /\ step' = St("Rto", <<>>)
  /\ UNCHANGED <<mss, lsent, lacked, pvars>>

Migrated(w2) ==               \* OnConnectionMigration: everything starts over
  /\ cwnd' = w2 /\ cut' = -1 /\ lsent' = -1 /\ lacked' = -1
  /\ step' = St("Migration", <<>>)
  /\ UNCHANGED <<mss, pvars>>

MtuIncrease(m2, w2) ==
  /\ m2 >= mss
  /\ mss' = m2 /\ cwnd' = w2
  /\ step' = St("Mtu", <<>>)
  /\ UNCHANGED <<lsent, lacked, cut, pvars>>

Budget(credit, burst, b, w2) ==
  /\ step' = St("Budget", [b |-> b, avail |-> Avail(credit, burst)])
  /\ cwnd' = w2
  /\ UNCHANGED <<mss, lsent, lacked, cut, pvars>>

CanSend(inf, ok, w2) ==
  /\ step' = St("CanSend", [inf |-> inf, ok |-> ok])
  /\ cwnd' = w2
  /\ UNCHANGED <<mss, lsent, lacked, cut, pvars>>

------------------------------------------------------------------------------
(* the clauses of C20 *)

\* between two full-size packets and the configured maximum (plus at most one packet)
CwndBounds == MinW(mss) <= cwnd /\ cwnd <= MaxW(mss) + mss
\* never shrinks in response to acknowledgements (nor on a send, a query, leaving slow start or an MTU increase)
ShrinkOnlyOnLoss == (step.kind # "none" /\ cwnd < step.pre) => step.kind \in {"Lost", "Rto", "Migration"}
\* shrinks at most once per window of packets: a second reduction needs the loss of a packet sent after the first
OncePerWindow == (step.kind = "Lost" /\ cwnd < step.pre) => step.pn > step.pcut
\* grows only while window-limited (an MTU increase / a migration re-initialise it)
GrowOnlyLimited == (step.kind # "none" /\ cwnd > step.pre) => \/ step.kind = "Acked" /\ step.limited
                                      \/ step.kind \in {"Mtu", "Migration"}
\* new data is released only while bytes in flight are below the window
SendGate == (step.kind = "CanSend" /\ step.ok) => step.inf < cwnd
\* the pacer never authorises more than the bucket holds: min(burst, left over + 1.25 * bw * elapsed)
PacerBound == step.kind = "Budget" => step.b <= step.avail

=============================================================================
