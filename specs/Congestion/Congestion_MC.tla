---------------------------- MODULE Congestion_MC ----------------------------
(* Reference algorithm (abstract Reno, sizes in units of the initial packet  *)
(* size) driven by every environment: sends gated by the window, any         *)
(* outstanding packet acknowledged or declared lost in any order,            *)
(* slow-start exit, RTO, migration and one MTU increase at any point.        *)
(* TLC checks that the clauses of C20 hold for it, i.e. that they are        *)
(* satisfiable together and what a conforming sender looks like.             *)
EXTENDS Congestion, TLC

CONSTANTS InitPkts, NPkts, Mss2, Inf
VARIABLES nacked, ssthresh, out, next   \* out: pn -> size of packets in flight
mvars == <<vars, nacked, ssthresh, out, next>>

RECURSIVE SumOf(_, _)
SumOf(f, S) == IF S = {} THEN 0 ELSE LET x == CHOOSE x \in S : TRUE IN f[x] + SumOf(f, S \ {x})
InFlight == SumOf(out, DOMAIN out)
Drop(f, x) == [y \in DOMAIN f \ {x} |-> f[y]]

InSS == cwnd < ssthresh
RefAck(pn, prior) ==
  IF Max(lacked, pn) <= cut THEN cwnd
  ELSE IF ~Limited(prior, cwnd, mss, InSS) THEN cwnd
  ELSE IF cwnd >= MaxW(mss) THEN cwnd
  ELSE IF InSS THEN cwnd + mss
  ELSE IF nacked + 1 >= cwnd \div mss THEN cwnd + mss ELSE cwnd
RefLost(pn) == IF pn <= cut THEN cwnd ELSE Max(MinW(mss), (cwnd * 7) \div 10)

Init ==
  /\ mss = 1 /\ cwnd = InitPkts /\ lsent = -1 /\ lacked = -1 /\ cut = -1
  /\ tokens = 0 /\ sentOnce = FALSE /\ step = NoStep
  /\ nacked = 0 /\ ssthresh = Inf /\ out = <<>> /\ next = 0

DoSend ==
  /\ next < NPkts /\ InFlight < cwnd
  /\ Sent(next, TRUE, mss, 0, 0, cwnd)
  /\ out' = [p \in DOMAIN out \cup {next} |-> IF p = next THEN mss ELSE out[p]]
  /\ next' = next + 1 /\ UNCHANGED <<nacked, ssthresh>>
DoAck == \E p \in DOMAIN out :
  /\ Acked(p, InFlight, InSS, RefAck(p, InFlight))
  /\ nacked' = IF Max(lacked, p) <= cut \/ ~Limited(InFlight, cwnd, mss, InSS) \/ cwnd >= MaxW(mss) \/ InSS THEN nacked
               ELSE IF nacked + 1 >= cwnd \div mss THEN 0 ELSE nacked + 1
  /\ out' = Drop(out, p) /\ UNCHANGED <<ssthresh, next>>
DoLose == \E p \in DOMAIN out :
  /\ Lost(p, InFlight, RefLost(p))
  /\ ssthresh' = IF p <= cut THEN ssthresh ELSE RefLost(p)
  /\ nacked' = IF p <= cut THEN nacked ELSE 0
  /\ out' = Drop(out, p) /\ UNCHANGED next
DoExit == InSS /\ ExitSlowStart(cwnd) /\ ssthresh' = cwnd /\ UNCHANGED <<nacked, out, next>>
DoRto == out # <<>> /\ Rto(MinW(mss)) /\ ssthresh' = cwnd \div 2 /\ UNCHANGED <<nacked, out, next>>
DoMigrate == Migrated(InitPkts * mss) /\ ssthresh' = Inf /\ nacked' = 0 /\ out' = <<>> /\ UNCHANGED next
DoMtu == mss < Mss2 /\ MtuIncrease(Mss2, Max(cwnd, MinW(Mss2))) /\ UNCHANGED <<nacked, ssthresh, out, next>>
DoQuery == \E i \in {InFlight, cwnd} : CanSend(i, i < cwnd, cwnd) /\ UNCHANGED <<nacked, ssthresh, out, next>>

Next == DoSend \/ DoAck \/ DoLose \/ DoExit \/ DoRto \/ DoMigrate \/ DoMtu \/ DoQuery
Spec == Init /\ [][Next]_mvars
View == <<cvars, nacked, ssthresh, out, next, step>>
=============================================================================
