--------------------------- MODULE Congestion_Env ---------------------------
(* Stimulus alphabet of C20: every sequence of L events, executed after each  *)
(* prelude (fresh sender / window at the floor / congestion avoidance).       *)
EXTENDS SeqEnum, Integers
O(op, a, b) == [op |-> op, a |-> a, b |-> b]
Alphabet ==
       { O("Send", n, 1) : n \in {1, 3, 40} }        \* n packets, gated by CanSend, full size
  \cup { O("Send", 1, 0), O("SendSmall", 1, 1) }     \* a pure ACK; a small ack-eliciting packet
  \cup { O("AckLoss", p, 0) : p \in 0..5 }           \* which outstanding packets are acked / lost (see c20.py)
  \cup { O("Tick", d, 0) : d \in {1000, 2000000, 100000000, -1000} }   \* ns; the clock may step back
  \cup { O("Budget", 0, 0), O("Mtu", 1452, 0), O("Rto", 1, 0), O("Migr", 0, 0) }
Init == EnumInit
Next == EnumNext(Alphabet)
Spec == Init /\ [][Next]_h
=============================================================================
