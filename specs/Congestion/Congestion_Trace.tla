--------------------------- MODULE Congestion_Trace ---------------------------
(* Validates traces recorded from congestion.cubicSender                      *)
(* (harness/congestion/c20_test.go: the sender driven directly;               *)
(*  harness/ackhandler/c20h_test.go: the sender as driven by the real         *)
(*  sentPacketHandler, calls recorded by a wrapper) against Congestion.       *)
EXTENDS Congestion, TraceLib
VARIABLES l
tvars == <<vars, l>>
Line == Trace[l]

ResetAll(e) ==
  /\ mss = e.mss /\ cwnd = e.cwnd /\ lsent = -1 /\ lacked = -1 /\ cut = -1
  /\ tokens = 0 /\ sentOnce = FALSE /\ step = NoStep

Ev(e) ==
  CASE e.ev = "Reset"   -> /\ mss' = 1 /\ cwnd' = MinPkts /\ lsent' = -1 /\ lacked' = -1 /\ cut' = -1
                           /\ tokens' = 0 /\ sentOnce' = FALSE /\ step' = NoStep
    [] e.ev = "Init"    -> /\ mss' = e.mss /\ cwnd' = e.cwnd /\ step' = NoStep      \* a new sender: its first window
                           /\ UNCHANGED <<lsent, lacked, cut, pvars>>
    [] e.ev = "Forget"  -> /\ tokens' = Cap /\ step' = NoStep /\ UNCHANGED <<cvars, sentOnce>>   \* sends were left out of the trace
    [] e.ev = "Panic"   -> UNCHANGED vars
    [] e.ev = "Sent"    -> Sent(e.pn, e.ae, e.size, e.credit, e.burst, e.cwnd)
    [] e.ev = "Acked"   -> Acked(e.pn, e.prior, e.ss, e.cwnd)
    [] e.ev = "Lost"    -> Lost(e.pn, e.prior, e.cwnd)
    [] e.ev = "ExitSS"  -> ExitSlowStart(e.cwnd)
    [] e.ev = "Rto"     -> Rto(e.cwnd)
    [] e.ev = "Migr"    -> Migrated(e.cwnd)
    [] e.ev = "Mtu"     -> MtuIncrease(e.mss, e.cwnd)
    [] e.ev = "Budget"  -> Budget(e.credit, e.burst, e.b, e.cwnd)
    [] e.ev = "CanSend" -> CanSend(e.inf, e.ok, e.cwnd)

TraceInit == l = 1 /\ ResetAll([mss |-> 1, cwnd |-> MinPkts])
TraceNext == l <= TraceLen /\ Ev(Line) /\ l' = l + 1
TraceSpec == TraceInit /\ [][TraceNext]_tvars
=============================================================================
