----------------------------- MODULE CodecKnobs -----------------------------
(* TLC as enumerator of structured values: every frame kind with every        *)
(* combination of variable-length-integer boundaries in its numeric fields.   *)
EXTENDS Naturals, Sequences, TLC, Json
VARIABLE h
B == {"0", "1", "63", "64", "16383", "16384", "2^30-1", "2^30", "2^62-1"}
Arity == [max_data |-> 1, data_blocked |-> 1, max_stream_data |-> 2, stream_data_blocked |-> 2, max_streams |-> 2, streams_blocked |-> 2,
          reset_stream |-> 3, reset_stream_at |-> 4, stop_sending |-> 2, retire_connection_id |-> 1, new_connection_id |-> 3,
          new_token |-> 1, crypto |-> 2, stream |-> 4, datagram |-> 2, connection_close |-> 4, ack |-> 4, ack_frequency |-> 3,
          simple |-> 1, short_header |-> 3, long_header |-> 4, vn |-> 3]
Kinds == DOMAIN Arity
Knobs == UNION { { [kind |-> k, f |-> t] : t \in [1..Arity[k] -> B] } : k \in Kinds }
Init == h = <<>>
Next == h = <<>> /\ \E kn \in Knobs : h' = <<kn>>
Spec == Init /\ [][Next]_h
Emit == h # <<>> => PrintT(ToJson(h))
=============================================================================
