------------------------------- MODULE Varints -------------------------------
(* TLC as enumerator of every 1- and 2-byte variable-length integer (and the   *)
(* first 4-byte ones): the expected length comes from Codec!VarintLen.         *)
EXTENDS Naturals, Sequences, TLC, Json
CONSTANTS Lo, Hi
VARIABLE h
Init == h = <<>>
Next == h = <<>> /\ \E lo \in { x \in Lo..Hi : x % 512 = 0 } : h' = <<[lo |-> lo, hi |-> (IF lo + 511 > Hi THEN Hi ELSE lo + 511)]>>
Spec == Init /\ [][Next]_h
Emit == h # <<>> => PrintT(ToJson(h))
=============================================================================
