----------------------------- MODULE Codec_Trace -----------------------------
EXTENDS Codec, TraceLib
VARIABLES l
tvars == <<step, l>>
Line == Trace[l]
Ev(e) ==
  CASE e.ev = "Reset" -> Start
    [] e.ev = "Value" -> Value(e.what, e.predicted, e.actual, e.parsed, e.consumed, e.equal, e.again)
    [] e.ev = "Varint" -> Varint(e.v, e.explen, e.len, e.applen, e.back, e.consumed)
    [] e.ev = "Batch" -> Batch(e.parser, e.ok, e.why)
    [] e.ev = "Range" -> Range(e.what, e.rejected)
    [] e.ev = "Panic" -> Crash
TraceInit == l = 1 /\ step = NoStep
TraceNext == l <= TraceLen /\ Ev(Line) /\ l' = l + 1
TraceSpec == TraceInit /\ [][TraceNext]_tvars
=============================================================================
