-------------------------------- MODULE Codec --------------------------------
(* C08 - wire codecs are total, consistent with their length predictions and  *)
(* round-trip.                                                                *)
(*                                                                            *)
(* The byte-level work is done by the harness on the real encoders / parsers; *)
(* this specification states what has to hold of every reported observation   *)
(* and supplies, for variable-length integers, the expected encoded length.   *)
(*   Value:   a structured value was encoded: predicted length, actual length,*)
(*            whether the bytes parsed, how many bytes the parser consumed,    *)
(*            whether the parsed value equals the original and whether         *)
(*            re-encoding the parsed value parses to the same result again     *)
(*   Varint:  one integer (TLC enumerates 0 .. 2^14 + boundary symbols)        *)
(*   Batch:   a batch of (seeded) byte strings was fed to one parser            *)
(*   Range:   a value outside what RFC 9000 allows was presented               *)
EXTENDS Integers, Sequences
VARIABLE step
NoStep == [kind |-> "none", ok |-> TRUE, why |-> ""]

\* RFC 9000 section 16
VarintLen(v) == IF v < 64 THEN 1 ELSE IF v < 16384 THEN 2 ELSE IF v < 1073741824 THEN 4 ELSE 8

Start == step' = NoStep
Value(what, predicted, actual, parsed, consumed, equal, again) ==
  step' = [NoStep EXCEPT !.kind = "Value",
     !.ok = predicted = actual /\ parsed /\ consumed = actual /\ equal /\ again,
     !.why = what \o (IF predicted # actual THEN ": occupies another length than predicted"
                      ELSE IF ~parsed THEN ": the encoder's output does not parse"
                      ELSE IF consumed # actual THEN ": the parser consumed another number of bytes than were encoded"
                      ELSE IF ~equal THEN ": parses back to a different value"
                      ELSE IF ~again THEN ": re-encoding the parsed value parses to something else" ELSE "")]
\* v < 2^31 is given as a number, larger boundaries by their expected length
Varint(v, explen, len, applen, back, consumed) ==
  LET want == IF explen > 0 THEN explen ELSE VarintLen(v) IN
  step' = [NoStep EXCEPT !.kind = "Varint",
     !.ok = len = want /\ applen = want /\ back /\ consumed = want,
     !.why = IF len = want /\ applen = want /\ back /\ consumed = want THEN "" ELSE "varint length / round trip"]
Batch(parser, ok, why) == step' = [NoStep EXCEPT !.kind = "Batch", !.ok = ok, !.why = parser \o ": " \o why]
Range(what, rejected) == step' = [NoStep EXCEPT !.kind = "Range", !.ok = rejected, !.why = IF rejected THEN "" ELSE what \o ": accepted although outside what RFC 9000 allows"]
Crash == step' = [NoStep EXCEPT !.kind = "Panic", !.ok = FALSE, !.why = "panic"]
Consistent == step.ok
=============================================================================
