#!/bin/bash
mkdir -p /tmp/vseed
# usage: runbase.sh <worktree> [pkg patterns...]   -- runs the repository's baseline test-suite (go 1.24, tag off)
# and reports every test of the pinned passing list (/root/.vp/BASELINE.json stable_pass) that did not pass.
wt=$1; shift
pk=${@:-./...}
cd $wt || exit 2
export GOFLAGS=-mod=mod
go test -json -vet=off -count=1 -timeout 25m $pk > /tmp/vseed/$(basename $wt).gotest.json 2>/tmp/vseed/$(basename $wt).gotest.err
python3 - "$wt" "$pk" <<'PY'
import json,sys
wt=sys.argv[1]; pk=sys.argv[2]
base=json.load(open('/root/.vp/BASELINE.json'))['stable_pass']
import os
res={}
pkgs=set()
for l in open(f'/tmp/vseed/{os.path.basename(wt)}.gotest.json'):
    try: e=json.loads(l)
    except: continue
    if 'Package' in e: pkgs.add(e['Package'])
    if e.get('Test') and e.get('Action') in('pass','fail','skip'):
        res[e['Package']+'::'+e['Test']]=e['Action']
want=[t for t in base if t.split('::')[0] in pkgs]
bad=[t for t in want if res.get(t)!='pass']
print(f"baseline tests in the packages run: {len(want)}; not passing: {len(bad)}")
for t in bad[:40]: print("  NOT PASSING:",t,res.get(t))
sys.exit(1 if bad else 0)
PY
