#!/usr/bin/env python3
"""setup: parse every specification with SANY and warm the Go build cache (offline)."""
import glob, os, subprocess, sys
V = os.path.dirname(os.path.dirname(os.path.abspath(__file__)))
JAR = "/opt/veriftools/tla/tla2tools.jar:/opt/veriftools/tla/CommunityModules-deps.jar"
bad = 0
for d in sorted(glob.glob(os.path.join(V, "specs", "*"))):
    if os.path.basename(d) == "lib":
        continue
    for tla in sorted(glob.glob(os.path.join(d, "*.tla"))):
        if tla.endswith("_Trace.tla") or "_TTrace_" in tla:
            pass
        p = subprocess.run(["java", "-DTLA-Library=" + os.path.join(V, "specs/lib") + os.pathsep + d, "-cp", JAR, "tla2sany.SANY", tla],
                           cwd=d, stdout=subprocess.PIPE, stderr=subprocess.STDOUT, text=True)
        ok = p.returncode == 0 and "error" not in p.stdout.lower().replace("semantic errors: 0", "")
        print(("ok   " if ok else "FAIL ") + os.path.relpath(tla, V))
        if not ok:
            print(p.stdout[-1500:])
            bad += 1
e = dict(os.environ, GOFLAGS="", GOPROXY="off", GOTOOLCHAIN="local", GOSUMDB="off")
p = subprocess.run(["go1.26", "build", "-tags", "verif", ".", "./http3", "./internal/..."], cwd="/repo", env=e)
print("go build:", p.returncode)
sys.exit(1 if bad or p.returncode else 0)
