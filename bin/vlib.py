#!/usr/bin/env python3
"""Shared orchestration for the /verif checks (see DESIGN.md section 2 and appendix D).

Pipeline per property:  (0) TLC exhaustive on the abstract spec  (1) TLC enumerates /
simulates stimuli  (2) the real code (built from /repo's working tree, harness injected by
-overlay, build tag verif) executes them and records NDJSON traces  (3) TLC validates every
trace against <Module>_Trace.tla.  Verdicts come only from (3).

exit codes: 0 held, 1 VIOLATION (printed), 2 machinery failure (never a violation).
"""
import concurrent.futures as cf
import glob
import hashlib
import json
import os
import random
import re
import shutil
import subprocess
import sys
import tempfile
import time

VERIF = os.path.dirname(os.path.dirname(os.path.abspath(__file__)))
REPO = os.environ.get("VERIF_REPO", "/repo")
JAR = "/opt/veriftools/tla/tla2tools.jar:/opt/veriftools/tla/CommunityModules-deps.jar"
SPECS = os.path.join(VERIF, "specs")
HARNESS = os.path.join(VERIF, "harness")
GO = "go1.26"
NCPU = os.cpu_count() or 8


class MachineryError(Exception):
    pass


def log(*a):
    print(*a, flush=True)


# ----------------------------------------------------------------------------------------
# TLC

class TLCResult:
    def __init__(self, rc, out, wall):
        self.rc, self.out, self.wall = rc, out, wall
        m = re.findall(r"(\d+) states generated, (\d+) distinct states found", out)
        self.generated = int(m[-1][0]) if m else 0
        self.distinct = int(m[-1][1]) if m else 0
        m = re.search(r"Invariant (\S+) is violated", out)
        self.violated = m.group(1) if m else None
        if not self.violated:
            m = re.search(r"Action property (\S+) is violated|Temporal properties were violated", out)
            if m:
                self.violated = m.group(1) or "temporal"
        self.ok = rc == 0 and "No error has been found" in out
        if "-simulate" in out and rc == 0:
            self.ok = True

    def last_state(self):
        """text of the last state of the counterexample"""
        parts = re.split(r"\nState \d+: ", self.out)
        return parts[-1] if len(parts) > 1 else ""

    def printed_json(self):
        res = []
        for ln in self.out.splitlines():
            ln = ln.strip()
            if ln.startswith('"[') or ln.startswith('"{'):
                try:
                    res.append(json.loads(json.loads(ln)))
                except Exception:
                    pass
            elif ln.startswith("[{") or ln.startswith("{\""):
                try:
                    res.append(json.loads(ln))
                except Exception:
                    pass
        return res


def tlc(tla, cfg, workdir, workers=1, env=None, timeout=1800, extra=(), heap="4g", dfs=False):
    md = tempfile.mkdtemp(prefix="md.", dir=workdir)
    props = ["-DTLA-Library=" + os.path.join(SPECS, "lib") + os.pathsep + os.path.dirname(tla)]
    if dfs:
        props.append("-Dtlc2.tool.queue.IStateQueue=StateDeque")
    cmd = ["java", "-XX:+UseParallelGC", "-Xss512m", "-Xmx" + heap] + props + ["-cp", JAR, "tlc2.TLC",
           "-workers", str(workers), "-noGenerateSpecTE", "-metadir", md, "-config", cfg] + list(extra) + [tla]
    e = dict(os.environ)
    e.pop("JAVA_TOOL_OPTIONS", None)
    if env:
        e.update(env)
    t0 = time.time()
    try:
        p = subprocess.run(cmd, cwd=workdir, env=e, stdout=subprocess.PIPE, stderr=subprocess.STDOUT,
                           timeout=timeout, text=True, errors="replace")
        out, rc = p.stdout, p.returncode
    except subprocess.TimeoutExpired as ex:
        out = (ex.stdout or b"").decode(errors="replace") if isinstance(ex.stdout, bytes) else (ex.stdout or "")
        out += "\nTIMEOUT"
        rc = 124
    finally:
        shutil.rmtree(md, ignore_errors=True)
    return TLCResult(rc, out, time.time() - t0)


def write_cfg(path, spec="Spec", constants=None, invariants=(), properties=(), extra_lines=()):
    lines = ["SPECIFICATION " + spec]
    if constants:
        lines.append("CONSTANTS")
        for k, v in constants.items():
            lines.append("  %s %s" % (k, v if v.startswith("<-") or v.startswith("=") else "= " + v))
    if invariants:
        lines.append("INVARIANTS " + " ".join(invariants))
    if properties:
        lines.append("PROPERTIES " + " ".join(properties))
    lines.append("CHECK_DEADLOCK FALSE")
    lines.extend(extra_lines)
    with open(path, "w") as f:
        f.write("\n".join(lines) + "\n")


def tla_val(v):
    if isinstance(v, bool):
        return "TRUE" if v else "FALSE"
    if isinstance(v, int):
        return str(v)
    if isinstance(v, str):
        return '"%s"' % v
    if isinstance(v, (list, tuple)):
        return "<<" + ", ".join(tla_val(x) for x in v) + ">>"
    if isinstance(v, (set, frozenset)):
        return "{" + ", ".join(tla_val(x) for x in sorted(v)) + "}"
    raise ValueError(v)


# ----------------------------------------------------------------------------------------
# Check context

class Check:
    def __init__(self, pid, module, level="model_checking"):
        self.pid = pid
        self.module = module
        self.level = level
        self.tier = os.environ.get("VERIF_TIER", "quick")
        self.seed = int(os.environ.get("VERIF_SEED", "1"))
        self.t0 = time.time()
        os.makedirs(os.path.join(VERIF, ".work"), exist_ok=True)
        self.work = tempfile.mkdtemp(prefix=pid + ".", dir=os.path.join(VERIF, ".work"))
        self.states = 0
        self.transitions = 0
        self.traces = 0
        self.events = 0
        self.samples = []
        self.parts = []          # per-step description for the evidence
        self.assumptions = []
        self.violations = []     # dicts: {inv, case, detail, replay}
        self.known = []
        self.negctl = []
        self.stats = {}
        self.rng = random.Random(self.seed)
        self.keep_work = bool(os.environ.get("VERIF_KEEP"))
        self.vclasses = {}

    # -- paths
    def spec(self, name):
        if os.path.isabs(name):
            return name
        if name.startswith("lib/"):
            return os.path.join(SPECS, name)
        return os.path.join(SPECS, self.module, name)

    def sub(self, name):
        p = os.path.join(self.work, name)
        os.makedirs(p, exist_ok=True)
        return p

    # -- step 0: abstract model
    def model_check(self, tla, cfg, workers=8, timeout=1500, heap="8g", label=None):
        r = tlc(self.spec(tla), self.spec(cfg), self.work, workers=workers, timeout=timeout, heap=heap)
        label = label or cfg
        if not r.ok:
            self.fail_machinery("abstract model %s/%s: TLC rc=%d violated=%s\n%s" % (tla, cfg, r.rc, r.violated, r.out[-3000:]))
        self.states += r.distinct
        self.transitions += r.generated
        self.parts.append({"step": "model", "cfg": label, "distinct_states": r.distinct,
                           "states_generated": r.generated, "wall_s": round(r.wall, 1), "exhaustive": True})
        log("[%s] model %s: %d distinct / %d generated states, %.1fs" % (self.pid, label, r.distinct, r.generated, r.wall))
        return r

    # -- step 1: stimuli
    def enumerate(self, tla, constants, spec="Spec", invariants=("Emit",), workers=8, timeout=1500, label=None):
        cfg = os.path.join(self.work, "enum.%d.cfg" % len(self.parts))
        write_cfg(cfg, spec, {k: tla_val(v) for k, v in constants.items()}, invariants)
        r = tlc(self.spec(tla), cfg, self.work, workers=workers, timeout=timeout, heap="8g")
        if not r.ok:
            self.fail_machinery("enumerator %s %s: rc=%d\n%s" % (tla, constants, r.rc, r.out[-3000:]))
        seqs = r.printed_json()
        self.states += r.distinct
        self.transitions += r.generated
        self.parts.append({"step": "enumerate", "module": tla, "constants": {k: (sorted(v) if isinstance(v, (set, frozenset)) else v) for k, v in constants.items()}, "sequences": len(seqs),
                           "distinct_states": r.distinct, "wall_s": round(r.wall, 1), "exhaustive": True})
        log("[%s] enumerate %s %s: %d stimulus sequences, %.1fs" % (self.pid, tla, constants, len(seqs), r.wall))
        return seqs

    def simulate(self, tla, constants, num, depth, spec="Spec", invariants=("Emit",), timeout=1500, label=None, workers=8):
        """TLC -simulate on a spec with a history variable; Emit prints the history at depth."""
        cfg = os.path.join(self.work, "sim.%d.cfg" % len(self.parts))
        write_cfg(cfg, spec, {k: (v if isinstance(v, str) and v.startswith("<-") else tla_val(v)) for k, v in constants.items()}, invariants)
        per = max(1, num // workers)
        r = tlc(self.spec(tla), cfg, self.work, workers=workers, timeout=timeout, heap="4g",
                extra=["-simulate", "num=%d" % per, "-depth", str(depth), "-seed", str(self.seed)])
        if r.rc != 0:
            self.fail_machinery("simulate %s: rc=%d\n%s" % (tla, r.rc, r.out[-3000:]))
        seqs = r.printed_json()
        self.parts.append({"step": "simulate", "module": tla, "constants": {k: str(v) for k, v in constants.items()},
                           "behaviours": len(seqs), "depth": depth, "seed": self.seed, "wall_s": round(r.wall, 1), "exhaustive": False})
        log("[%s] simulate %s: %d behaviours depth %d, %.1fs" % (self.pid, tla, len(seqs), depth, r.wall))
        return seqs

    # -- step 2: real code
    def overlay(self, mapping):
        """mapping: path under /repo -> path under /verif/harness. vtrace is always added."""
        repl = {os.path.join(REPO, "internal/vtrace", os.path.basename(f)): f for f in glob.glob(os.path.join(HARNESS, "vtrace", "*.go"))}
        for k, v in mapping.items():
            repl[os.path.join(REPO, k)] = os.path.join(HARNESS, v)
        for v in repl.values():
            if not os.path.exists(v):
                self.fail_machinery("overlay source missing: " + v)
        p = os.path.join(self.work, "overlay.json")
        with open(p, "w") as f:
            json.dump({"Replace": repl}, f)
        return p

    def _go_once(self, pkg, test, cases, ov, timeout, env, outname, idx=None):
        """one `go test` run over cases (or the subset idx); returns (process, output dir)"""
        inp = os.path.join(self.work, outname + ".in.ndjson")
        with open(inp, "w") as f:
            for i, c in enumerate(cases):
                if idx is None or i in idx:
                    f.write(json.dumps(c, separators=(",", ":")) + "\n")
                else:
                    f.write(json.dumps({"group": "skipped", "cfg": {"skip": True}, "ops": []}) + "\n")  # keeps case numbers stable
        out = self.sub(outname)
        for fn in glob.glob(os.path.join(out, "*")):
            os.remove(fn)
        e = dict(os.environ)
        e.update({"GOFLAGS": "", "GOPROXY": "off", "GOTOOLCHAIN": "local", "GOSUMDB": "off",
                  "VERIF_IN": inp, "VERIF_OUT": out, "VERIF_SEED": str(self.seed), "VERIF_TIER": self.tier})
        if env:
            e.update(env)
        cmd = [GO, "test", "-tags", "verif", "-overlay", ov, "-run", "^" + test + "$", "-count=1", "-vet=off",
               "-timeout", "%ds" % timeout, pkg]
        p = subprocess.run(cmd, cwd=REPO, env=e, stdout=subprocess.PIPE, stderr=subprocess.STDOUT, text=True, errors="replace")
        return p, out

    def go_run(self, pkg, test, cases, overlay_map, timeout=900, env=None, outname="traces", crash_pkg=None):
        """cases: list of dicts {group,cfg,ops}. Returns dict group -> list of trace shard files.
        crash_pkg: if the whole process dies with a panic whose stack is in this package of the code under test, the cases
        the workers were on are re-run one by one; those that crash again are reported as a trace with a Panic event."""
        ov = self.overlay(overlay_map)
        t0 = time.time()
        p, out = self._go_once(pkg, test, cases, ov, timeout, env, outname)
        crashed = {}
        rounds = 0
        while (p.returncode != 0 or not re.search(r"^ok\s", p.stdout, re.M)) and crash_pkg and "panic:" in p.stdout and crash_pkg in p.stdout and rounds < 4:
            rounds += 1
            suspects = set()
            for fn in glob.glob(os.path.join(out, "progress.*")):
                try:
                    suspects.add(int(open(fn).read().strip()))
                except ValueError:
                    pass
            found = False
            hang = "panic: verif watchdog" in p.stdout

            def single(i):
                # goroutine scheduling is not replayed: a crash that depends on it gets three tries on its own
                for attempt in range(3):
                    q = self._go_once(pkg, test, cases, ov, timeout, env, "%s.one%d" % (outname, i), idx={i})[0]
                    if q.returncode != 0 and "panic:" in q.stdout and crash_pkg in q.stdout:
                        break
                return i, q
            with cf.ThreadPoolExecutor(max_workers=8) as ex:
                for i, q in ex.map(single, sorted(suspects - set(crashed))):
                    if q.returncode != 0 and "panic:" in q.stdout and crash_pkg in q.stdout:
                        m = re.search(r"panic: (.*)", q.stdout)
                        where = [ln.strip() for ln in q.stdout.splitlines() if crash_pkg in ln and "(" in ln and "vtrace" not in ln and "zz_verif" not in ln][:3]
                        crashed[i] = (m.group(1)[:200] if m else "panic") + " @ " + " <- ".join(where)
                        found = True
            for d in glob.glob(os.path.join(self.work, outname + ".one*")):
                shutil.rmtree(d, ignore_errors=True) if os.path.isdir(d) else os.remove(d)
            if not found:
                break
            log("[%s] the harness process crashed; cases that crash on their own: %s" % (self.pid, sorted(crashed)))
            if hang and rounds >= 2:
                break   # every further round costs the watchdog period several times over; two rounds of reproduced hangs are a verdict
            p, out = self._go_once(pkg, test, cases, ov, timeout, env, outname, idx=set(range(len(cases))) - set(crashed))
        wall = time.time() - t0
        if (p.returncode != 0 or not re.search(r"^ok\s", p.stdout, re.M)) and crashed:
            # a storm: more cases kill the process than are localised in four rounds.  Those reproduced one by one are
            # observations of the real code and are judged; nothing else of this run is (partial run: no liveness check,
            # no negative control; without a verdict from the crashes it ends as a machinery failure)
            log("[%s] the harness process keeps crashing after %d case(s) were localised: judging those, the rest of the run is void" % (self.pid, len(crashed)))
            self.partial = True
            self.unvalidated = getattr(self, "unvalidated", 0) + 1
            for fn in glob.glob(os.path.join(out, "*")):
                os.remove(fn)
        elif p.returncode != 0 or not re.search(r"^ok\s", p.stdout, re.M):
            self.fail_machinery("go harness %s %s failed (rc=%d):\n%s" % (pkg, test, p.returncode, p.stdout[-6000:]))
        for i, msg in crashed.items():   # a process-killing panic of the code under test is an observation: a trace of its own
            g = cases[i].get("group", "crash")
            with open(os.path.join(out, "%s.9%d.ndjson" % (g, i % 10)), "a") as f:
                f.write(json.dumps({"ev": "Reset", "case": i + int((env or {}).get("VERIF_CASE_BASE", 0)), "cfg": cases[i].get("cfg", {})}, separators=(",", ":")) + "\n")
                f.write(json.dumps({"ev": "Panic", "msg": msg}, separators=(",", ":")) + "\n")
        for fn in glob.glob(os.path.join(out, "skipped.*.ndjson")):
            os.remove(fn)
        groups = {}
        for fn in sorted(glob.glob(os.path.join(out, "*.ndjson"))):
            g = os.path.basename(fn).rsplit(".", 2)[0]
            groups.setdefault(g, []).append(fn)
        st = {}
        sp = os.path.join(out, "stats.json")
        if os.path.exists(sp):
            st = json.load(open(sp))
        for k, v in st.items():
            self.stats[k] = self.stats.get(k, 0) + v
        self.parts.append({"step": "execute", "pkg": pkg, "test": test, "cases": len(cases), "wall_s": round(wall, 1),
                           "events": st})
        log("[%s] executed %d cases on the real code (%s %s), %.1fs" % (self.pid, len(cases), pkg, test, wall))
        return groups

    # -- step 3: trace validation
    def validate(self, trace_tla, files, constants, invariants, defs="", properties=(), timeout=1500, label="", max_iter=4, dfs=False):
        return self.validate_many(trace_tla, [{"label": label, "files": files, "constants": constants, "defs": defs,
                                               "invariants": invariants, "properties": properties}],
                                  timeout=timeout, max_iter=max_iter, dfs=dfs)

    def validate_many(self, trace_tla, jobs, timeout=1500, max_iter=4, dfs=False):
        """Validate shard files against a *_Trace spec, all jobs (constant groups) in one process pool.
        Offending cases are excised and the shard re-validated so that every violating case is reported.
        Returns list of violation dicts."""
        base = os.path.splitext(os.path.basename(trace_tla))[0]
        # every offending case is excised and the shard validated again, so that each one is reported and matched against the
        # known findings; VERIF_MAXITER=1 stops at the first one per shard (seed re-verification)
        max_iter = int(os.environ.get("VERIF_MAXITER", max(max_iter, 60)))
        lib = os.path.join(SPECS, "lib") + os.pathsep + os.path.dirname(trace_tla)
        work = []
        for j in jobs:
            mod = "TraceRun_%s_%d" % (re.sub(r"\W", "_", j["label"]), len(self.parts))
            tla = os.path.join(self.work, mod + ".tla")
            with open(tla, "w") as f:
                f.write("---- MODULE %s ----\nEXTENDS %s\n%s\n====\n" % (mod, base, j.get("defs", "")))
            cfg = os.path.join(self.work, mod + ".cfg")
            write_cfg(cfg, "TraceSpec", j["constants"], j["invariants"], j.get("properties", ()))
            for fn in j["files"]:
                work.append((fn, tla, cfg, j["label"]))

        def one(item):
            fn, tla, cfg, label = item
            viols = []
            cur = fn
            total_lines = 0
            first = None
            for it in range(max_iter):
                nlines = sum(1 for _ in open(cur))
                if nlines == 0:
                    break
                r = self._tlc_trace(tla, cfg, cur, lib, timeout, dfs)
                if it == 0:
                    total_lines = nlines
                    first = r
                if r.ok:
                    if r.distinct != nlines + 1 and not dfs:
                        raise MachineryError("trace %s: %d lines but %d states - trace not consumed linearly\n%s" % (cur, nlines, r.distinct, r.out[-2000:]))
                    break
                if not r.violated:
                    raise MachineryError("TLC failed on %s (rc=%d):\n%s" % (cur, r.rc, r.out[-4000:]))
                if r.violated == "Collected":
                    # collect mode: the trace spec recorded every failing case itself (variable fails)
                    st = r.last_state()
                    m = re.search(r"/\\ fails = (.*?)(?=\n/\\ |\Z)", st, re.S)
                    entries = re.findall(r"\[\s*line \|-> (\d+),\s*inv \|-> \"(\w+)\"\s*\]|\[\s*inv \|-> \"(\w+)\",\s*line \|-> (\d+)\s*\]", m.group(1) if m else "")
                    for a, b, c2, d in entries:
                        ln, inv = (int(a), b) if a else (int(d), c2)
                        case_lines, start, end, case_no = self._case_at(cur, ln)
                        viols.append({"inv": inv, "file": fn, "label": label, "case": case_no, "line_in_case": ln - start,
                                      "trace": case_lines, "tlc": "(collect mode) " + inv + " at line %d" % ln, "state": ""})
                    if not entries:
                        raise MachineryError("collect mode: cannot parse fails from TLC output:\n" + r.out[-3000:])
                    break
                line = self._violation_line(r)
                if line is None:
                    raise MachineryError("cannot locate violating line in TLC output:\n" + r.out[-4000:])
                case_lines, start, end, case_no = self._case_at(cur, line)
                viols.append({"inv": r.violated, "file": fn, "label": label, "case": case_no, "line_in_case": line - start,
                              "trace": case_lines, "tlc": r.out[-6000:], "state": r.last_state()})
                nxt = fn + ".x%d" % it
                with open(cur) as src, open(nxt, "w") as dst:
                    for i, ln in enumerate(src, 1):
                        if i < start or i > end:
                            dst.write(ln)
                cur = nxt
            else:
                viols.append({"inv": "TooManyViolations", "file": fn, "label": label, "case": -1, "line_in_case": 0, "trace": [], "tlc": "", "state": ""})
            return viols, first, total_lines

        allv = []
        t0 = time.time()
        with cf.ThreadPoolExecutor(max_workers=min(NCPU, max(1, len(work)))) as ex:
            for viols, r, nlines in ex.map(one, work):
                allv.extend(viols)
                if r is not None:
                    self.states += r.distinct
                    self.transitions += r.generated
                self.events += nlines
        wall = time.time() - t0
        for j in jobs:
            ntr = 0
            for fn in j["files"]:
                with open(fn) as f:
                    ntr += sum(1 for ln in f if '"ev":"Reset"' in ln)
            self.traces += ntr
            nv = sum(1 for v in allv if v["label"] == j["label"])
            self.parts.append({"step": "validate", "trace_spec": base, "label": j["label"], "constants": j["constants"],
                               "invariants": list(j["invariants"]), "shards": len(j["files"]), "traces": ntr, "violations": nv})
            log("[%s] validated %d traces (%s) against %s: %d violation(s)" % (self.pid, ntr, j["label"], base, nv))
        log("[%s] trace validation wall %.1fs" % (self.pid, wall))
        return allv

    def _tlc_trace(self, tla, cfg, trace, lib, timeout, dfs=False):
        md = tempfile.mkdtemp(prefix="md.", dir=self.work)
        props = ["-DTLA-Library=" + lib]
        if dfs:
            props.append("-Dtlc2.tool.queue.IStateQueue=StateDeque")
        cmd = ["java", "-XX:+UseParallelGC", "-Xss512m", "-Xmx3g"] + props + ["-cp", JAR, "tlc2.TLC", "-workers", "1",
               "-metadir", md, "-config", cfg, tla]
        e = dict(os.environ)
        e.pop("JAVA_TOOL_OPTIONS", None)
        e["TRACE"] = trace
        t0 = time.time()
        try:
            p = subprocess.run(cmd, cwd=self.work, env=e, stdout=subprocess.PIPE, stderr=subprocess.STDOUT, timeout=timeout, text=True, errors="replace")
            out, rc = p.stdout, p.returncode
        except subprocess.TimeoutExpired:
            out, rc = "TIMEOUT", 124
        finally:
            shutil.rmtree(md, ignore_errors=True)
        return TLCResult(rc, out, time.time() - t0)

    @staticmethod
    def _violation_line(r):
        st = r.last_state()
        m = re.search(r"diverged = \[.*?line \|-> (\d+)", st, re.S)
        if m:
            return int(m.group(1))
        m = re.search(r"/\\ l = (\d+)", st)
        if m:
            return int(m.group(1)) - 1
        return None

    @staticmethod
    def _case_at(fn, line):
        lines = open(fn).read().splitlines()
        start = line
        while start > 1 and '"ev":"Reset"' not in lines[start - 1]:
            start -= 1
        end = line
        while end < len(lines) and '"ev":"Reset"' not in lines[end]:
            end += 1
        hdr = json.loads(lines[start - 1])
        return lines[start - 1:end], start, end, hdr.get("case", -1)

    # -- negative control: a corrupted copy of a recorded trace must be rejected
    def negative_control(self, trace_tla, files, constants, invariants, mutate, defs="", label="", tries=40, dfs=False):
        """mutate(lines:list[dict], rng) -> (new_lines, description) or None if not applicable to this case."""
        if getattr(self, "partial", False):
            return
        rng = random.Random(self.seed * 7919 + 13)
        fl = list(files)
        rng.shuffle(fl)
        for fn in fl[:4]:
            lines = open(fn).read().splitlines()
            starts = [i for i, ln in enumerate(lines) if '"ev":"Reset"' in ln[:80] or ln.startswith('{"case"')]
            starts = [i for i, ln in enumerate(lines) if '"ev":"Reset"' in ln]
            rng.shuffle(starts)
            for s in starts[:tries]:
                e = s + 1
                while e < len(lines) and '"ev":"Reset"' not in lines[e]:
                    e += 1
                case = [json.loads(x) for x in lines[s:e]]
                res = mutate(case, rng)
                if not res:
                    continue
                new, desc = res
                p = os.path.join(self.work, "negctl.%s.ndjson" % re.sub(r"\W", "_", label))
                with open(p, "w") as f:
                    for x in new:
                        f.write(json.dumps(x, separators=(",", ":")) + "\n")
                saved = (self.states, self.transitions, self.traces, self.events, len(self.parts))
                v = self.validate(trace_tla, [p], constants, invariants, defs=defs, label="negctl_" + label, max_iter=1, dfs=dfs)
                self.states, self.transitions, self.traces, self.events = saved[:4]
                del self.parts[saved[4]:]
                ok = len(v) > 0
                self.negctl.append({"label": label, "mutation": desc, "rejected": ok, "by": v[0]["inv"] if v else None})
                log("[%s] negative control (%s): %s -> %s" % (self.pid, label, desc, "rejected by " + v[0]["inv"] if ok else "ACCEPTED"))
                if ok:
                    return
                # a corruption can fall on a line where it changes nothing the property speaks about: up to four more
                # corruptions are tried before the check is declared vacuous (every attempt is in the evidence)
                accepted = getattr(self, "_negctl_accepted", 0) + 1
                self._negctl_accepted = accepted
                if accepted >= 5:
                    self.fail_machinery("negative control accepted: 5 corrupted traces (last: %s) were not rejected - check is vacuous" % desc)
        self.fail_machinery("negative control: no applicable trace found for " + label)

    # -- driver liveness
    def require_events(self, kinds):
        if os.environ.get("VERIF_ONLY") or getattr(self, "partial", False):
            return
        missing = [k for k in kinds if self.stats.get(k, 0) == 0]
        if missing:
            self.fail_machinery("dead driver: event kinds never observed: %s (stats %s)" % (missing, self.stats))

    # -- verdicts
    def add_violations(self, viols, cases=None, describe=None):
        """match against known findings, store replay dirs"""
        kf = load_known_findings()
        self.unvalidated = getattr(self, "unvalidated", 0)
        for v in viols:
            if v["inv"] == "TooManyViolations":   # not a verdict: the rest of that shard was not validated
                self.unvalidated += 1
                continue
            v["pid"] = self.pid
            if cases is not None and 0 <= v["case"] < len(cases):
                v["stimulus"] = cases[v["case"]]
            v["what"] = describe(v) if describe else v["inv"]
            self.vclasses[(v["inv"], json.dumps(v.get("sig", {}), sort_keys=True))] = self.vclasses.get((v["inv"], json.dumps(v.get("sig", {}), sort_keys=True)), 0) + 1
            hit = match_known(kf, self.pid, v)
            if hit:
                self.known.append((hit, v))
            else:
                self.violations.append(v)

    def finish(self, rule="", extra_cov=None):
        wall = time.time() - self.t0
        for (inv, sg), n in sorted(self.vclasses.items()):
            log("[%s] violation class: %s %s x%d" % (self.pid, inv, sg, n))
        # replay dirs for violations
        outlines = []
        seen_known = set()
        for hit, v in self.known:
            if hit["id"] in seen_known:
                continue
            seen_known.add(hit["id"])
            outlines.append("KNOWN-FINDING: property=%s %s" % (self.pid, hit["description"]))
        rdir = os.path.join(VERIF, "replays", self.pid)
        if self.violations:
            shutil.rmtree(rdir, ignore_errors=True)
        for i, v in enumerate(self.violations[:10]):
            d = os.path.join(rdir, "%d" % i)
            os.makedirs(d, exist_ok=True)
            with open(os.path.join(d, "stimulus.json"), "w") as f:
                json.dump(v.get("stimulus"), f)
            with open(os.path.join(d, "trace.ndjson"), "w") as f:
                f.write("\n".join(v.get("trace", [])) + "\n")
            with open(os.path.join(d, "tlc.out"), "w") as f:
                f.write(v.get("tlc", ""))
            with open(os.path.join(d, "README"), "w") as f:
                f.write("property %s violated: %s\ninvariant: %s, line %s of the trace\nreplay: python3 %s/bin/vcheck %s --replay %s\n"
                        % (self.pid, v.get("what"), v["inv"], v.get("line_in_case"), VERIF, self.pid, d))
            outlines.append("VIOLATION property=%s replay=%s" % (self.pid, d))
            log("  -> %s: %s" % (v["inv"], v.get("what")))
        if len(self.violations) > 10:
            log("  (%d further violations not written out)" % (len(self.violations) - 10))
        cov = {
            "states": self.states, "transitions": self.transitions,
            "traces_validated_against_impl": self.traces,
            "trace_events": self.events,
            "samples": self.samples[:6] if self.samples else [{"note": "no sample recorded"}],
            "parts": self.parts, "event_counts": self.stats, "negative_controls": self.negctl,
            "exhaustive": all(p.get("exhaustive", True) for p in self.parts if p["step"] in ("enumerate", "simulate")),
            "rule": rule,
            "known_findings_hit": sorted(seen_known),
        }
        if extra_cov:
            cov.update(extra_cov)
        ev = {"property_id": self.pid, "tier": self.tier if self.tier in ("quick", "thorough") else "quick",
              "seed": self.seed, "level": self.level, "coverage": cov,
              "assumptions": self.assumptions, "wall_s": round(wall, 1), "violations": len(self.violations)}
        os.makedirs(os.path.join(VERIF, "evidence"), exist_ok=True)
        with open(os.path.join(VERIF, "evidence", self.pid + ".json"), "w") as f:
            json.dump(ev, f, indent=1)
        for ln in outlines:
            print(ln, flush=True)
        if not self.violations and getattr(self, "unvalidated", 0) and (getattr(self, "partial", False) or not os.environ.get("VERIF_MAXITER")):
            self.fail_machinery("%d shard(s) held more offending cases than are excised one by one: the rest of them was not validated" % self.unvalidated)
        if not self.keep_work:
            shutil.rmtree(self.work, ignore_errors=True)
        log("[%s] %s tier=%s seed=%d: %d traces, %d states, %d violation(s), %d known finding(s), %.0fs" % (
            self.pid, "FAIL" if self.violations else "PASS", self.tier, self.seed, self.traces, self.states,
            len(self.violations), len(seen_known), wall))
        sys.exit(1 if self.violations else 0)

    def fail_machinery(self, msg):
        log("[%s] MACHINERY FAILURE (exit 2, not a verdict): %s" % (self.pid, msg))
        # still leave an evidence file describing the failure
        try:
            ev = {"property_id": self.pid, "tier": self.tier if self.tier in ("quick", "thorough") else "quick", "seed": self.seed,
                  "level": "other", "coverage": {"explanation": "machinery failure: " + msg[:1500]},
                  "assumptions": [], "wall_s": round(time.time() - self.t0, 1), "violations": 0}
            os.makedirs(os.path.join(VERIF, "evidence"), exist_ok=True)
            with open(os.path.join(VERIF, "evidence", self.pid + ".json"), "w") as f:
                json.dump(ev, f, indent=1)
        except Exception:
            pass
        if not self.keep_work:
            shutil.rmtree(self.work, ignore_errors=True)
        sys.exit(2)


# ----------------------------------------------------------------------------------------
# known findings

def load_known_findings():
    p = os.path.join(VERIF, "known-findings.json")
    if not os.path.exists(p):
        return []
    return [k for k in json.load(open(p)).get("findings", []) if k.get("status", "open") == "open"]


def match_known(kf, pid, v):
    """An entry matches when property, invariant and every key/value of entry['match'] agree with the violation's
    'sig' dict (computed by the property module from the stimulus and the offending trace line)."""
    sig = v.get("sig", {})
    for k in kf:
        if k["property"] != pid:
            continue
        if k.get("invariant") and k["invariant"] != v["inv"]:
            continue
        if all(sig.get(a) == b for a, b in k.get("match", {}).items()):
            return k
    return None


def pkg_overlay(pkg_rel, harness_sub):
    """all harness files of one package: harness/<sub>/<x>_test.go -> <pkg>/zz_verif_<x>_test.go"""
    m = {}
    for f in sorted(glob.glob(os.path.join(HARNESS, harness_sub, "*.go"))):
        m[os.path.normpath(os.path.join(pkg_rel, "zz_verif_" + os.path.basename(f)))] = os.path.join(harness_sub, os.path.basename(f))
    return m


def filter_cases(cases):
    """debug aid: VERIF_ONLY='client=plain,server=v2only' keeps the cases whose cfg matches"""
    only = os.environ.get("VERIF_ONLY")
    if not only:
        return cases
    want = dict(kv.split("=") for kv in only.split(","))
    return [c for c in cases if all(str(c["cfg"].get(k)) == v for k, v in want.items())]


def sample_cases(cases, rng, n=3):
    if not cases:
        return []
    idx = sorted(rng.sample(range(len(cases)), min(n, len(cases))))
    return [cases[i] for i in idx]
