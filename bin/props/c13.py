"""C13 - handshakes converge or fail cleanly; forged packets cannot change the outcome (specs/Handshake)."""
import json
import os

import vlib
from props import c02

INV = ["Collected"]
KINDS = {"drop": 0, "dup": 0, "delay": 60}


def describe(v):
    st = v.get("stimulus") or {}
    ln = v["trace"][v["line_in_case"]] if v.get("trace") and v["line_in_case"] < len(v["trace"]) else ""
    errs = [json.loads(x).get("err") for x in v.get("trace", []) if '"err"' in x]
    return "%s: cfg %s ops %s line %s errs %s" % (v["inv"], json.dumps(st.get("cfg")), json.dumps(st.get("ops")), ln[:200], errs[:2])


def mutate(case, rng):
    idx = [i for i, e in enumerate(case) if e["ev"] == "DialEnd" and e.get("res") == "ok"]
    if not idx:
        return None
    i = rng.choice(idx)
    new = [dict(e) for e in case]
    new[i]["ver"] = 7
    return new, "line %d: client reports a version the server does not speak" % i


def run(replay=None):
    c = vlib.Check("C13", "Handshake")
    thorough = c.tier == "thorough"
    c.assumptions += [
        "attacker packets are built by the independent observer (Initial keys, Retry tag key are public); injection points are 'right after the k-th delivered datagram of a direction'",
        "a forged packet that QUIC cannot distinguish from a genuine one (VN / correctly keyed Initial before the corresponding keys or state are gone) may make the handshake fail cleanly - the specification marks those windows (mayFail); everywhere else the outcome must not change",
        "0-RTT: plain client with a session cache, two dials; the second writes and closes streams before the handshake completes",
    ]
    if replay:
        cases = [json.load(open(os.path.join(replay, "stimulus.json")))]
    else:
        c.model_check("Handshake_MC.tla", "Handshake_MC.cfg")
        cases = []
        scheds = c.enumerate("lib/NetFaults.tla", {"K": 1, "NDg": 4 if not thorough else 8, "Kinds": {"drop", "delay"}, "Dirs": {"c2s", "s2c"}})
        whats = ["vn_other", "vn_offered", "vn_v1", "retry_bad", "close", "replay"]
        clients = ["plain", "chrome115"] if not thorough else ["plain", "unil", "chrome115", "chrome146", "firefox116"]
        for cl in clients + (["unil"] if "unil" not in clients else []):
            for srv in ("default", "retry", "v2only"):
                if srv == "v2only" and cl not in ("plain", "unil"):
                    continue  # spec clients cannot re-dial after version negotiation (known finding of C02)
                if cl == "unil" and srv != "v2only" and not thorough:
                    continue  # quick tier: the second dial path (UTransport.doDial) where it differs - the re-dial after version negotiation
                for what in whats:
                    for d in ("c2s", "s2c"):
                        for after in range(1, 6 if not thorough else 9):
                            for sched in (scheds if thorough or after <= 3 else [[]]):
                                ops = [{"op": "inject", "what": what, "dir": d, "after": after}]
                                ops += [{"dir": f["dir"], "from": f["from"], "to": f["from"], "kind": f["kind"], "arg": KINDS[f["kind"]]} for f in sched]
                                cases.append({"group": "x-%s" % srv, "cfg": {"client": cl, "server": srv, "dials": 1, "scenario": "inject"}, "ops": ops})
        for acc in (True, False):
            for n in (1, 3):
                for sched in c.enumerate("lib/NetFaults.tla", {"K": 1, "NDg": 5 if not thorough else 8, "Kinds": {"drop", "dup", "delay"}, "Dirs": {"c2s", "s2c"}}):
                    cases.append({"group": "z-default", "cfg": {"scenario": "zerortt", "accept": acc, "streams": n, "client": "plain", "server": "default"},
                                  "ops": [{"dir": f["dir"], "from": f["from"], "to": f["from"], "kind": f["kind"], "arg": KINDS[f["kind"]]} for f in sched]})
    cases = vlib.filter_cases(cases)
    c.samples = vlib.sample_cases(cases, c.rng, 3)
    groups = c.go_run(".", "TestVerifC13", cases, vlib.pkg_overlay(".", "root"), timeout=3000)
    jobs = [{"label": g, "files": files, "constants": c02.constants(g), "defs": c02.DEFS, "invariants": INV} for g, files in groups.items()]
    viols = c.validate_many(c.spec("Handshake_Trace.tla"), jobs, timeout=2400)
    for v in viols:
        if 0 <= v["case"] < len(cases):
            v["stimulus"] = cases[v["case"]]
        v["sig"] = c02.sig_of(v)
    if not replay:
        c.require_events(["DialStart", "CInitial", "SPacket", "Retry", "VN", "DialEnd", "AcceptEnd", "Echo", "DialDone", "Inject", "InjClose", "CHandshake",
                          "EarlyWrite", "EarlyOutcome", "EarlyDelivered"])
        g = sorted(groups)[0]
        c.negative_control(c.spec("Handshake_Trace.tla"), groups[g], c02.constants(g), INV, mutate, defs=c02.DEFS, label=g)
    c.add_violations(viols, cases, describe)
    c.finish(rule="injection kind (forged VN listing other / the offered / only v1 versions, Retry with invalid tag, correctly keyed Initial carrying CONNECTION_CLOSE, replayed client Initial) x "
                  "injection point (after the k-th delivered datagram of either direction) x server configuration (default, Retry, v2-only) x client kind x TLC-enumerated fault schedule; "
                  "0-RTT accept / reject x streams x fault schedule; wire + API traces validated against Handshake")
