"""C02 - every parrot / derived spec yields a working connection, dial after dial (specs/Handshake)."""
import json
import os

import vlib

INV = ["Collected"]
SERVERS = {"default": ("{1, 2}", False), "retry": ("{1, 2}", True), "v2only": ("{2}", False), "smallwin": ("{1, 2}", False)}
CLIENTS = ["plain", "unil", "chrome115", "chrome115v6", "chrome146", "chrome146v6", "firefox116", "firefox116b", "firefox116c",
           # derived specs: framing / plan / token / packet numbers / connection IDs / shuffled parameters / datagram size
           "chrome146+nofb", "chrome146+emptyfb", "chrome146+plan999", "chrome115+nofb", "chrome115+plan999", "firefox116+nofb",
           "chrome115+tok", "chrome146+pn", "firefox116+pn+cid", "chrome115+shuffle+udp1350", "chrome146+cid+tok"]
KINDS = {"drop": 0, "dup": 0, "delay": 60}


def constants(g):
    srv = g.split("-")[1]
    cv = "<- CV12" if srv == "v2only" else "<- CV1"
    return {"ClientVersions": cv, "ServerVersions": SERVERS[srv][0], "NeedRetry": "TRUE" if SERVERS[srv][1] else "FALSE", "MustSucceed": "TRUE"}


DEFS = "CV1 == <<1>>\nCV12 == <<1, 2>>"


def sig_of(v):
    st = v.get("stimulus") or {}
    tr = [json.loads(x) for x in v.get("trace", [])]
    i = min(v.get("line_in_case", 0), len(tr) - 1) if tr else 0
    dial = 0
    for e in tr[: i + 1]:
        if e.get("ev") == "DialStart":
            dial = e["i"]
    cl = (st.get("cfg") or {}).get("client", "")
    fam = "firefox" if cl.startswith("firefox") else ("chrome" if cl.startswith("chrome") else cl)
    if "+" in cl:
        fam += "-derived"
    errs = " ".join(e.get("err", "") + e.get("msg", "") for e in tr if e.get("ev") in ("DialEnd", "Note", "AcceptEnd"))
    srv = (st.get("cfg") or {}).get("server", "")
    return {"family": fam, "spec_client": fam not in ("plain", "unil"), "redial": dial >= 2, "server": srv, "inv_line": tr[i].get("ev") if tr else "",
            "tls_internal_error": "tls: internal error" in errs, "iscid_error": "initial_source_connection_id" in errs,
            "reassemble_error": "reassemble" in errs}


def mutate(case, rng):
    idx = [i for i, e in enumerate(case) if e["ev"] == "Echo" and e.get("ok")]
    if not idx:
        return None
    i = rng.choice(idx)
    new = [dict(e) for e in case]
    new[i]["ok"] = False
    return new, "line %d: echoed data differs" % i


def describe(v):
    st = v.get("stimulus") or {}
    ln = v["trace"][v["line_in_case"]] if v.get("trace") and v["line_in_case"] < len(v["trace"]) else ""
    errs = [json.loads(x).get("err") for x in v.get("trace", []) if '"err"' in x]
    return "%s: cfg %s faults %s line %s errs %s" % (v["inv"], json.dumps(st.get("cfg")), json.dumps(st.get("ops")), ln[:200], errs[:2])


def run(replay=None):
    c = vlib.Check("C02", "Handshake")
    thorough = c.tier == "thorough"
    c.assumptions += [
        "the in-tree server is taken as the standards-conformant peer; it presents an ECDSA P-256 certificate (browser specs do not accept Ed25519)",
        "client Initial packets are decrypted by an independent observer (harness/vtrace/observer.go); version / connection-ID rules are judged from the wire",
        "three dials per case through one UTransport and one QUICSpec value; the fault schedule applies to the first flights of every dial",
        "derived-spec family (frame builders, plans, tokens, suppressed parameters) is exercised by C09-C11; here: all built-in QUICIDs, nil spec, plain Transport",
    ]
    if replay:
        cases = [json.load(open(os.path.join(replay, "stimulus.json")))]
    else:
        c.model_check("Handshake_MC.tla", "Handshake_MC.cfg")
        cases = []
        s1 = c.enumerate("lib/NetFaults.tla", {"K": 1, "NDg": 6 if not thorough else 8, "Kinds": {"drop", "dup", "delay"}, "Dirs": {"c2s", "s2c"}})
        scheds = list(s1)
        if thorough:
            scheds += c.enumerate("lib/NetFaults.tla", {"K": 2, "NDg": 5, "Kinds": {"drop", "delay"}, "Dirs": {"c2s", "s2c"}})
        for cl in CLIENTS:
            for srv in SERVERS:
                for sched in scheds:
                    cases.append({"group": "%s-%s" % ("x", srv), "cfg": {"client": cl, "server": srv, "dials": 3},
                                  "ops": [{"dir": f["dir"], "from": f["from"], "to": f["from"], "kind": f["kind"], "arg": KINDS[f["kind"]]} for f in sched]})
    cases = vlib.filter_cases(cases)
    c.samples = vlib.sample_cases(cases, c.rng, 3)
    groups = c.go_run(".", "TestVerifC02", cases, vlib.pkg_overlay(".", "root"), timeout=3000)
    jobs = [{"label": g, "files": files, "constants": constants(g), "defs": DEFS, "invariants": INV} for g, files in groups.items()]
    viols = c.validate_many(c.spec("Handshake_Trace.tla"), jobs, timeout=2400, max_iter=8)
    for v in viols:
        if 0 <= v["case"] < len(cases):
            v["stimulus"] = cases[v["case"]]
        v["sig"] = sig_of(v)
    if not replay:
        c.require_events(["DialStart", "CInitial", "SPacket", "Retry", "VN", "DialEnd", "AcceptEnd", "Echo", "DialDone"])
        g = "x-default" if "x-default" in groups else sorted(groups)[0]
        c.negative_control(c.spec("Handshake_Trace.tla"), groups[g], constants(g), INV, mutate, defs=DEFS, label=g)
    c.add_violations(viols, cases, describe)
    c.finish(rule="every built-in QUICID, UTransport without spec and plain Transport x 4 server configurations (default, Retry required, v2 only, small windows) x "
                  "every schedule of <=1 (thorough <=2) faults among the first datagrams of each dial (TLC NetFaults), three successive dials on one spec value; "
                  "wire + API trace validated against Handshake")
