"""C05 - packet protection round-trips, matches RFC 9001 / 9369, rejects tampering (specs/KeyUpdate)."""
import json
import os

import vlib

INV = ["Protected"]


def named(o):
    op = o["op"]
    if op == "Seal":
        return {"op": "Seal", "who": o["who"], "n": o["a"], "size": 30, "gap": 0}
    if op == "Open":
        return {"op": "Open", "who": o["who"], "back": o["a"], "tamper": o["b"], "k": 5}
    if op == "Tick":
        return {"op": "Tick", "d": o["a"]}
    return {"op": op, "who": o["who"]}


def walk(rng, n):
    ops = [{"op": "Confirm", "who": "a"}, {"op": "Confirm", "who": "b"}] if rng.random() < 0.8 else []
    for _ in range(n):
        r = rng.random()
        x = rng.choice(["a", "b"])
        if r < 0.35:
            ops.append({"op": "Seal", "who": x, "n": rng.choice([1, 1, 2, 6]), "size": rng.choice([0, 1, 3, 20, 1200]), "gap": rng.choice([0, 0, 0, 1, 300]), "pnlen": rng.choice([0, 0, 3, 4])})
        elif r < 0.70:
            ops.append({"op": "Open", "who": x, "back": rng.choice([0, 0, 0, 1, 2, 5, 12]), "tamper": "", "k": 0})
        elif r < 0.80:
            ops.append({"op": "Open", "who": x, "back": rng.choice([0, 1, 3]), "tamper": rng.choice(["ct", "ad", "kp", "trunc"]), "k": rng.randrange(0, 5000)})
        elif r < 0.93:
            ops.append({"op": "Ack", "who": x})
        elif r < 0.97:
            ops.append({"op": "Tick", "d": rng.choice([1, 50, 200, 2000])})
        else:
            ops.append({"op": "Confirm", "who": x})
    return ops


def expand(ops):
    """an acknowledgement travels in a packet: the peer seals one, the endpoint opens it, then learns what was acknowledged"""
    out = []
    for o in ops:
        if o["op"] == "Ack":
            peer = "b" if o["who"] == "a" else "a"
            out += [{"op": "Seal", "who": peer, "n": 1, "size": 8, "gap": 0}, {"op": "Open", "who": o["who"], "back": 0, "tamper": "", "k": 0}]
        out.append(o)
    return out


def mutate(case, rng):
    idx = [i for i, e in enumerate(case) if e["ev"] == "Open" and e["tampered"] and e["res"] != "ok"]
    if idx:
        i = rng.choice(idx)
        new = [dict(e) for e in case]
        new[i]["res"], new[i]["same"] = "ok", True
        return new, "line %d: a modified packet opened" % i
    idx = [i for i, e in enumerate(case) if e["ev"] == "Seal"]
    if idx:
        i = rng.choice(idx)
        new = [dict(e) for e in case]
        new[i]["rfc"] = False
        return new, "line %d: keys differ from the RFC derivation" % i
    return None


def describe(v):
    st = v.get("stimulus") or {}
    ln = v["trace"][v["line_in_case"]] if v.get("trace") and v["line_in_case"] < len(v["trace"]) else ""
    why = ""
    m = __import__("re").search(r'why \|->\s*"([^"]*)"', v.get("state", ""), __import__("re").S)
    if m:
        why = m.group(1)
    return "%s (%s): %s | line %s" % (v["inv"], why, json.dumps(st.get("cfg")), ln[:200])


def run(replay=None):
    c = vlib.Check("C05", "KeyUpdate")
    thorough = c.tier == "thorough"
    c.assumptions += [
        "the observer's derivations (HKDF-Expand-Label over SHA-256 / SHA-384, AES-GCM, ChaCha20-Poly1305, AES-ECB and ChaCha20 header-protection masks, 'ku' label per version) are written from RFC 9001 / 9369 and share no code with internal/handshake",
        "1-RTT tier: short headers with a 4-byte connection ID; the sender truncates packet numbers with protocol.PacketNumberLengthForHeader against what it knows acknowledged; at most a few dozen packets are reordered",
        "key update intervals are lowered to 5 (first: 3) packets for the run; retention of the previous keys is judged only as 'keys_dropped is an allowed answer for a packet of the previous phase'",
        "packet-number reuse / skipping by the generator is covered by C06 (NumbersInOrder)",
    ]
    if replay:
        cases = [json.load(open(os.path.join(replay, "stimulus.json")))]
    else:
        c.model_check("KeyUpdate_MC.tla", "KeyUpdate_MC.cfg", label="update discipline keeps the phases within one", timeout=2400)
        cases = []
        seqs = c.enumerate("KeyUpdate_Env.tla", {"L": 4})   # L = 5 would be 2.5M sequences: the thorough tier adds walks instead
        pre = [{"op": "Confirm", "who": "a"}, {"op": "Confirm", "who": "b"},
               {"op": "Seal", "who": "a", "n": 4, "size": 30, "gap": 0}, {"op": "Open", "who": "b", "back": 0, "tamper": "", "k": 0},
               {"op": "Ack", "who": "a"}]
        for s in seqs:
            suite, ver = c.rng.choice(["aes128", "aes256", "chacha"]), c.rng.choice([1, 2])
            ops = [named(o) for o in s]
            cases.append({"group": "keys", "cfg": {"tier": "keys", "suite": suite, "version": ver, "pn0": c.rng.choice([0, 200, 32700]), "salt": c.rng.randrange(200)}, "ops": ops})
            cases.append({"group": "keys", "cfg": {"tier": "keys", "suite": suite, "version": ver, "pn0": 0, "salt": 1, "pre": "updated"}, "ops": pre + ops})
        nw = 20000 if not thorough else 150000
        for _ in range(nw):
            cases.append({"group": "keys", "cfg": {"tier": "keys", "suite": c.rng.choice(["aes128", "aes256", "chacha"]), "version": c.rng.choice([1, 2]),
                                                   "pn0": c.rng.choice([0, 1, 250, 32760, 8000000]), "salt": c.rng.randrange(200)}, "ops": walk(c.rng, c.rng.choice([15, 40, 120]))})
        # a packet held back across more than half the 2-byte packet-number window arrives late, then the next in-order one
        for suite in ("aes128", "aes256", "chacha"):
            for gap in (33000, 40000, 70000):
                for deep in (2, 3):
                    ops = [{"op": "Confirm", "who": "a"}, {"op": "Confirm", "who": "b"}] + [{"op": "Seal", "who": "a", "n": deep - 1, "size": 20, "gap": 0, "pnlen": 4},
                           {"op": "Seal", "who": "a", "n": 1, "size": 20, "gap": gap, "pnlen": 4}, {"op": "Seal", "who": "a", "n": 1, "size": 20, "gap": 0},
                           {"op": "Open", "who": "b", "back": 0, "tamper": "", "k": 0}, {"op": "Ack", "who": "a"},
                           {"op": "Open", "who": "b", "back": deep, "tamper": "", "k": 0},
                           {"op": "Seal", "who": "a", "n": 2, "size": 20, "gap": 0}, {"op": "Open", "who": "b", "back": 1, "tamper": "", "k": 0}, {"op": "Open", "who": "b", "back": 0, "tamper": "", "k": 0}]
                    cases.append({"group": "keys", "cfg": {"tier": "keys", "suite": suite, "version": 1, "pn0": 5, "salt": 3, "pre": "late"}, "ops": ops})
        for cidlen in ([0, 1, 8, 13, 20] if not thorough else range(0, 21)):
            for ver in (1, 2):
                for pn in (0, 1, 255, 70000):
                    cases.append({"group": "initial", "cfg": {"tier": "initial", "cidlen": cidlen, "version": ver, "pn": pn, "salt": c.rng.randrange(200)}, "ops": []})
        for base in ([0, 1, 100, 32767, 65000, 8388000, 16777000] if not thorough else list(range(0, 70000, 997)) + [8388000, 16777000, 2**31 - 5000, 2**40]):
            cases.append({"group": "pn", "cfg": {"tier": "pn", "base": base, "span": 600}, "ops": []})
        c.parts.append({"step": "generate", "what": "seeded walks of 15-120 operations; Initial keys over connection ID lengths x versions x packet numbers; packet-number windows", "cases": len(cases) - 2 * len(seqs), "exhaustive": False})
    if not replay:
        for cs in cases:
            cs["ops"] = expand(cs["ops"])
    c.samples = vlib.sample_cases(cases, c.rng, 3)
    groups = c.go_run("./internal/handshake", "TestVerifC05", cases, vlib.pkg_overlay("internal/handshake", "handshake"), timeout=1800)
    viols = c.validate_many(c.spec("KeyUpdate_Trace.tla"), [{"label": g, "files": f, "constants": {}, "invariants": INV} for g, f in groups.items()], timeout=2400, max_iter=6)
    if not replay:
        c.require_events(["Seal", "Open", "Acked", "Confirm", "Check"])
        nupd = sum(1 for fn in groups["keys"] for ln in open(fn) if '"ev":"Seal"' in ln and '"phase":2' in ln)
        if nupd == 0:
            c.fail_machinery("dead driver: no execution reached key phase 2")
        c.negative_control(c.spec("KeyUpdate_Trace.tla"), groups["keys"], {}, INV, mutate, label="keys")
    for v in viols:
        m = __import__("re").search(r'why \|->\s*"([^"]*)"', v.get("state", ""), __import__("re").S)
        v["sig"] = {"inv": v["inv"], "why": m.group(1) if m else ""}
    c.add_violations(viols, cases, describe)
    c.finish(rule="every Seal / Open / acknowledgement / confirmation on the two real updatableAEAD endpoints is one action of KeyUpdate carrying the code's answers and the observer's verdict")
