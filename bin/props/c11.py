"""C11 - ClientHello and transport parameters on the wire are exactly what the spec says (specs/InitialFlight, CH part)."""
import json
import os

import vlib
from props import c10

INV = ["Collected"]
SYM = {  # symbol -> (harness entry, canonical id)
    "max_data": ({"t": "std", "id": 0x04, "v": 1000000}, 0x04),
    "streams_uni": ({"t": "std", "id": 0x09, "v": 103}, 0x09),
    "idle": ({"t": "std", "id": 0x01, "v": 30000}, 0x01),
    "google": ({"t": "fake", "id": 0x4752, "v": 1}, 0x4752),
    "grease": ({"t": "grease", "v": 5}, 27),
    "raw58": ({"t": "fake", "id": 58, "v": 7}, 27),   # a raw parameter whose literal identifier is GREASE-shaped (31 + 27)
}
SUP = {"max_data": 0x04, "streams_uni": 0x09, "grease27": 27, "google": 0x4752}


def to_cfg(kn, base="chrome115", dials=2):
    lst = [kn["list"][str(i)] if isinstance(kn["list"], dict) else kn["list"][i - 1] for i in range(1, len(kn["list"]) + 1)] if kn["list"] else []
    tps = [SYM[s][0] for s in lst] + [{"t": "std", "id": 0x0f, "v": 0}]
    tplist = [[SYM[s][1], s] for s in lst] + [[0x0f, "iscid"]]
    return {"base": base, "tps": tps, "tplist": tplist, "suppress": sorted(SUP[x] for x in kn["sup"]), "randomize": kn["rand"], "dials": dials}


def run(replay=None):
    c = vlib.Check("C11", "InitialFlight")
    thorough = c.tier == "thorough"
    c.assumptions += [
        "transport parameters are read from the ClientHello reassembled from the decrypted first flight by the independent observer; GREASE identifiers are canonicalised to 27",
        "order is compared exactly when randomisation is off, as a multiset when on; the distributional clause uses small lists (3-4 parameters) over 2000-20000 dials: every permutation seen and each (parameter, position) count within 7 standard deviations of uniform",
        "the comparison of cipher suites / extension contents against a second uTLS instance and the reference-fingerprinter identifiers are NOT covered in this round (see DESIGN.md residues)",
    ]
    if replay:
        cases = [json.load(open(os.path.join(replay, "stimulus.json")))]
    else:
        c.model_check("Suppress_MC.tla", "Suppress_MC.cfg")
        seqs = c.enumerate("TPKnobs.tla", {"MaxLen": 3 if not thorough else 4}, timeout=1200)
        cases = []
        for s in seqs:
            if not s:
                continue
            cases.append({"group": "tp", "cfg": to_cfg(s[0], "chrome115" if len(cases) % 2 == 0 else "firefox116"), "ops": []})
        if not thorough:
            c.rng.shuffle(cases)
            cases = cases[:4000]
        # distribution of the per-dial shuffle
        nd = 2000 if not thorough else 20000
        for lst in (["max_data", "streams_uni"], ["max_data", "streams_uni", "google"], ["max_data", "streams_uni", "google", "grease"]):
            kn = {"list": lst, "sup": [], "rand": True}
            cfg = to_cfg(kn, "chrome115", nd)
            cfg["tps"] = cfg["tps"][:-1]          # no initial_source_connection_id: the list is exactly the n parameters
            cfg["tplist"] = cfg["tplist"][:-1]
            cfg["distribution"] = True
            cases.append({"group": "tp", "cfg": cfg, "ops": []})
        # built-in fingerprints: reported identifiers = canonicalised wire, on every dial
        for b in ("chrome115", "chrome115v6", "chrome146", "chrome146v6", "firefox116", "firefox116b", "firefox116c"):
            cases.append({"group": "tp", "cfg": {"base": b, "dials": 10 if not thorough else 50}, "ops": []})
    cases = vlib.filter_cases(cases)
    c.samples = vlib.sample_cases(cases, c.rng, 3)
    groups = c.go_run(".", "TestVerifC10", cases, vlib.pkg_overlay(".", "root"), timeout=1500)
    jobs = [{"label": g, "files": files, "constants": {}, "invariants": INV} for g, files in groups.items()]
    viols = c.validate_many(c.spec("InitialFlight.tla"), jobs, timeout=2400)
    for v in viols:
        if 0 <= v["case"] < len(cases):
            v["stimulus"] = cases[v["case"]]
        v["sig"] = c10.sig_of(v)
    if not replay:
        c.require_events(["Reported", "DialStart", "Pkt", "CH", "DialEnd", "End"])

        def mutate(case, rng):
            idx = [i for i, e in enumerate(case) if e["ev"] == "CH" and len(e.get("tps", [])) >= 2]
            if not idx:
                return None
            i = rng.choice(idx)
            new = [dict(e) for e in case]
            new[i]["tps"] = list(new[i]["tps"][1:])
            return new, "line %d: one transport parameter missing from the wire" % i
        c.negative_control(c.spec("InitialFlight.tla"), groups["tp"], {}, INV, mutate, label="tp")
    c.add_violations(viols, cases, c10.describe)
    c.finish(rule="TLC enumerates transport-parameter lists (<=3-4 entries over standard / raw / GREASE / GREASE-shaped raw parameters, duplicates included) x suppression sets x randomisation; "
                  "2 dials each; 3 distribution runs of 2000-20000 dials; built-in fingerprints 10-50 dials; every ClientHello validated against InitialFlight (CH part)")
