"""C15 - stream concurrency limits and stream-ID discipline (specs/StreamsMap)."""
import json
import os

import vlib

INV = ["NoDivergence", "IncomingBound", "LocalIDs", "AcceptInOrder", "NoStarvedWaiter", "BlockedReported"]
GROUPS = {}
for persp in ("client", "server"):
    for uni in (False, True):
        for limit, peermax in ((1, 0), (2, 1), (3, 2)):
            GROUPS["%s_%s_%d_%d" % (persp[0], "u" if uni else "b", limit, peermax)] = {"persp": persp, "uni": uni, "limit": limit, "peermax": peermax}


def named(o):
    op = o["op"]
    if op in ("PeerIncoming", "PeerOutgoing", "PeerWrongDirection"):
        return {"op": op, "n": o["a"], "k": o["b"]}
    if op == "MaxStreams":
        return {"op": op, "n": o["a"]}
    if op in ("MaxStreamsThenOpen", "MaxStreamsThenCancel"):
        return {"op": op, "n": o["a"], "c": o["b"]}
    if op in ("OpenSync", "Accept", "Cancel"):
        return {"op": op, "c": o["a"]}
    if op in ("CompleteIn", "CompleteOut"):
        return {"op": op, "n": o["a"]}
    return {"op": op}


def constants(g):
    cfg = GROUPS[g]
    return {"Limit": str(cfg["limit"]), "PeerMax0": str(cfg["peermax"]), "MaxN": "50", "Callers": "{1, 2, 3, 4, 5, 6}",
            "Uni": "TRUE" if cfg["uni"] else "FALSE"}


def walks(rng, n, length):
    out = []
    gs = list(GROUPS)
    for _ in range(n):
        g = rng.choice(gs)
        cfg = GROUPS[g]
        ops = []
        hi_in, pm = 0, cfg["peermax"]
        for i in range(length):
            r = rng.random()
            if r < 0.2:
                hi_in = min(hi_in + rng.choice([0, 1, 1, 2]), 40)
                ops.append({"op": "PeerIncoming", "n": max(1, rng.choice([hi_in, hi_in, rng.randrange(1, hi_in + 2)])), "k": rng.choice([0, 0, 1, 2])})
            elif r < 0.27:
                ops.append({"op": "PeerOutgoing", "n": rng.randrange(1, 5), "k": rng.choice([0, 1])})
            elif r < 0.40:
                pm += rng.choice([0, 0, 1, 1, 2])
                ops.append({"op": rng.choice(["MaxStreams", "MaxStreams", "MaxStreamsThenOpen", "MaxStreamsThenCancel"]),
                            "n": rng.choice([pm, pm, max(0, pm - 1)]), "c": rng.randrange(1, 4)})
            elif r < 0.48:
                ops.append({"op": "Open"})
            elif r < 0.62:
                ops.append({"op": "OpenSync", "c": rng.randrange(1, 4)})
            elif r < 0.72:
                ops.append({"op": "Accept", "c": 4})
            elif r < 0.80:
                ops.append({"op": "Cancel", "c": rng.choice([1, 2, 3, 4])})
            elif r < 0.93:
                ops.append({"op": "CompleteIn", "n": rng.randrange(1, hi_in + 2)})
            elif r < 0.98:
                ops.append({"op": "CompleteOut", "n": rng.randrange(1, 4)})
            elif r < 0.99 and cfg["uni"]:
                ops.append({"op": "PeerWrongDirection", "n": 1, "k": rng.choice([0, 1])})
            else:
                ops.append({"op": "Close"})
        out.append({"group": g, "cfg": cfg, "ops": ops})
    return out


def mutate(case, rng):
    idx = [i for i, e in enumerate(case) if e["ev"] in ("OpenSync", "Open", "Done") and isinstance(e.get("res"), int) and e["res"] >= 1 and e.get("kind", "open") == "open"]
    if idx:
        i = rng.choice(idx)
        new = [dict(e) for e in case]
        new[i]["res"] = new[i]["res"] + 1
        return new, "line %d: local stream opened with an ordinal that skips one (beyond order / limit)" % i
    idx = [i for i, e in enumerate(case) if e["ev"] == "PeerIncoming" and e.get("res") == "STREAM_LIMIT_ERROR"]
    if idx:
        i = rng.choice(idx)
        new = [dict(e) for e in case]
        new[i]["res"] = "ok"
        return new, "line %d: stream beyond the advertised limit accepted" % i
    return None


def describe(v):
    st = v.get("stimulus") or {}
    ln = v["trace"][v["line_in_case"]] if v.get("trace") and v["line_in_case"] < len(v["trace"]) else ""
    return "%s (%s): line %s" % (v["inv"], json.dumps(st.get("cfg")), ln[:300])


def run(replay=None):
    c = vlib.Check("C15", "StreamsMap")
    thorough = c.tier == "thorough"
    c.assumptions += [
        "streams are named by ordinal within their class; the executor maps ordinals to IDs for both perspectives and both types",
        "stream completion is injected through streamsMap.DeleteStream (what the connection calls when a stream reports completion)",
        "at most one AcceptStream caller at a time (no order among concurrent acceptors is promised)",
        "races MAX_STREAMS vs. a new OpenStreamSync / vs. cancellation of the head waiter are produced by not quiescing between the two calls; their outcome is scheduler-dependent",
    ]
    if replay:
        cases = [json.load(open(os.path.join(replay, "stimulus.json")))]
    else:
        c.model_check("StreamsMap_MC.tla", "StreamsMap_MC.cfg")
        cases = []
        L = 4   # 24 / 26 letters: L = 5 would be 8M / 12M sequences
        for uni in (False, True):
            seqs3 = c.enumerate("StreamsMap_Env.tla", {"N": 3, "L": 3, "IsUni": uni})
            seqs4 = c.enumerate("StreamsMap_Env.tla", {"N": 3, "L": L, "IsUni": uni}) if thorough else []
            for g, cfg in GROUPS.items():
                if cfg["uni"] != uni:
                    continue
                if not thorough and not (cfg["limit"] == 2):
                    continue
                # thorough: L = 4 for the limit-2 groups (measured: ~0.75 ms of TLC per case), L = 3 for the others
                for s in (seqs4 if thorough and cfg["limit"] == 2 else seqs3):
                    cases.append({"group": g, "cfg": cfg, "ops": [named(o) for o in s]})
        nw = 6000 if not thorough else 60000
        cases += walks(c.rng, nw, 40)
        c.parts.append({"step": "generate", "what": "seeded random walks over all 12 (perspective, type, limits) groups", "cases": nw, "exhaustive": False})
    c.samples = vlib.sample_cases(cases, c.rng, 3)
    for s in c.samples:
        s["ops"] = s["ops"][:12]
    groups = c.go_run(".", "TestVerifC15", cases, vlib.pkg_overlay(".", "root"))
    jobs = [{"label": g, "files": files, "constants": constants(g), "invariants": INV} for g, files in groups.items()]
    viols = c.validate_many(c.spec("StreamsMap_Trace.tla"), jobs, timeout=2400)
    if not replay:
        c.require_events(["PeerIncoming", "PeerOutgoing", "PeerWrongDirection", "MaxStreams", "Open", "OpenSync", "Accept", "CancelOpen",
                          "CompleteIn", "CompleteOut", "Close", "Done"])
        g = "c_b_2_1"
        c.negative_control(c.spec("StreamsMap_Trace.tla"), groups[g], constants(g), INV, mutate, label=g)
    c.add_violations(viols, cases, describe)
    c.finish(rule="TLC enumerates every sequence of L stimuli (peer frames naming incoming/outgoing/wrong-direction streams, MAX_STREAMS, Open, "
                  "OpenStreamSync/AcceptStream by concurrent callers with cancellation, completions, close) for both perspectives and stream types; "
                  "seeded walks beyond; executed on the real streamsMap in a synctest bubble; results, queued frames and wake-ups validated against StreamsMap")
