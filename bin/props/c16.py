"""C16 - connection IDs: limits honoured both ways, retirements reported, routing clean (specs/ConnIDs)."""
import json
import os

import vlib

MINV = ["AcceptWithinLimit", "RetirementsReported", "TokensExact", "TokensGoneAfterClose"]
GINV = ["IssuedWithinPeerLimit", "RoutingExact", "RoutedPrecisely", "RetireErrors", "CleanAfterClose"]


def mnamed(o):
    op = o["op"]
    if op == "Add":
        return {"op": "Add", "seq": o["a"], "rpt": o["b"], "var": 0}
    if op == "AddConflict":
        return {"op": "Add", "seq": o["a"], "rpt": 0, "var": 1}
    if op == "SentPackets":
        return {"op": op, "n": o["a"]}
    if op in ("GetForPath", "RetireForPath"):
        return {"op": op, "p": o["a"]}
    return {"op": op}


def gnamed(o):
    op = o["op"]
    if op == "SetMax":
        return {"op": op, "limit": o["a"]}
    if op == "Retire":
        return {"op": op, "seq": o["a"], "same": o["b"] == 1, "exp": 30}
    if op == "HandshakeDone":
        return {"op": op, "exp": o["a"]}
    if op == "Packet":
        return {"op": op, "seq": o["a"]}
    if op == "Tick":
        return {"op": op, "d": o["a"]}
    if op == "Close":
        return {"op": op, "mode": "immediate" if o["a"] == 0 else "graceful", "local": o["a"] == 2, "exp": o["b"]}
    return {"op": op}


def mwalk(rng, n):
    ops = []
    hi = 0
    for _ in range(n):
        r = rng.random()
        if r < 0.55:
            if rng.random() < 0.7:
                hi += 1
                seq = hi
            else:
                seq = rng.randrange(1, hi + 2)
                hi = max(hi, seq)
            rpt = rng.choice([0, 0, 0, max(0, seq - 3), max(0, seq - 1), seq, rng.randrange(0, seq + 1)])
            ops.append({"op": "Add", "seq": seq, "rpt": rpt, "var": 1 if rng.random() < 0.03 else 0})
        elif r < 0.7:
            ops.append({"op": "Get"})
        elif r < 0.78:
            ops.append({"op": "SentPackets", "n": rng.choice([1, 6000, 20000])})
        elif r < 0.84:
            ops.append({"op": "HandshakeComplete"})
        elif r < 0.92:
            ops.append({"op": "GetForPath", "p": rng.choice([1, 2, 3])})
        elif r < 0.96:
            ops.append({"op": "RetireForPath", "p": rng.choice([1, 2, 3])})
        elif r < 0.99:
            ops.append({"op": "SetToken"})
        else:
            ops.append({"op": "Close"})
    return ops


def gwalk(rng, n):
    ops = [{"op": "SetMax", "limit": rng.choice([2, 3, 4, 6, 8, 20])}] if rng.random() < 0.8 else []
    hi = 8
    for _ in range(n):
        r = rng.random()
        if r < 0.45:
            ops.append({"op": "Retire", "seq": rng.randrange(0, hi), "same": rng.random() < 0.1, "exp": rng.choice([5, 30, 90])})
        elif r < 0.55:
            ops.append({"op": "SetMax", "limit": rng.choice([2, 4, 8])})
        elif r < 0.62:
            ops.append({"op": "HandshakeDone", "exp": 30})
        elif r < 0.72:
            ops.append({"op": "Packet", "seq": rng.choice([-1, 0, 1, 2, 3, 5, 99])})
        elif r < 0.8:
            ops.append({"op": "Tick", "d": rng.choice([1, 10, 40, 100])})
        elif r < 0.95:
            ops.append({"op": "Sweep"})
        else:
            ops.append({"op": "Close", "mode": rng.choice(["immediate", "graceful"]), "local": rng.random() < 0.5, "exp": rng.choice([20, 50])})
            ops += [{"op": "Packet", "seq": rng.choice([0, 1, 2])}, {"op": "Tick", "d": 10}, {"op": "Packet", "seq": rng.choice([0, 1, 2])}, {"op": "Tick", "d": 100}, {"op": "Packet", "seq": 0}]
            break
    return ops


def mutate(case, rng):
    # drop the only report of a retired sequence number
    counts = {}
    for e in case:
        for r in e.get("retires", []) or []:
            counts[r] = counts.get(r, 0) + 1
    idx = [i for i, e in enumerate(case) if e["ev"] == "NewConnID" and e["res"] == "ok" and any(counts[r] == 1 for r in e["retires"])]
    if idx:
        i = rng.choice(idx)
        new = [dict(e) for e in case]
        drop = [r for r in new[i]["retires"] if counts[r] == 1][0]
        new[i]["retires"] = [r for r in new[i]["retires"] if r != drop]
        return new, "line %d: RETIRE_CONNECTION_ID for sequence number %d not reported" % (i, drop)
    return None


def describe(v):
    st = v.get("stimulus") or {}
    ln = v["trace"][v["line_in_case"]] if v.get("trace") and v["line_in_case"] < len(v["trace"]) else ""
    return "%s: %s ops %s | line %s" % (v["inv"], json.dumps(st.get("cfg")), json.dumps(st.get("ops"))[:300], ln[:260])


def run(replay=None):
    global MINV, GINV
    if os.environ.get("VERIF_INV"):   # debugging aid: restrict to some clauses
        only = os.environ["VERIF_INV"].split(",")
        MINV = [i for i in MINV if i in only] or ["TokensGoneAfterClose"]
        GINV = [i for i in GINV if i in only] or ["RetireErrors"]
    c = vlib.Check("C16", "ConnIDs")
    thorough = c.tier == "thorough"
    c.assumptions += [
        "sequence numbers stand for connection IDs and reset tokens (sequence number s carries ID / token s; a conflicting retransmission carries other contents)",
        "peer-issued side: what the manager holds (active / queue / probing) is read in-package after every call; Retire Prior To never exceeds the frame's sequence number (the wire parser rejects that)",
        "own side: the generator is wired to a real packetHandlerMap exactly as newConnection wires it; the routing table is read after every call in a synctest bubble",
        "routing of short-header packets by the Transport's read loop itself (parse, lookup, stateless reset) is not driven here",
    ]
    if replay:
        cases = [json.load(open(os.path.join(replay, "stimulus.json")))]
    else:
        c.model_check("ConnIDs_MC.tla", "ConnIDs_MC.cfg", label="conformant peer never exceeds the receiver's count")
        cases = []
        for s in c.enumerate("ConnIDs_Env.tla", {"Tier": "manager", "MaxSeq": 4, "L": 3}):
            for lim in ((0, 2) if not thorough else (0, 2, 3, 8)):
                cases.append({"group": "mgr_L%d" % (lim or 4), "cfg": {"tier": "manager", "limit": lim, "zerolen": False}, "ops": [mnamed(o) for o in s]})
        for s in c.enumerate("ConnIDs_Env.tla", {"Tier": "generator", "MaxSeq": 4, "L": 4}):
            cases.append({"group": "gen", "cfg": {"tier": "generator", "server": c.rng.random() < 0.5, "zerolen": False}, "ops": [gnamed(o) for o in s]})
        nw = 20000 if not thorough else 200000
        for _ in range(nw):
            lim = c.rng.choice([0, 2, 3, 4, 5, 8])
            cases.append({"group": "mgr_L%d" % (lim or 4), "cfg": {"tier": "manager", "limit": lim, "zerolen": c.rng.random() < 0.03}, "ops": mwalk(c.rng, c.rng.choice([6, 12, 30]))})
        for _ in range(nw // 2):
            cases.append({"group": "gen", "cfg": {"tier": "generator", "server": c.rng.random() < 0.5, "zerolen": c.rng.random() < 0.05}, "ops": gwalk(c.rng, c.rng.choice([6, 15, 40]))})
        c.parts.append({"step": "generate", "what": "seeded walks: NEW_CONNECTION_ID in any order with Retire Prior To jumps / duplicates / conflicts, rotation, path probing; RETIRE_CONNECTION_ID, expiry sweeps, closes", "cases": nw + nw // 2, "exhaustive": False})
    c.samples = vlib.sample_cases(cases, c.rng, 3)
    groups = c.go_run(".", "TestVerifC16", cases, vlib.pkg_overlay(".", "root"), timeout=1800)
    jobs = []
    for g, files in groups.items():
        if g.startswith("mgr_L"):
            jobs.append({"label": g, "files": files, "constants": {"Limit": g[5:], "IssueCap": "6"}, "invariants": MINV})
        else:
            jobs.append({"label": g, "files": files, "constants": {"Limit": "4", "IssueCap": "6"}, "invariants": GINV})
    viols = c.validate_many(c.spec("ConnIDs_Trace.tla"), jobs, timeout=2400, max_iter=6)
    if not replay:
        c.require_events(["NewConnID", "Get", "GetForPath", "RetireForPath", "SetToken", "ManagerClose", "SetPeerLimit", "PeerRetires", "HandshakeDone", "Sweep", "Close", "Tick", "Packet"])
        if not os.environ.get("VERIF_INV"):
            c.negative_control(c.spec("ConnIDs_Trace.tla"), groups["mgr_L4"], {"Limit": "4", "IssueCap": "6"}, MINV, mutate, label="mgr_L4")

    for v in viols:
        v["sig"] = {"inv": v["inv"]}
    c.add_violations(viols, cases, describe)
    c.finish(rule="every call connection.go makes on the connection-ID manager / generator is one action of ConnIDs carrying what the code held, queued and routed afterwards")
