"""C07 - ACK generation and duplicate detection (specs/AckGen)."""
import json
import os

import vlib

INV = ["NoDivergence", "AckDue", "TrackedSound", "LastAckSound", "RangeBound"]
D = 25000


def named(o):
    op = o["op"]
    if op == "Recv":
        return {"op": "Recv", "pn": o["a"], "ae": o["b"] == 1, "mark": o["c"]}
    if op == "Tick":
        return {"op": "Tick", "d": o["a"]}
    if op == "GetAck":
        return {"op": "GetAck", "oiq": o["a"] == 1}
    if op == "Ignore":
        return {"op": "Ignore"}
    return {"op": op}


def constants(space, npn):
    return {"PNs": "<- PNsDef", "MaxRanges": "64", "D": str(D), "Space": '"%s"' % ("app" if space == "app" else "hs")}


def long_walks(rng, n, length):
    """beyond the tracked number of ranges: random arrivals over 400 numbers (seeded), ~100 ranges at the peak"""
    out = []
    for w in range(n):
        ops = []
        hi = 0
        for i in range(length):
            r = rng.random()
            if r < 0.80:
                # mostly fresh numbers two apart (each opens a range), sometimes old / duplicate ones
                if rng.random() < 0.7:
                    hi += rng.choice([1, 2, 2, 2, 3])
                    pn = hi
                else:
                    pn = rng.randrange(0, hi + 1)
                ops.append({"op": "Recv", "pn": min(pn, 399), "ae": rng.random() < 0.8, "mark": rng.choice([0, 0, 0, 1, 2, 3])})
            elif r < 0.88:
                ops.append({"op": "Tick", "d": rng.choice([1000, 24000, 25000, 26000])})
            elif r < 0.97:
                ops.append({"op": "GetAck", "oiq": rng.random() < 0.6})
            else:
                ops.append({"op": "Ignore"} if rng.random() < 0.5 else {"op": "Ignore", "p": rng.randrange(0, max(1, hi // 2) + 1)})
        ops.append({"op": "GetAck", "oiq": False})
        out.append({"group": "appL", "cfg": {"space": "app"}, "ops": ops})
    return out


def mutate(case, rng):
    idx = [i for i, e in enumerate(case) if e["ev"] == "GetAck" and e.get("ranges")]
    if idx:
        i = rng.choice(idx)
        new = [dict(e) for e in case]
        kind = rng.choice(["unreceived", "adjacent"])
        rs = [list(r) for r in new[i]["ranges"]]
        if kind == "unreceived":
            rs[0][1] += 1
            new[i]["ranges"] = rs
            return new, "line %d: ACK range extended to a number that was never received" % i
        rs.append([rs[-1][0] - 1, rs[-1][0] - 1]) if rs[-1][0] >= 1 else rs.insert(0, [rs[0][1] + 1, rs[0][1] + 1])
        new[i]["ranges"] = rs
        return new, "line %d: ACK ranges adjacent / not received" % i
    idx = [i for i, e in enumerate(case) if e["ev"] == "Recv" and e.get("ae") and not e.get("dup") and not e.get("qd")]
    if idx:
        i = rng.choice(idx)
        new = [dict(e) for e in case]
        new[i]["al"] = new[i]["t"] + D + 1000
        return new, "line %d: ACK alarm later than max ack delay after arrival" % i
    return None


def describe(v):
    st = v.get("stimulus") or {}
    ln = v["trace"][v["line_in_case"]] if v.get("trace") and v["line_in_case"] < len(v["trace"]) else ""
    return "%s (%s): line %s" % (v["inv"], (st.get("cfg") or {}).get("space"), ln)


WINV = ["WireAckSound", "WireAckDue"]
WCONST = {"D": "25000", "Slack": "2000"}


def describe_wire(v):
    st = v.get("stimulus") or {}
    ln = v["trace"][v["line_in_case"]] if v.get("trace") and v["line_in_case"] < len(v["trace"]) else ""
    return "%s (connection level, %s): line %s" % (v["inv"], json.dumps(st.get("cfg")), ln[:200])


def mutate_wire(case, rng):
    idx = [i for i, e in enumerate(case) if e["ev"] == "TxAck"]
    rx = [i for i, e in enumerate(case) if e["ev"] == "Rx" and e["ae"]]
    if idx and rx:
        # the first ACK after some ack-eliciting arrival goes out 30 ms later than recorded
        i0 = rng.choice(rx)
        later = [i for i in idx if i > i0 and case[i]["side"] == case[i0]["side"]]
        if later:
            new = [dict(e) for e in case]
            for j in range(later[0], len(new)):
                if "t" in new[j]:
                    new[j]["t"] += 30000
            return new, "line %d: everything from the next ACK on happens 30 ms later" % later[0]
    return None


def wire(c, thorough, replay):
    """connection-level scenarios (TLC enumerates the knobs), both endpoints real, traces validated against AckWire"""
    if replay:
        st = json.load(open(os.path.join(replay, "stimulus.json")))
        if st.get("group") != "wire":
            return [], []
        cases = [st]
    else:
        c.model_check("AckWire_MC.tla", "AckWire_MC.cfg", label="connection timer design: ACK alarm honoured while blocked")
        deltas = {60, 150, 200, 350, 500, 800} if not thorough else set(range(40, 1300, 30))
        gaps = {3, 20, 30, 70} if not thorough else {1, 3, 10, 20, 24, 26, 30, 45, 70, 200}
        losses = {0, 30, 100} if not thorough else {0, 10, 30, 60, 100, 200}
        knobs = [s[0] for s in c.enumerate("AckWireKnobs.tla", {"Deltas": deltas, "Gaps": gaps, "Losses": losses}) if s]
        cases = [{"group": "wire", "cfg": k, "ops": []} for k in knobs]
    groups = c.go_run(".", "TestVerifC07W", cases, vlib.pkg_overlay(".", "root"), timeout=2400, outname="wire")
    if replay and not groups:
        return [], cases
    viols = c.validate_many(c.spec("AckWire_Trace.tla"), [{"label": g, "files": f, "constants": WCONST, "invariants": WINV} for g, f in groups.items()], timeout=2400)
    if not replay:
        c.require_events(["Rx", "TxAck", "End"])
        c.negative_control(c.spec("AckWire_Trace.tla"), groups["wire"], WCONST, WINV, mutate_wire, label="wire")
    return viols, cases


def run(replay=None):
    c = vlib.Check("C07", "AckGen")
    thorough = c.tier == "thorough"
    c.assumptions += [
        "the 'ACK due now' flag is read from the tracker's state in-package (ackQueued / hasNewAck); alarm via GetAlarmTimeout",
        "the connection's duplicate filter is modelled as: IsPotentiallyDuplicate first, ReceivedPacket only for non-duplicates (as connection.go does)",
        "exhaustive over 6-7 packet numbers and sequences of 4-5 stimuli; seeded random walks beyond 64 ranges",
        "connection level (AckWire): 1-RTT space only, as recorded by Config.Tracer on both real endpoints in virtual time; an ACK counts as sent when the packet carrying it "
        "is logged as sent; allowed delay = 25 ms (the endpoint's own max ack delay) + 2 ms; scenarios: congestion-limited sender receiving a lone packet, "
        "application-limited lone packets, bulk upload under random loss",
    ]
    if replay:
        cases = [json.load(open(os.path.join(replay, "stimulus.json")))]
        if cases[0].get("group") == "wire":
            wviols, wcases = wire(c, thorough, replay)
            c.add_violations(wviols, wcases, describe_wire)
            c.finish(rule="replay of one connection-level scenario")
            return
    else:
        c.model_check("AckGen_MC.tla", "AckGen_MC.cfg", label="app")
        c.model_check("AckGen_MC.tla", "AckGen_MC_hs.cfg", label="hs")
        cases = []
        N = 6
        for s in c.enumerate("AckGen_Env.tla", {"N": N if not thorough else 7, "L": 4, "Kind": "app"}, timeout=3000):   # L = 5 would be 3.2M sequences: the thorough tier widens the universe instead
            cases.append({"group": "app", "cfg": {"space": "app"}, "ops": [named(o) for o in s]})
        for sp in ("initial", "handshake"):
            for s in c.enumerate("AckGen_Env.tla", {"N": 5, "L": 4 if not thorough else 5, "Kind": "hs"}):
                cases.append({"group": sp, "cfg": {"space": sp}, "ops": [named(o) for o in s]})
        cases += long_walks(c.rng, 200 if not thorough else 1500, 400)
        c.parts.append({"step": "generate", "what": "seeded random walks over 400 packet numbers (beyond 64 ranges)", "cases": 200 if not thorough else 1500, "exhaustive": False})
    c.samples = vlib.sample_cases(cases, c.rng, 3)
    for s in c.samples:
        s["ops"] = s["ops"][:12]
    groups = c.go_run("./internal/ackhandler", "TestVerifC07", cases, vlib.pkg_overlay("internal/ackhandler", "ackhandler"))
    jobs = []
    for g, files in groups.items():
        npn = 400 if g == "appL" else 7
        jobs.append({"label": g, "files": files, "constants": constants("app" if g.startswith("app") else "hs", npn),
                     "defs": "PNsDef == 0..%d" % (npn - 1), "invariants": INV})
    viols = c.validate_many(c.spec("AckGen_Trace.tla"), jobs, timeout=2400)
    # connection level: the ACKs that are due actually leave the endpoint (AckWire)
    wviols, wcases = wire(c, thorough, replay)
    if not replay:
        c.require_events(["Recv", "GetAck", "Ignore", "Drop"])
        c.negative_control(c.spec("AckGen_Trace.tla"), groups["app"], constants("app", 7), INV, mutate, defs="PNsDef == 0..6", label="app")
    c.add_violations(viols, cases, describe)
    c.add_violations(wviols, wcases, describe_wire)
    c.finish(rule="TLC enumerates every sequence of L stimuli (arrivals in any order incl. duplicates, ticks around the max ack delay, "
                  "GetAckFrame with/without onlyIfQueued, IgnorePacketsBelow, DropPackets) per space; executed on ReceivedPacketHandler; "
                  "every ACK / duplicate answer / queued flag / alarm is validated against AckGen")
