"""C04 - flow control: senders stay within advertised credit, receivers enforce it (specs/FlowControl)."""
import json
import os

import vlib

INV = ["NoDivergence", "SendWithinCredit", "ReceiveWithinAdvertised", "CreditConservation", "WindowBounds"]
CFGS = {
    "toy": {"streams": 2, "w0": 16, "maxw": 64, "cw0": 24, "cmaxw": 96, "slim0": 8, "cslim0": 12, "rtt_ms": 50},
    "toy3": {"streams": 3, "w0": 16, "maxw": 64, "cw0": 24, "cmaxw": 96, "slim0": 8, "cslim0": 12, "rtt_ms": 0},
    "maxbelow": {"streams": 2, "w0": 64, "maxw": 16, "cw0": 96, "cmaxw": 24, "slim0": 8, "cslim0": 12, "rtt_ms": 50},   # maximum window below the initial one
    "real": {"streams": 3, "w0": 524288, "maxw": 6291456, "cw0": 786432, "cmaxw": 15728640, "slim0": 65536, "cslim0": 98304, "rtt_ms": 20},
}


def constants(g):
    c = CFGS[g]
    return {"Streams": "<- StDef", "W0": str(c["w0"]), "MaxW": str(c["maxw"]), "CW0": str(c["cw0"]), "CMaxW": str(c["cmaxw"]),
            "SLim0": str(c["slim0"]), "CSLim0": str(c["cslim0"])}


def defs(g):
    return "StDef == 1..%d" % CFGS[g]["streams"]


def named(o):
    op = o["op"]
    if op == "Recv":
        return {"op": op, "s": o["s"], "off": o["a"], "fin": o["f"]}
    if op in ("Consume", "Send"):
        return {"op": op, "s": o["s"], "n": o["a"]}
    if op in ("MaxStreamData", "MaxData"):
        return {"op": op, "s": o["s"], "v": o["a"]}
    if op == "Tick":
        return {"op": op, "d": o["a"]}
    return {"op": op, "s": o["s"]}


def walks(rng, n, length, g):
    c = CFGS[g]
    W = c["w0"]
    out = []
    for _ in range(n):
        ops = []
        hi = {s: 0 for s in range(1, c["streams"] + 1)}
        for i in range(length):
            s = rng.randrange(1, c["streams"] + 1)
            r = rng.random()
            if r < 0.28:
                hi[s] = hi[s] + rng.choice([0, 1, W // 4, W // 2, W])
                off = rng.choice([hi[s], hi[s], max(0, hi[s] - rng.choice([1, W // 4]))])
                ops.append({"op": "Recv", "s": s, "off": off, "fin": rng.random() < 0.08})
            elif r < 0.52:
                ops.append({"op": "Consume", "s": s, "n": rng.choice([1, W // 4, W // 2, W, 4 * W])})
            elif r < 0.57:
                ops.append({"op": "Abandon", "s": s})
            elif r < 0.70:
                ops.append({"op": "StreamUpdate", "s": s})
            elif r < 0.78:
                ops.append({"op": "ConnUpdate", "s": 1})
            elif r < 0.83:
                ops.append({"op": "Tick", "d": rng.choice([1, 10, 200])})
            elif r < 0.90:
                ops.append({"op": "Send", "s": s, "n": rng.choice([1, W // 4, W])})
            elif r < 0.94:
                ops.append({"op": rng.choice(["MaxStreamData", "MaxData"]), "s": s, "v": rng.choice([W // 2, W, 2 * W, 3 * W, 8 * W])})
            else:
                ops.append({"op": rng.choice(["StreamBlocked", "ConnBlocked"]), "s": s})
        out.append({"group": g, "cfg": c, "ops": ops})
    return out


SEND_CFG = {"streams": 2, "w0": 1048576, "maxw": 1048576, "cw0": 1048576, "cmaxw": 1048576, "slim0": 100, "cslim0": 150, "rtt_ms": 0}
CFGS["sendstr"] = SEND_CFG


def send_walks(rng, n, length):
    """send-stream tier: writes, packetisation budgets, losses, MAX_* updates, Close / reliable boundary / CancelWrite / STOP_SENDING"""
    out = []
    for _ in range(n):
        ops = []
        lim = {1: 100, 2: 100}
        clim = 150
        for i in range(length):
            s = rng.choice([1, 2])
            r = rng.random()
            if r < 0.18:
                ops.append({"op": "Write", "s": s, "n": rng.choice([1, 10, 60, 100, 300, 2000])})
            elif r < 0.55:
                ops.append({"op": "Pop", "s": s, "n": rng.choice([10, 30, 64, 200, 1200])})
            elif r < 0.66:
                ops.append({"op": "Lose", "s": s, "n": rng.randrange(0, 8)})
            elif r < 0.72:
                ops.append({"op": "Ack", "s": s})
            elif r < 0.82:
                lim[s] += rng.choice([0, 10, 50, 200])
                ops.append({"op": "MaxStreamData", "s": s, "v": rng.choice([lim[s], lim[s], max(0, lim[s] - 30)])})
            elif r < 0.90:
                clim += rng.choice([0, 20, 100, 300])
                ops.append({"op": "MaxData", "s": s, "v": rng.choice([clim, clim, max(0, clim - 40)])})
            elif r < 0.93:
                ops.append({"op": "Boundary", "s": s})
            elif r < 0.96:
                ops.append({"op": "Cancel", "s": s})
            elif r < 0.98:
                ops.append({"op": "Close", "s": s})
            else:
                ops.append({"op": "StopSending", "s": s})
        out.append({"group": "sendstr", "cfg": SEND_CFG, "ops": ops})
    # scripted: unsent data below the reliable size, credit smaller than that data, then CancelWrite (RESET_STREAM_AT)
    for w in (40, 99, 100, 101, 180):
        for credit in (10, 60, 100):
            g = "sendstr_c%d" % credit
            CFGS[g] = dict(SEND_CFG, slim0=credit, cslim0=credit + 5)
            out.append({"group": g, "cfg": CFGS[g], "ops": [
                {"op": "Write", "s": 1, "n": w}, {"op": "Pop", "s": 1, "n": 20}, {"op": "Boundary", "s": 1}, {"op": "Cancel", "s": 1},
                {"op": "Pop", "s": 1, "n": 1200}, {"op": "Pop", "s": 1, "n": 1200}, {"op": "MaxStreamData", "s": 1, "v": credit + 30},
                {"op": "Pop", "s": 1, "n": 1200}, {"op": "MaxData", "s": 1, "v": credit + 400}, {"op": "Pop", "s": 1, "n": 1200}, {"op": "Pop", "s": 1, "n": 1200}]})
    return out


def recv_stream_walks(rng, n, length):
    """receive-stream tier: STREAM / RESET_STREAM frames, reads, CancelRead, update retrievals on real ReceiveStreams.
    Offsets are relative to the credit the endpoint has advertised so far (the harness resolves them), so that walks
    live long enough to reach cancellations, final sizes and raised limits; a share of the frames probes beyond the limits."""
    out = []
    for g in ("toy", "toy3", "maxbelow", "real"):
        c = CFGS[g]
        CFGS["rs_" + g] = c
        W = c["w0"]
        for _ in range(n):
            ops = []
            for i in range(length):
                s = rng.randrange(1, c["streams"] + 1)
                r = rng.random()
                if r < 0.30:
                    ops.append({"op": "Recv", "s": s, "rel": "within", "k": rng.choice([0, 1, 1, 2, 3, 4]), "fin": rng.random() < 0.10})
                elif r < 0.34:
                    ops.append({"op": "Recv", "s": s, "rel": "old", "over": rng.choice([0, 1, W // 4]), "fin": rng.random() < 0.2})
                elif r < 0.37:
                    ops.append({"op": "Recv", "s": s, "rel": rng.choice(["stream+", "conn+"]), "over": rng.choice([0, 0, 1, W // 4]), "fin": rng.random() < 0.2})
                elif r < 0.62:
                    ops.append({"op": "Consume", "s": s, "n": rng.choice([1, W // 4, W // 2, W, 4 * W])})
                elif r < 0.69:
                    ops.append({"op": "Abandon", "s": s})
                elif r < 0.74:
                    ops.append({"op": "Reset", "s": s, "rel": "within", "k": rng.choice([0, 0, 1, 2, 4])})
                elif r < 0.90:
                    ops.append({"op": "StreamUpdate", "s": s})
                else:
                    ops.append({"op": "ConnUpdate", "s": 1})
            out.append({"group": "rs_" + g, "cfg": c, "ops": ops})
    return out


def mutate(case, rng):
    idx = [i for i, e in enumerate(case) if e["ev"] in ("StreamUpdate", "ConnUpdate") and e.get("v", 0) > 0]
    if idx:
        i = rng.choice(idx)
        new = [dict(e) for e in case]
        new[i]["v"] = new[i]["v"] + 7
        return new, "line %d: advertised limit is not consumed + window" % i
    idx = [i for i, e in enumerate(case) if e["ev"] == "Consume" and e.get("n", 0) > 0]
    if idx:
        i = rng.choice(idx)
        new = [dict(e) for e in case]
        new[i]["cr"] = new[i]["cr"] + new[i]["n"]
        return new, "line %d: consumed bytes credited twice at connection level" % i
    return None


def describe(v):
    st = v.get("stimulus") or {}
    ln = v["trace"][v["line_in_case"]] if v.get("trace") and v["line_in_case"] < len(v["trace"]) else ""
    return "%s (%s): line %s" % (v["inv"], (st.get("group")), ln[:300])


def run(replay=None):
    c = vlib.Check("C04", "FlowControl")
    thorough = c.tier == "thorough"
    c.assumptions += [
        "component tier: real stream flow controllers sharing one real connection flow controller; window sizes and bytes read are read in-package (projection)",
        "auto-tuning is left open in the spec: a window may grow up to its maximum at any update; it may never shrink and an advertised limit always equals consumed + window",
        "send-stream tier and wire tier are separate parts of this check (see evidence parts)",
        "receive-stream tier: real ReceiveStreams on real flow controllers; what a stream does to its controller is recorded by thin wrappers at the controller interface "
        "(UpdateHighestReceived, AddBytesRead, Abandon, connection credit), what it answered to each frame at the frame's return; when abandoned bytes are credited is "
        "left to the implementation, that they are is required of every stream reported complete",
    ]
    wire_files = []
    if replay:
        cases = [json.load(open(os.path.join(replay, "stimulus.json")))]
        g = cases[0].get("group", "")
        CFGS.setdefault(g, cases[0]["cfg"])
        if g.startswith("sendstr"):
            groups = c.go_run(".", "TestVerifC04S", cases, vlib.pkg_overlay(".", "root"), outname="straces")
        elif g.startswith("rs_"):
            groups = c.go_run(".", "TestVerifC04R", cases, vlib.pkg_overlay(".", "root"), outname="rtraces")
        elif g == "wire":
            groups = {}
            wire_files = c.go_run(".", "TestVerifC04W", cases, vlib.pkg_overlay(".", "root"), outname="wtraces").get("wire", [])
        else:
            groups = c.go_run("./internal/flowcontrol", "TestVerifC04", cases, vlib.pkg_overlay("internal/flowcontrol", "flowcontrol"))
    else:
        c.model_check("FlowControl_MC.tla", "FlowControl_MC_recv.cfg")
        c.model_check("FlowControl_MC.tla", "FlowControl_MC_send.cfg")
        cases = []
        for g, ns in (("toy", 2), ("maxbelow", 2)):
            for s in c.enumerate("FlowControl_Env.tla", {"NS": ns, "W": CFGS[g]["w0"], "L": 3}, timeout=3000):   # 54 letters: L = 4 would be 8.5M sequences per configuration; the thorough tier adds walks
                cases.append({"group": g, "cfg": CFGS[g], "ops": [named(o) for o in s]})
        for g in CFGS:
            cases += walks(c.rng, 3000 if not thorough else 40000, 40, g)
        c.parts.append({"step": "generate", "what": "seeded random walks per window configuration (toy, 3 streams, maximum below initial, realistic sizes)", "cases": 4 * (3000 if not thorough else 40000), "exhaustive": False})
        groups = c.go_run("./internal/flowcontrol", "TestVerifC04", cases, vlib.pkg_overlay("internal/flowcontrol", "flowcontrol"))
        # send-stream tier (root package)
        scases = send_walks(c.rng, 4000 if not thorough else 60000, 50)
        base = len(cases)
        g2 = c.go_run(".", "TestVerifC04S", scases, vlib.pkg_overlay(".", "root"), outname="straces", env={"VERIF_CASE_BASE": str(base)})
        cases = cases + scases
        c.parts.append({"step": "generate", "what": "send-stream tier: seeded walks + scripted reliable-boundary cases", "cases": len(scases), "exhaustive": False})
        groups.update(g2)
        # receive-stream tier (root package): ReceiveStream drives the real flow controllers
        rcases = recv_stream_walks(c.rng, 1500 if not thorough else 25000, 40)
        base = len(cases)
        g3 = c.go_run(".", "TestVerifC04R", rcases, vlib.pkg_overlay(".", "root"), outname="rtraces", env={"VERIF_CASE_BASE": str(base)})
        cases = cases + rcases
        c.parts.append({"step": "generate", "what": "receive-stream tier: seeded walks of STREAM / RESET_STREAM frames, reads, CancelRead, update retrievals", "cases": len(rcases), "exhaustive": False})
        groups.update(g3)
        # wire tier: real connections, sender = in-tree server, limits = what a fingerprint spec advertises per stream kind
        wcases = []
        for cl in (["firefox116", "chrome115"] if not thorough else ["firefox116", "firefox116c", "chrome115", "chrome146", "firefox116+pn+cid"]):
            for rd in (False, True):
                for extra in (300000, 3000000):
                    for f in ([[]] + ([[{"dir": "s2c", "kind": "rand", "arg": 30, "at": c.seed, "from": 10}]] if rd else [])):
                        wcases.append({"group": "wire", "cfg": {"client": cl, "read": rd, "extra": extra}, "ops": f})
        g3 = c.go_run(".", "TestVerifC04W", wcases, vlib.pkg_overlay(".", "root"), outname="wtraces", env={"VERIF_CASE_BASE": str(len(cases))})
        cases = cases + wcases
        c.parts.append({"step": "enumerate", "what": "wire tier: client kind x reader behaviour x overshoot x loss", "sequences": len(wcases), "exhaustive": True})
        wire_files = g3.get("wire", [])
    c.samples = vlib.sample_cases(cases, c.rng, 2)
    for s in c.samples:
        s["ops"] = s["ops"][:10]
    jobs = [{"label": g, "files": files, "constants": constants(g), "defs": defs(g), "invariants": INV} for g, files in groups.items()]
    viols = c.validate_many(c.spec("FlowControl_Trace.tla"), jobs, timeout=2400)
    if wire_files:
        viols += c.validate_many(c.spec("FlowWire.tla"), [{"label": "wire", "files": wire_files, "constants": {}, "invariants": ["Collected"]}], timeout=1200)
    if not replay:
        c.require_events(["Recv", "Consume", "Abandon", "StreamUpdate", "ConnUpdate", "Send", "MaxStreamData", "MaxData", "StreamBlocked", "ConnBlocked"])
        c.negative_control(c.spec("FlowControl_Trace.tla"), groups["toy"], constants("toy"), INV, mutate, defs=defs("toy"), label="toy")
    c.add_violations(viols, cases, describe)
    c.finish(rule="TLC enumerates all sequences of 3-4 calls over the flow-control alphabet (arrivals incl. reordered / final / beyond-limit offsets, reads, abandon, window updates, "
                  "sends, MAX_* updates incl. stale ones, blocked queries) for 2 window configurations; seeded walks for 4; validated against FlowControl")
