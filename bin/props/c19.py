"""C19 - only well-formed HTTP/3 field sections are accepted; writers and parser agree (specs/FieldSection)."""
import json
import os

import vlib

INV = ["AcceptedOnlyWellFormed", "HandedOverFaithfully", "RejectedWithRightError", "WriterEmitsWellFormed", "WriterParserAgree", "AcceptorAgrees"]

LET = {
    "method": [(":method", "GET"), (":method", "POST"), (":method", "CONNECT")],
    "path": [(":path", "/"), (":path", "/a?b=c")],
    "path_empty": [(":path", ""), (":authority", ""), (":method", ""), (":scheme", ""), (":status", ""), (":protocol", "")],
    "scheme": [(":scheme", "https")],
    "authority": [(":authority", "example.com"), (":authority", "example.com:443")],
    "authority_crlf": [(":authority", "a.example\r\nx-injected: 1"), (":method", "GE\x00T"), (":scheme", "ht\ntps"),
                       (":protocol", "web\rsocket"), (":path", "/a\nb"), (":status", "200\r\n")],
    "status": [(":status", "200"), (":status", "404")],
    "protocol": [(":protocol", "websocket")],
    "p_unknown": [(":foo", "bar"), (":", ""), (":version", "3")],
    "p_upper": [(":Path", "/"), (":METHOD", "GET"), (":Status", "200")],
    "tok": [("x-a", "b"), ("accept", "*/*"), ("x-long", "v" * 40)],
    "tok_lf": [("x-a", "b\nc"), ("x-a", "b\rc")],
    "tok_nul": [("x-a", "b\x00c")],
    "tok_ctl": [("x-a", "b\x01c"), ("x-a", "b\x7fc")],
    "tok_empty": [("x-a", "")],
    "upper": [("X-A", "b"), ("Content-Type", "text/plain"), ("x-A", "b")],
    "badname": [("x a", "b"), ("", "b"), ("x\x00a", "b"), ("x\nb", "c"), ("x(a)", "b"), ("é", "b")],
    "colon_inside": [("a:b", "c")],
    "connspec": [("connection", "close"), ("keep-alive", "timeout=5"), ("proxy-connection", "keep-alive"),
                 ("transfer-encoding", "chunked"), ("upgrade", "websocket")],
    "te_trailers": [("te", "trailers")],
    "te_gzip": [("te", "gzip"), ("te", "trailers, deflate"), ("te", "")],
    "cl5": [("content-length", "5")],
    "cl7": [("content-length", "7")],
    "cl_abc": [("content-length", "abc"), ("content-length", "5 "), ("content-length", "+5"), ("content-length", "0x5")],
    "cl_empty": [("content-length", "")],
    "cl_neg": [("content-length", "-1"), ("content-length", "99999999999999999999")],
    "cookie": [("cookie", "a=b")],
    "host": [("host", "example.com")],
}
REQ_PRE = [(":method", "GET"), (":scheme", "https"), (":authority", "example.com"), (":path", "/")]
RSP_PRE = [(":status", "200")]


def size_of(fields):
    return sum(len(n.encode()) + len(v.encode()) + 32 for n, v in fields)


def mk_case(rng, kind, fields, group):
    total = size_of(fields)
    mode = rng.choice(["big", "big", "exact", "minus1"]) if fields else "big"
    limit = {"big": 100000, "exact": total, "minus1": total - 1}[mode]
    return {"group": group, "cfg": {"kind": kind, "limit": limit, "mode": mode}, "ops": [{"n": n, "v": v} for n, v in fields]}


def form(name, f):
    if f == "lower":
        return name
    if f == "upper":
        return name.upper()
    return "-".join(p.capitalize() for p in name.split("-"))


WVAL = {"connection": "close", "keep-alive": "timeout=5", "proxy-connection": "keep-alive", "transfer-encoding": "chunked",
        "upgrade": "websocket", "host": "other.example", "content-length": "3", "user-agent": "verif/1", "cookie": "a=b",
        "x-custom": "v", "te": "trailers", "accept-encoding": "br", "content-type": "text/plain"}
WVAL2 = dict(WVAL, **{"te": "gzip", "connection": "keep-alive, Upgrade", "content-length": "abc", "cookie": "c=d", "user-agent": "", "x-custom": ""})
REQ_CFGS = [
    {"method": "GET", "url": "https://example.com/a?b=c", "host": "", "proto": "HTTP/1.1", "body": 0, "gzip": True, "trailer": ""},
    {"method": "POST", "url": "https://example.com/", "host": "example.com:8443", "proto": "HTTP/3.0", "body": 3, "gzip": False, "trailer": "X-T"},
    {"method": "CONNECT", "url": "https://example.com:443", "host": "example.com:443", "proto": "HTTP/1.1", "body": 0, "gzip": False, "trailer": ""},
    {"method": "CONNECT", "url": "https://example.com/ws", "host": "", "proto": "websocket", "body": 0, "gzip": False, "trailer": ""},
]
RSP_CFGS = [{"status": 200, "body": 3}, {"status": 204, "body": 0}, {"status": 404, "body": 0}]


def mutate(case, rng):
    idx = [i for i, e in enumerate(case) if e["ev"] == "Result" and e["accepted"]]
    fidx = [i for i, e in enumerate(case) if e["ev"] == "Field" and e["nk"] == "tok"]
    if idx and fidx:
        new = [dict(e) for e in case]
        i = rng.choice(fidx)
        new[i]["nk"] = rng.choice(["upper", "connspec", "bad"])
        return new, "line %d: an accepted section contains a field that is not a lower-case token" % i
    idx = [i for i, e in enumerate(case) if e["ev"] == "Result" and not e["accepted"] and e["errclass"] == "message_error"]
    if idx and any(e["ev"] == "Field" and e["vk"] == "bad" for e in case):
        new = [dict(e) for e in case]
        new[idx[0]]["accepted"], new[idx[0]]["errclass"] = True, ""
        return new, "line %d: section with a forbidden byte accepted" % idx[0]
    return None


def reasons(lines):
    """labels for the report / known-finding signature only (the verdict is TLC's)"""
    fs = [e for e in lines if e.get("ev") == "Field"]
    out = set()
    seen = {}
    regular = False
    for f in fs:
        nk = f["nk"]
        if nk.startswith(":") or nk.startswith("p_"):
            if regular:
                out.add("pseudo_after_regular")
            if nk in seen:
                out.add("duplicate_pseudo" + ("_first_empty" if seen[nk] == "empty" else ""))
            seen.setdefault(nk, f["vk"])
        else:
            regular = True
        if nk in ("bad", "upper", "p_upper", "p_unknown", "connspec"):
            out.add("name_" + nk)
        if f["vk"] == "bad":
            out.add("value_forbidden_byte" + ("_in_pseudo" if nk.startswith(":") else ""))
        if nk == "te" and f["vk"] != "trailers":
            out.add("te_not_trailers")
    return sorted(out)


def describe(v):
    st = v.get("stimulus") or {}
    return "%s (%s): fields %s" % (v["inv"], json.dumps(st.get("cfg")), json.dumps(st.get("ops"))[:300])


def run(replay=None):
    c = vlib.Check("C19", "FieldSection")
    thorough = c.tier == "thorough"
    c.assumptions += [
        "fields are classified by the harness's own classifier (RFC 9110 token characters; forbidden value bytes NUL / CR / LF; other control bytes are not judged)",
        "an empty content-length value is treated as an absent field by the parser (named deviation, not judged)",
        "a section over the limit must be reported as errHeaderTooLarge (mapped to H3_EXCESSIVE_LOAD / 431 by the server), any other malformed section as a plain error (H3_MESSAGE_ERROR)",
        "writer tier: the application's header map holds valid names and values in any spelling, including connection-specific fields as HTTP/1.1 code sets them",
    ]
    if replay:
        cases = [json.load(open(os.path.join(replay, "stimulus.json")))]
        wcases = [x for x in cases if x["cfg"]["kind"].endswith("writer")]
        cases = [x for x in cases if not x["cfg"]["kind"].endswith("writer")]
    else:
        c.model_check("FieldSection_MC.tla", "FieldSection_MC.cfg", label="incremental acceptor = declarative definition")
        cases = []
        seqs = c.enumerate("FieldSection_Env.tla", {"L": 3 if not thorough else 4})
        for s in seqs:
            fields = [c.rng.choice(LET[o["a"]]) for o in s]
            for kind in ("request-parse", "response-parse", "trailer"):
                cases.append(mk_case(c.rng, kind, fields, "parse"))
            cases.append(mk_case(c.rng, "request", REQ_PRE[:c.rng.choice([4, 4, 3])] + fields, "full"))
            cases.append(mk_case(c.rng, "response", RSP_PRE + fields, "full"))
        nw = 20000 if not thorough else 200000
        letters = sorted(LET)
        for _ in range(nw):
            n = c.rng.choice([1, 2, 4, 6, 10])
            good = c.rng.random() < 0.6   # mostly well-formed sections with one or two oddities
            pool = ["tok", "tok", "tok_empty", "cookie", "te_trailers", "cl5", "cl5", "host"] if good else letters
            fields = [c.rng.choice(LET[c.rng.choice(pool)]) for _ in range(n)]
            if c.rng.random() < 0.3:
                fields.insert(c.rng.randrange(len(fields) + 1), c.rng.choice(LET[c.rng.choice(letters)]))
            kind = c.rng.choice(["request", "response", "trailer", "request-parse", "response-parse"])
            pre = REQ_PRE if kind.startswith("request") else RSP_PRE if kind.startswith("response") else []
            if kind == "request" and c.rng.random() < 0.3:
                pre = [(":method", "CONNECT"), (":authority", "example.com:443")] + ([(":protocol", "websocket"), (":scheme", "https"), (":path", "/ws")] if c.rng.random() < 0.5 else [])
            cases.append(mk_case(c.rng, kind, list(pre) + fields, "walk"))
        c.parts.append({"step": "generate", "what": "seeded random sections of 1-10 fields (mostly well-formed with one oddity), limits at / one below the size", "cases": nw, "exhaustive": False})
        wcases = []
        for s in c.enumerate("FieldWriter_Env.tla", {"L": 2}):
            vals = WVAL if c.rng.random() < 0.6 else WVAL2
            ops = [{"k": form(o["name"], o["form"]), "v": vals[o["name"]]} for o in s]
            for cfg in REQ_CFGS:
                wcases.append({"group": "writer", "cfg": dict(cfg, kind="reqwriter"), "ops": ops})
            # a response carrying TE (a request field) or a non-numeric Content-Length is not a valid net/http message
            rops = [o for o in ops if o["k"].lower() != "te" and not (o["k"].lower() == "content-length" and not o["v"].isdigit())]
            for cfg in RSP_CFGS:
                wcases.append({"group": "writer", "cfg": dict(cfg, kind="rspwriter"), "ops": rops})
    c.samples = vlib.sample_cases(cases or wcases, c.rng, 3)
    viols = []
    if cases:
        groups = c.go_run("./http3", "TestVerifC19", cases, vlib.pkg_overlay("http3", "http3"))
        viols += c.validate_many(c.spec("FieldSection_Trace.tla"), [{"label": g, "files": f, "constants": {}, "invariants": INV} for g, f in groups.items()], timeout=2400, max_iter=8)
        if not replay:
            c.require_events(["Field", "Result"])
            c.negative_control(c.spec("FieldSection_Trace.tla"), groups["walk"], {}, INV, mutate, label="walk")
    if wcases:
        wg = c.go_run("./http3", "TestVerifC19W", wcases, vlib.pkg_overlay("http3", "http3"), outname="wtraces", env={"VERIF_CASE_BASE": str(len(cases))})
        viols += c.validate_many(c.spec("FieldSection_Trace.tla"), [{"label": g, "files": f, "constants": {}, "invariants": INV} for g, f in wg.items()], timeout=2400, max_iter=8)
        if not replay:
            c.require_events(["Writer"])
    for v in viols:
        lines = [json.loads(x) for x in v.get("trace", [])]
        st = {}
        kind = next((e.get("kind") for e in lines if e.get("ev") == "Start"), "")
        v["sig"] = {"inv": v["inv"], "kind": kind, "reasons": ",".join(reasons(lines))}
    c.add_violations(viols, cases + wcases, describe)
    c.finish(rule="every field the real parser pulls from the decoder is one Feed step of FieldSection (classified by the harness), its verdict a Result step; "
                  "what the real writers emit is decoded independently, fed the same way and parsed back")
