"""C18 - HTTP/3 carries requests and responses end to end without loss or alteration (specs/H3Exchange)."""
import json
import os

import vlib

INV = ["Intact"]
HDRSETS = [
    [],
    [{"k": "X-Custom", "v": "a"}, {"k": "X-Custom", "v": "b"}, {"k": "Accept", "v": "*/*"}],
    [{"k": "Cookie", "v": "a=1"}, {"k": "Cookie", "v": "b=2"}, {"k": "X-Empty", "v": ""}],
    [{"k": "Authorization", "v": "Bearer " + "x" * 300}, {"k": "x-lower", "v": "v"}],
]
RSPHDRS = [
    [],
    [{"k": "Set-Cookie", "v": "a=1"}, {"k": "Set-Cookie", "v": "b=2"}, {"k": "Content-Type", "v": "application/octet-stream"}],
    [{"k": "X-Multi", "v": "1"}, {"k": "X-Multi", "v": "2"}, {"k": "X-Multi", "v": "3"}, {"k": "Content-Type", "v": "text/plain"}],
]


def exchange(k, rng):
    method = k["method"]
    body = k["reqbody"] if method in ("POST", "PUT", "CONNECT") else 0
    o = {"method": method, "path": rng.choice(["/", "/a/b?x=1&y=2", "/%7Euser/file.txt"]), "reqhdrs": rng.choice(HDRSETS),
         "reqbody": body if method != "CONNECT" else 0, "reqchunk": rng.choice([1 << 20, 1000, 7]) if body < 5000 else rng.choice([1 << 20, 4000]),
         "reqdecl": k["reqdecl"] if body else "ok", "reqtrailers": k["reqtrailers"] and body > 0 and method != "CONNECT",
         "status": k["status"] if method != "CONNECT" else 200, "early103": k["early103"], "rsphdrs": rng.choice(RSPHDRS),
         "rspbody": k["rspbody"], "rspchunk": rng.choice([1 << 20, 1500, 9]) if k["rspbody"] < 5000 else rng.choice([1 << 20, 16000]),
         "rspdecl": k["rspdecl"] if method != "CONNECT" else "none", "rsptrailers": k["rsptrailers"], "flush": k["flush"]}
    if o["reqtrailers"]:
        o["reqdecl"] = "none"   # net/http sends trailers only with an undeclared length
    return o


RAW = [
    # unknown / greasing frame types on a request stream are ignored
    *[{"op": "frame", "type": t, "len": l, "where": w, "class": "ignore"} for t in (0x21, 0x40, 0x1f * 7 + 0x21) for l in (0, 5) for w in ("first", "middle", "last")],
    # HTTP/2 leftovers and control-stream-only frames are H3_FRAME_UNEXPECTED (0x105 = 261) wherever they appear
    *[{"op": "frame", "type": t, "len": 0, "where": w, "class": "conn:261"} for t in (0x02, 0x06, 0x08, 0x09, 0x04, 0x07, 0x0d, 0x03) for w in ("first", "middle", "last")],
    {"op": "frame", "type": 0x00, "len": 3, "where": "first", "class": "conn:261"},     # DATA before HEADERS
    # unidirectional streams of unknown type are ignored; a second control stream is H3_STREAM_CREATION_ERROR (0x103 = 259)
    *[{"op": "unistream", "type": t, "len": 4, "class": "ignore"} for t in (0x21, 0x54, 0x1f * 3 + 0x21)],
    {"op": "unistream", "type": 0x00, "len": 2, "class": "conn:259"},
    {"op": "unistream", "type": 0x01, "len": 2, "class": "conn:259"},                    # a push stream opened by the client
]


def mutate(case, rng):
    idx = [i for i, e in enumerate(case) if e["ev"] == "Received" and e["got"] and e["n"] > 0 and not e["rerr"]]
    if idx:
        i = rng.choice(idx)
        new = [dict(e) for e in case]
        new[i]["n"] -= 1
        return new, "line %d: one response byte missing, no error" % i
    idx = [i for i, e in enumerate(case) if e["ev"] == "Handled"]
    if idx:
        new = [dict(e) for e in case]
        new[idx[0]]["same"] = False
        return new, "line %d: handler saw other header fields" % idx[0]
    return None


def describe(v):
    import re
    st = v.get("stimulus") or {}
    ln = v["trace"][v["line_in_case"]] if v.get("trace") and v["line_in_case"] < len(v["trace"]) else ""
    m = re.search(r'why \|->\s*"([^"]*)"', v.get("state", ""), re.S)
    which = ""
    try:
        e = json.loads(ln)
        if "id" in e and st.get("ops"):
            which = json.dumps(st["ops"][e["id"] - 1])[:500]
    except Exception:
        pass
    return "%s (%s): %s %s | line %s" % (v["inv"], m.group(1) if m else "", json.dumps(st.get("cfg"))[:200], which, ln[:260])


def run(replay=None):
    import re
    c = vlib.Check("C18", "H3Exchange")
    thorough = c.tier == "thorough"
    c.assumptions += [
        "request / response bodies are derived from (exchange, offset): any altered, missing or surplus byte is visible; header fields are compared as multisets per name with order kept, "
        "cookie fields after the RFC 6265 join; fields HTTP/3 carries differently (Host, Content-Length) are compared through their effect",
        "a body shorter or longer than its declared Content-Length must end the reader with an error; for HEAD / 204 / 304 no body is expected",
        "without injected faults every well-declared exchange must complete without error; with faults completion is required only for what the handler / client did see",
        "raw tier: expected answers follow RFC 9114 7.2.8 / 9 (unknown frame and stream types ignored), 4.1 / 7.2.x (H3_FRAME_UNEXPECTED = 0x105), 6.2.1 (H3_STREAM_CREATION_ERROR = 0x103)",
    ]
    if replay:
        cases = [json.load(open(os.path.join(replay, "stimulus.json")))]
    else:
        c.model_check("H3Exchange_MC.tla", "H3Exchange_MC.cfg", label="counting reader vs declared length, any cut point")
        knobs = [s[0] for s in c.enumerate("H3Knobs.tla", {}, timeout=1200) if s]
        c.rng.shuffle(knobs)
        knobs = knobs[:(2400 if not thorough else 30000)]
        scheds = c.enumerate("lib/NetFaults.tla", {"K": 1, "NDg": 10 if not thorough else 16, "Kinds": {"drop", "dup", "delay"}, "Dirs": {"c2s", "s2c"}})
        cases = []
        i = 0
        while i < len(knobs):
            n = c.rng.choice([1, 1, 2, 4, 8])
            grp = knobs[i:i + n]
            i += n
            faults = [dict(f) for f in c.rng.choice(scheds)] if c.rng.random() < 0.4 else []
            cases.append({"group": "ex", "cfg": {"tier": "ex", "client": c.rng.choice(["plain", "plain", "chrome115", "firefox116"]), "gzip": c.rng.random() < 0.5, "faults": faults},
                          "ops": [exchange(k, c.rng) for k in grp]})
        # bodies that disagree with their declaration, body sources that fail, tunnels
        for client in ("plain", "chrome115"):
            for n in (1, 1000, 70000):
                for at in (0, n // 2, max(0, n - 1)):
                    for decl in ("ok", "none"):
                        cases.append({"group": "ex", "cfg": {"tier": "ex", "client": client, "gzip": False, "faults": []},
                                      "ops": [{"method": "POST", "path": "/up", "reqhdrs": [], "reqbody": n, "reqchunk": 512, "reqdecl": decl, "reqfail": at,
                                               "status": 200, "rsphdrs": [], "rspbody": 4, "rspchunk": 10, "rspdecl": "ok", "rsptrailers": "none"}]})
            for rn in (1, 20, 5000):
                cases.append({"group": "ex", "cfg": {"tier": "ex", "client": client, "gzip": False, "faults": []},
                              "ops": [{"method": "CONNECT", "path": "/", "reqhdrs": [], "reqbody": 0, "reqchunk": 1, "reqdecl": "ok", "status": 200, "rsphdrs": [],
                                       "rspbody": rn, "rspchunk": 7, "rspdecl": "none", "rsptrailers": "none", "flush": True}]})
        # optional settings unset: a forbidden trailer name announced by the handler; the client abandons a response that has trailers
        for client in ("plain", "chrome115"):
            for tr in ("invalid", "declared", "prefix"):
                for abandon in (0, 10, 5000):
                    cases.append({"group": "ex", "cfg": {"tier": "ex", "client": client, "gzip": False, "faults": []},
                                  "ops": [{"method": "GET", "path": "/t", "reqhdrs": [], "reqbody": 0, "reqchunk": 1, "reqdecl": "ok", "status": 200, "rsphdrs": [],
                                           "rspbody": 200000, "rspchunk": 3000, "rspdecl": "none", "rsptrailers": tr, "flush": True, "abandon": abandon}]})
        # raw peer: request bodies against their declared length, frames, streams
        bodies = [{"op": "body", "n": n, "decl": d, "chunk": ch} for n in (0, 1, 5, 3000) for d in (-1, 0, 1, 5, 6, 3000, 2999) for ch in (1 << 20, 2)]
        for b in bodies:
            cases.append({"group": "raw", "cfg": {"tier": "raw"}, "ops": [b]})
        for rw in RAW:
            cases.append({"group": "raw", "cfg": {"tier": "raw"}, "ops": [rw]})
        c.parts.append({"step": "generate", "what": "failing body sources, CONNECT tunnels, raw request bodies vs declared length, raw frames / streams", "cases": len(cases), "exhaustive": False})
    c.samples = vlib.sample_cases(cases, c.rng, 2)
    groups = c.go_run("./http3", "TestVerifC18", cases, vlib.pkg_overlay("http3", "http3"), timeout=2400, crash_pkg="uquic/http3.")
    viols = c.validate_many(c.spec("H3Exchange_Trace.tla"), [{"label": g, "files": f, "constants": {}, "invariants": INV} for g, f in groups.items()], timeout=2400, max_iter=8)
    if not replay:
        c.require_events(["Sent", "Handled", "Wrote", "Received", "Completed", "Raw"])
        c.negative_control(c.spec("H3Exchange_Trace.tla"), groups["ex"], {}, INV, mutate, label="ex")
    for v in viols:
        m = re.search(r'why \|->\s*"([^"]*)"', v.get("state", ""), re.S)
        v["sig"] = {"inv": v["inv"], "why": m.group(1) if m else ""}
        try:
            e = json.loads(v["trace"][v["line_in_case"]])
            if e.get("ev") == "Raw":
                v["sig"]["what"] = e.get("what", "").split(" ")[0] + " " + e.get("what", "").split(" ")[1]   # e.g. "frame 0x3"
        except Exception:
            pass
    c.add_violations(viols, cases, describe)
    c.finish(rule="what the client application sent, what the handler saw and wrote, what the client saw are steps of H3Exchange (parts compared by the harness against position-derived content); "
                  "raw peer actions carry the expected RFC 9114 answer class")
