"""C17 - every way a connection ends unblocks callers, informs the peer, frees resources (specs/Teardown)."""
import json
import os

import vlib

INV = ["OneCause", "RightCause", "LateCallsFail", "Prompt", "Released", "NoLeak", "IdleTiming", "NoIdleWhileKeptAlive"]
CONST = {"Slack": "600", "MinRemote": "5000"}


def mk(k, rng, idle=None):
    cause = k["cause"]
    cfg = {"client": k["client"], "side": k["side"], "settle": rng.choice([0, 0, 30, 400]), "idle": 0, "keepalive": 0}
    if cause == "close_lossy":
        cfg["cause"], cfg["lossy"] = "close", True
        cfg["idle"] = 1500
    elif cause == "idle_writer":
        cfg["cause"], cfg["writer"] = "idle", True
        cfg["idle"] = idle or rng.choice([1000, 2000, 5000, 7000])
    elif cause == "idle":
        cfg["cause"] = "idle"
        cfg["idle"] = idle or rng.choice([1000, 2000, 5000, 7000])
    elif cause == "keepalive":
        cfg["cause"] = "keepalive"
        cfg["idle"] = idle or rng.choice([1000, 2000])
        cfg["keepalive"] = cfg["idle"] // 2
    else:
        cfg["cause"] = cause
        if rng.random() < 0.3:
            cfg["idle"] = 3000
    # the two sides configured differently; a fingerprint client that advertises no max_idle_timeout at all
    if cfg["idle"] and cause != "keepalive":
        cfg["smul"], cfg["cmul"] = rng.choice([(1, 1), (1, 1), (2, 1), (3, 1), (1, 2), (1, 3)])
        if k["client"] != "plain":
            cfg["cmul"] = 1    # what a fingerprint advertises is the fingerprint's, its Config value stays the smaller one (C12 covers the difference)
    if k["client"] != "plain":
        cfg["omitidle"] = rng.random() < 0.4
    cfg["backlog"] = bool(k.get("backlog"))
    ops = [{"side": "c", "call": x} for x in sorted(k["ccalls"])] + [{"side": "s", "call": x} for x in sorted(k["scalls"])]
    return {"group": "est", "cfg": cfg, "ops": ops}


def mutate(case, rng):
    idx = [i for i, e in enumerate(case) if e["ev"] == "Returned" and e["class"].startswith("app:")]
    if idx:
        i = rng.choice(idx)
        new = [dict(e) for e in case]
        new[i]["class"] = "idle"
        return new, "line %d: one call reports a different cause than the others" % i
    idx = [i for i, e in enumerate(case) if e["ev"] == "Quiesced"]
    if idx:
        new = [dict(e) for e in case]
        new[idx[0]]["routes"] = 1
        return new, "line %d: a routing entry left behind" % idx[0]
    return None


def describe(v):
    st = v.get("stimulus") or {}
    ln = v["trace"][v["line_in_case"]] if v.get("trace") and v["line_in_case"] < len(v["trace"]) else ""
    return "%s: %s calls %s | line %s" % (v["inv"], json.dumps(st.get("cfg")), json.dumps(st.get("ops"))[:300], ln[:220])


def run(replay=None):
    c = vlib.Check("C17", "Teardown")
    thorough = c.tier == "thorough"
    c.assumptions += [
        "one connection per case between a real client (plain / fingerprint) and the in-tree server over simnet in a synctest bubble; calls are blocked by construction "
        "(peer allows one stream, never reads, never writes, sends no datagram)",
        "promptly = within 600 ms of virtual time after the cause (RTT 10 ms); the idle timeout may fire up to 600 ms after it is due",
        "the idle period in force on a side = min(its Config.MaxIdleTimeout, the peer's advertised max_idle_timeout), an omitted parameter imposing no limit (RFC 9000 10.1); "
        "the sides are configured with different values and fingerprint clients advertise the fingerprint's value or, with SuppressTransportParameters, none",
        "a call made after the end (open, accept, datagram send/receive) must fail with the cause - success counts as a different cause",
        "an ACK-only datagram (< 60 bytes) does not count as data sent for the idle timer's restart",
        "whether the peer learns the cause is required only when the closing exchange is not lost; a stateless reset / transport shutdown leaves the peer to its idle timeout",
        "goroutine release: calls still blocked 3 s after the end are counted; the bubble must end (a leaked goroutine fails the run as a whole)",
    ]
    if replay:
        cases = [json.load(open(os.path.join(replay, "stimulus.json")))]
    else:
        c.model_check("Teardown_MC.tla", "Teardown_MC.cfg", label="first cause wins, fan-out (safety + liveness)")
        knobs = [s[0] for s in c.enumerate("TeardownKnobs.tla", {"Clients": {"plain", "chrome115"} if not thorough else {"plain", "chrome115", "firefox116"}}, timeout=1200) if s]
        if not thorough:
            c.rng.shuffle(knobs)
            knobs = knobs[:2500]
        cases = [mk(k, c.rng) for k in knobs]
        # idle timeouts and keep-alive periods from a range
        for idle in ([700, 1300, 2600, 4100, 9000] if not thorough else list(range(500, 12000, 700))):
            for cause in ("idle", "idle_writer", "keepalive"):
                for client in ("plain", "chrome115"):
                    cases.append(mk({"cause": cause, "side": "c", "client": client, "ccalls": ["read", "accept", "accept2"], "scalls": ["accept", "recvdgram"]}, c.rng, idle))
        # datagrams left unread at the end (known finding C17-recvdatagram-after-close): a few dedicated cases
        for cause in ("close", "idle", "transport_close"):
            cases.append(mk({"cause": cause, "side": "c", "client": "plain", "ccalls": ["read"], "scalls": ["accept"], "backlog": True}, c.rng))
        # causes during the handshake
        for client in ("plain", "chrome115"):
            for at in (3, 8, 12, 30, 200):
                cases.append({"group": "hs", "cfg": {"client": client, "cause": "dial_cancel", "side": "c", "at": at, "idle": 0, "keepalive": 0}, "ops": []})
            cases.append({"group": "hs", "cfg": {"client": client, "cause": "hstimeout", "side": "c", "idle": 0, "keepalive": 0}, "ops": []})
            cases.append({"group": "hs", "cfg": {"client": client, "cause": "alpn", "side": "c", "idle": 0, "keepalive": 0}, "ops": []})
        c.parts.append({"step": "generate", "what": "idle / keep-alive periods from a range; causes during the handshake (dial cancellation at several points, handshake timeout, ALPN mismatch)", "cases": len(cases) - len(knobs), "exhaustive": False})
    c.samples = vlib.sample_cases(cases, c.rng, 3)
    groups = c.go_run(".", "TestVerifC17", cases, vlib.pkg_overlay(".", "root"), timeout=2400)
    viols = c.validate_many(c.spec("Teardown_Trace.tla"), [{"label": g, "files": f, "constants": CONST, "invariants": INV} for g, f in groups.items()], timeout=2400, max_iter=12)
    if not replay:
        c.require_events(["Blocked", "Cause", "Returned", "Ctx", "Quiesced", "Delivered", "Sent"])
        c.negative_control(c.spec("Teardown_Trace.tla"), groups["est"], CONST, INV, mutate, label="est")
    for v in viols:
        st = (cases[v["case"]] if 0 <= v["case"] < len(cases) else {}).get("cfg", {})
        v["sig"] = {"inv": v["inv"], "cause": st.get("cause")}
        ln = v["trace"][v["line_in_case"]] if v.get("trace") and v["line_in_case"] < len(v["trace"]) else ""
        if '"class":"ok:' in ln:
            v["sig"]["late_ok"] = ln.split('"class":"ok:')[1].split('"')[0]
            v["sig"]["backlog"] = bool(st.get("backlog"))
    c.add_violations(viols, cases, describe)
    c.finish(rule="every blocked call, its return, the context cancellation, the cause, packet deliveries and data sends of one real connection are steps of Teardown; "
                  "Quiesced reports calls still blocked and routing entries left")
