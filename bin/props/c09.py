"""C09 - Initial CRYPTO framing always carries the complete ClientHello at true offsets (specs/CryptoTiling)."""
import json
import os

import vlib

INV = ["OnlyInitialFrames", "TrueOffsets", "CompleteOrRejected", "RejectedBeforeSend", "NeverStuck", "NeverPanics"]

EXT = {
    "sni1": {"t": "sni", "name": 1, "other": 0}, "sni10": {"t": "sni", "name": 10, "other": 0}, "sni40": {"t": "sni", "name": 40, "other": 0},
    "sni_other_first": {"t": "sni", "name": 12, "other": 1}, "sni_no_host": {"t": "sni", "name": -1, "other": 2},
    "ech1": {"t": "ech", "n": 1}, "ech5": {"t": "ech", "n": 5}, "ech12": {"t": "ech", "n": 12}, "ech13": {"t": "ech", "n": 13},
    "ech100": {"t": "ech", "n": 100}, "ech300": {"t": "ech", "n": 300},
    "fill0": {"t": "x", "n": 0}, "fill3": {"t": "x", "n": 3}, "fill20": {"t": "x", "n": 20}, "fill700": {"t": "x", "n": 700},
}


def rf(rng, length=None):
    a, b = sorted([rng.choice([0, 0, 1, 3]), rng.choice([0, 1, 2, 5])])
    c, d = sorted([rng.choice([1, 1, 2, 4]), rng.choice([1, 3, 6, 12])])
    e, f = sorted([rng.choice([1, 1, 2]), rng.choice([1, 3, 5])])
    return {"kind": "random", "minping": a, "maxping": b, "mincrypto": c, "maxcrypto": d, "minpad": e, "maxpad": f,
            "length": rng.choice([0, 0, 200, 1162, 1215]) if length is None else length}


def tiling(rng, n, shift):
    """a QUICFrames layout that tiles a slice of n bytes: pieces in any order, PADDING / PING interleaved, offsets shifted by shift"""
    k = min(n, rng.choice([1, 1, 2, 3, 6])) if n > 0 else 1
    cuts = sorted(rng.sample(range(1, n), k - 1)) if n > 1 and k > 1 else []
    bounds = [0] + cuts + [n]
    items = []
    for i in range(len(bounds) - 1):
        o, l = bounds[i], bounds[i + 1] - bounds[i]
        last = i == len(bounds) - 2
        items.append({"t": "c", "o": o + shift, "l": 0 if (last and (l == 0 or rng.random() < 0.5)) else l})
    if shift == 0:   # offsets relative to the slice (documented use); shifted = absolute offsets, as the packer's pass-through builds them: CRYPTO only
        for _ in range(rng.choice([0, 0, 1, 3])):
            items.append({"t": "p", "l": rng.choice([1, 5, 300])})
        for _ in range(rng.choice([0, 0, 1, 2])):
            items.append({"t": "g"})
    rng.shuffle(items)
    return items


def flight_tiling(rng, good):
    """QUICFlightFrames / QUICRandomFlightFrames ranges over a stream of unknown length >= 900: absolute, negative offsets and lengths"""
    variants = [
        [[(0, 600), (-200, 0)], [(600, -200)]],                      # Chrome-like: tail in the first datagram
        [[(0, 0)]],
        [[(0, 300)], [(300, 300)], [(600, 0)]],
        [[(-300, 0)], [(0, -300)]],
        [[(0, 500), (400, 0)]],                                      # overlapping, still complete
        [[(0, -1)], [(-1, 1)]],
    ]
    bad = [
        [[(0, 600)], [(700, 0)]],                                    # gap
        [[(0, 600)]],                                                # tail never sent
        [[(0, 100000)]],                                             # past the end
        [[(-100000, 0)]],                                            # before the start
        [[(100, 0)]],                                                # head never sent
        [[(0, 600), (600, -2000)]],                                  # end before start
        [],
    ]
    return rng.choice(variants if good else bad)


def builder_cases(c, thorough):
    rng = c.rng
    cases = []
    draws = 20 if not thorough else 100
    knobs = [s[0] for s in c.enumerate("TilingKnobs.tla", {}) if s]
    rng.shuffle(knobs)
    knobs = knobs[:(6000 if not thorough else 12000)]   # of 24k; measured: ~15k trace lines/s through TLC
    for k in knobs:
        fb = {"kind": "random", **{x: k[x] for x in ("minping", "maxping", "mincrypto", "maxcrypto", "minpad", "maxpad", "length")}}
        cases.append({"group": "random", "cfg": {"tier": "builder", "n": k["n"], "base": k["base"], "dg": 0, "draws": draws, "fb": fb,
                                                 "plainbuild": k["base"] == 0 and rng.random() < 0.3}, "ops": []})
    nt = 3000 if not thorough else 40000
    for _ in range(nt):
        n = rng.choice([0, 1, 2, 3, 9, 64, 500, 1162, 1700])
        shift = rng.choice([0, 0, 0, 1, 1162, 2500])
        base = rng.choice([0, 0, 0, 1, 1162, 70000])
        cases.append({"group": "frames", "cfg": {"tier": "builder", "n": n, "base": base, "origin": base + shift, "dg": rng.choice([0, 1, 3]), "draws": 1,
                                                 "fb": {"kind": "frames", "items": tiling(rng, n, shift)}, "plainbuild": rng.random() < 0.3}, "ops": []})
    for n in (0, 1, 5, 1162, 1700):
        cases.append({"group": "frames", "cfg": {"tier": "builder", "n": n, "base": 0, "dg": 0, "draws": 1, "fb": {"kind": "frames", "items": []}}, "ops": []})
    nm = 1000 if not thorough else 10000
    for _ in range(nm):
        per = [dict(rf(rng), kind="random") for _ in range(rng.choice([1, 2, 3]))]
        cases.append({"group": "multi", "cfg": {"tier": "builder", "n": rng.choice([0, 1, 40, 1162, 1700]), "base": rng.choice([0, 1162, 2324]),
                                                "dg": rng.choice([0, 1, 2, 7]), "draws": draws, "fb": {"kind": "multi", "per": per}}, "ops": []})
    cases.append({"group": "multi", "cfg": {"tier": "builder", "n": 100, "base": 0, "dg": 0, "draws": 1, "fb": {"kind": "multi", "per": []}}, "ops": []})
    nf = 2000 if not thorough else 20000
    for _ in range(nf):
        good = rng.random() < 0.6
        n = rng.choice([900, 1162, 1700, 2300, 4000]) if rng.random() < 0.8 else rng.choice([0, 1, 5, 300])
        fl = flight_tiling(rng, good)
        budgets = [{"max": rng.choice([1162, 1162, 1162, 400, 0])} for _ in range(rng.choice([1, 2, 3]))]
        if rng.random() < 0.5:
            dgs = [{"items": [{"t": "c", "o": o, "l": l} for (o, l) in dg] + [{"t": "p", "l": 7}] * rng.choice([0, 1]) + [{"t": "g"}] * rng.choice([0, 1])} for dg in fl]
            fb = {"kind": "flight", "datagrams": dgs}
        else:
            def tight(dg):
                # a Length that leaves only a few bytes (or none) for PADDING: the datagram's CRYPTO bytes + frame headers + 0..40
                tot = 0
                for (o, l) in dg:
                    st = o if o >= 0 else n + o
                    tot += max(0, l if l > 0 else n - st + l)
                return tot + rng.choice([0, 3, 4, 5, 6, 8, 10, 12, 16, 20, 30, 40])
            fb = {"kind": "rflight", "per": [{"ranges": [{"o": o, "l": l} for (o, l) in dg],
                                              "frames": rf(rng, rng.choice([0, 0, 1162]) if rng.random() < 0.6 else tight(dg))} for dg in fl]}
        cases.append({"group": "flight", "cfg": {"tier": "builder", "n": n, "base": 0, "dg": 0, "draws": draws if fb["kind"] == "rflight" else 1,
                                                 "fb": fb, "budgets": budgets, "good": good}, "ops": []})
    return cases


def scrambler_cases(c, thorough):
    rng = c.rng
    cases = []
    for s in c.enumerate("HelloLayouts.tla", {"L": 3 if not thorough else 4}):
        exts = [dict(EXT[o["a"]], id=i) for i, o in enumerate(s)]
        for _ in range(2):
            cases.append({"group": "scrambler", "cfg": {"tier": "scrambler", "exts": exts, "sid": rng.choice([0, 32]),
                                                        "chunks": rng.choice([[], [], [1], [5, 50], [3, 1, 100]]),
                                                        "budgets": rng.choice([[1200], [1200, 50, 7, 1], [1200, 30], [1200, 1150, 1000]])}, "ops": []})
    return cases


def wire_cases(c, thorough):
    rng = c.rng
    out = []
    fbs = [None, {"kind": "nil"}, {"kind": "frames", "items": []},
           dict(rf(rng, 1162)), dict(rf(rng, 0)), {"kind": "random", "minping": 0, "maxping": 1, "mincrypto": 2, "maxcrypto": 5, "minpad": 1, "maxpad": 3, "length": 900},
           {"kind": "multi", "per": [dict(rf(rng, 1162)), dict(rf(rng, 600))]},
           {"kind": "flight", "datagrams": [{"items": [{"t": "c", "o": 0, "l": 600}, {"t": "c", "o": -200, "l": 0}, {"t": "p", "l": 300}]}, {"items": [{"t": "c", "o": 600, "l": -200}, {"t": "g"}]}]},
           {"kind": "rflight", "per": [{"ranges": [{"o": 0, "l": 500}, {"o": -100, "l": 0}], "frames": rf(rng, 1162)}, {"ranges": [{"o": 500, "l": -100}], "frames": rf(rng, 0)}]},
           {"kind": "flight", "datagrams": [{"items": [{"t": "c", "o": 0, "l": 600}]}]}]   # incomplete: must be rejected before anything is sent
    bases = ["chrome115", "firefox116", "chrome146"] + (["chrome115v6", "firefox116c", "chrome146v6"] if thorough else [])
    for base in bases:
        for fb in fbs:
            for rep in range(2 if not thorough else 6):
                cfg = {"tier": "wire", "base": base, "ms": 1600, "rep": rep}
                if fb is not None:
                    cfg["fbx"] = fb
                out.append({"group": "wire", "cfg": cfg, "ops": []})
    return out


def mutate(case, rng):
    idx = [i for i, e in enumerate(case) if e["ev"] == "Frame" and e["type"] == "crypto" and e["len"] > 1]
    ends = [i for i, e in enumerate(case) if e["ev"] == "End" and not e["err"]]
    if idx and ends:
        i = rng.choice(idx)
        new = [dict(e) for e in case]
        kind = rng.choice(["short", "shift"])
        if kind == "short":
            new[i]["len"] -= 1
            return new, "line %d: a CRYPTO frame one byte shorter (truncated ClientHello)" % i
        new[i]["match"] = False
        return new, "line %d: bytes at a shifted offset" % i
    return None


def describe(v):
    st = v.get("stimulus") or {}
    ln = v["trace"][v["line_in_case"]] if v.get("trace") and v["line_in_case"] < len(v["trace"]) else ""
    return "%s: %s | line %s" % (v["inv"], json.dumps(st.get("cfg"))[:400], ln[:200])


def run(replay=None):
    c = vlib.Check("C09", "CryptoTiling")
    thorough = c.tier == "thorough"
    c.assumptions += [
        "builder tier: CRYPTO data bytes are derived from their absolute stream position, so a shifted / truncated / zero-extended range is visible as a byte mismatch; "
        "QUICFrames layouts are generated as tilings of their slice (the property's quantifier), flight ranges also as non-covering / out-of-range ones (must be rejected before anything is sent)",
        "flight builders are run the way planInitialFlight runs them: BuildFlight, then validateInitialFlight; only a validated plan counts as sent",
        "wire tier: the observer does not know the ClientHello; it requires that no two CRYPTO frames of any Initial packet (retransmissions included) disagree on a byte, "
        "that the reassembled bytes parse as a ClientHello and that coverage reaches the length announced in its handshake header",
    ]
    if replay:
        cases = [json.load(open(os.path.join(replay, "stimulus.json")))]
    else:
        c.model_check("CryptoTiling_MC.tla", "CryptoTiling_MC.cfg", label="incremental coverage = every byte carried")
        cases = builder_cases(c, thorough) + scrambler_cases(c, thorough) + wire_cases(c, thorough)
        c.parts.append({"step": "generate", "what": "seeded tilings / multi-datagram / flight parameterisations, wire configurations", "cases": len(cases), "exhaustive": False})
    c.samples = vlib.sample_cases(cases, c.rng, 3)
    # a builder that never returns is a crash of its own kind: per-case watchdog (real time; the cases take milliseconds; 30 s)
    groups = c.go_run(".", "TestVerifC09", cases, vlib.pkg_overlay(".", "root"), timeout=2400,
                      env={"VERIF_CASE_WATCHDOG": "30"}, crash_pkg="github.com/refraction-networking/uquic")
    viols = c.validate_many(c.spec("CryptoTiling_Trace.tla"), [{"label": g, "files": f, "constants": {}, "invariants": INV} for g, f in groups.items()], timeout=2400, max_iter=6)
    if not replay and not getattr(c, "partial", False):
        c.require_events(["Start", "Frame", "End", "Learn"])
        for g in ("random", "frames", "multi", "flight", "scrambler", "wire"):
            ok = 0
            for fn in groups.get(g, []):
                ok += sum(1 for ln in open(fn) if '"ev":"End"' in ln and '"err":false' in ln)
            if ok == 0:
                c.fail_machinery("dead driver: group %s never produced an accepted framing" % g)
        c.negative_control(c.spec("CryptoTiling_Trace.tla"), groups["frames"], {}, INV, mutate, label="frames")
    for v in viols:
        st = (cases[v["case"]] if 0 <= v["case"] < len(cases) else {}).get("cfg", {})
        v["sig"] = {"inv": v["inv"], "tier": st.get("tier"), "fb": (st.get("fb") or st.get("fbx") or {}).get("kind")}
    c.add_violations(viols, cases, describe)
    c.finish(rule="every frame a builder returns / the scrambler pops / a dial puts on the wire is one Frame step of CryptoTiling; "
                  "End judges completeness or rejection before anything was sent")
