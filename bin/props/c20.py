"""C20 - congestion window and pacing bounds (specs/Congestion)."""
import json
import os

import vlib

INV = ["CwndBounds", "ShrinkOnlyOnLoss", "OncePerWindow", "GrowOnlyLimited", "SendGate", "PacerBound"]
CONST = {"MaxPkts": "10000", "MinPkts": "2", "LimitPkts": "3"}
PATTERNS = {0: ([0], []), 1: ([-1], []), 2: ([], [0]), 3: ([], [-1]), 4: ([0, 0], []), 5: ([1], [0])}

PRELUDES = {
    "fresh": [],
    # eight loss epochs: the window falls 32 -> 22 -> ... -> 2 packets
    "floor": sum(([{"op": "Send", "n": 2, "gate": False}, {"op": "AckLoss", "ack": [], "lose": [-1], "rtt": 0}] for _ in range(9)), []) +
             [{"op": "AckLoss", "ack": [0, 0, 0, 0, 0, 0, 0, 0, 0], "lose": [], "rtt": 30000000}],
    # one loss, recovery left: congestion avoidance
    "ca": [{"op": "Send", "n": 40, "gate": True}, {"op": "AckLoss", "ack": [], "lose": [0], "rtt": 0},
           {"op": "Send", "n": 2, "gate": False}, {"op": "Tick", "d": 30000000},
           {"op": "AckLoss", "ack": [-1], "lose": [], "rtt": 30000000}],
}


def named(o):
    op = o["op"]
    if op == "Send":
        return {"op": "Send", "n": o["a"], "gate": True, "ae": o["b"] == 1, "size": 0}
    if op == "SendSmall":
        return {"op": "Send", "n": 1, "gate": True, "ae": True, "size": 100}
    if op == "AckLoss":
        a, l = PATTERNS[o["a"]]
        return {"op": "AckLoss", "ack": a, "lose": l, "rtt": 25000000}
    if op == "Tick":
        return {"op": "Tick", "d": o["a"]}
    if op == "Mtu":
        return {"op": "Mtu", "mss": o["a"]}
    if op == "Rto":
        return {"op": "Rto", "retx": True}
    return {"op": op}


def walk(rng, length):
    """seeded random history: bursts, app-limited periods, loss epochs, MTU increases, odd clocks"""
    ops = []
    mss_next = [1252, 1280, 1350, 1452, 1500, 9000]
    for _ in range(length):
        r = rng.random()
        if r < 0.30:
            ops.append({"op": "Send", "n": rng.choice([1, 1, 2, 5, 12, 50]), "gate": rng.random() < 0.85,
                        "ae": rng.random() < 0.9, "size": rng.choice([0, 0, 0, 40, 700]), "gap": rng.choice([0, 0, 1000, 300000])})
        elif r < 0.55:
            k = rng.choice([1, 1, 2, 4, 10])
            ops.append({"op": "AckLoss", "ack": [rng.choice([0, 0, 0, -1, 1, 3]) for _ in range(k)],
                        "lose": [], "rtt": rng.choice([0, 1000, 25000000, 25000000, 80000000, 3000000000])})
        elif r < 0.68:
            ops.append({"op": "AckLoss", "ack": [0] * rng.choice([0, 0, 1, 3]), "lose": [rng.choice([0, 0, -1, 1])] * rng.choice([1, 1, 2]),
                        "rtt": rng.choice([0, 25000000])})
        elif r < 0.82:
            ops.append({"op": "Tick", "d": rng.choice([1, 1000, 100000, 1000000, 2000000, 25000000, 10**9, 10**12, 2**61, -1, -1000, -10**9])})
        elif r < 0.92:
            ops.append({"op": "Budget"})
        elif r < 0.95:
            ops.append({"op": "Mtu", "mss": rng.choice(mss_next)})
        elif r < 0.97:
            ops.append({"op": "Rto", "retx": rng.random() < 0.7})
        elif r < 0.98:
            ops.append({"op": "Migr"})
        elif r < 0.99:
            ops.append({"op": "Rtt", "rtt": rng.choice([1, 1000, 10**7, 10**10])})
        else:
            ops.append({"op": "CanSend"})
    return ops


def scripted():
    """the window at its configured maximum: slow start to 10000 packets, one loss, congestion avoidance back up and beyond"""
    out = []
    for reno in (True, False):
        ops = [{"op": "Bulk", "n": 10200, "gap": 1000, "rtt": 25000000},
               {"op": "Send", "n": 1, "gate": False}, {"op": "AckLoss", "ack": [], "lose": [0], "rtt": 0},
               {"op": "Bulk", "n": 26000000 if reno else 400000, "gap": 1000 if reno else 100000, "rtt": 25000000},
               {"op": "Mtu", "mss": 1452}, {"op": "Bulk", "n": 20000, "gap": 1000, "rtt": 25000000}, {"op": "Budget"}]
        out.append({"group": "max", "cfg": {"reno": reno, "mss": 1280, "t0": 10**12, "what": "maxwindow"}, "ops": ops})
    return out


def hwalk(rng, length):
    """handler tier: the connection's send loop against ACKs that leave gaps (losses by reordering threshold), PTOs, MTU increases"""
    ops = []
    for _ in range(length):
        r = rng.random()
        if r < 0.40:
            ops.append({"op": "Send", "n": rng.choice([1, 2, 5, 12, 40]), "size": rng.choice([0, 0, 0, 300])})
        elif r < 0.75:
            ops.append({"op": "Ack", "k": rng.choice([1, 1, 2, 3, 8, 30]), "skip": rng.choice([0, 0, 0, 1, 2, 4, 10])})
        elif r < 0.88:
            ops.append({"op": "Tick", "d": rng.choice([10, 1000, 25000, 200000, 3000000])})
        elif r < 0.95:
            ops.append({"op": "Timeout"})
        else:
            ops.append({"op": "Mtu", "mss": rng.choice([1280, 1350, 1452])})
    return ops


def mutate(case, rng):
    idx = [i for i, e in enumerate(case) if e["ev"] == "Acked"]
    if idx and rng.random() < 0.5:
        i = rng.choice(idx)
        new = [dict(e) for e in case]
        new[i]["cwnd"] = new[i]["cwnd"] - 1
        for j in range(i + 1, len(new)):
            if "cwnd" in new[j] and new[j]["ev"] in ("Sent", "Budget", "CanSend"):
                new[j]["cwnd"] = new[i]["cwnd"]
            else:
                break
        return new, "line %d: window shrinks on an acknowledgement" % i
    idx = [i for i, e in enumerate(case) if e["ev"] == "Budget"]
    if idx:
        i = rng.choice(idx)
        new = [dict(e) for e in case]
        new[i]["b"] = new[i]["burst"] + 1
        return new, "line %d: budget above one burst" % i
    idx = [i for i, e in enumerate(case) if e["ev"] == "CanSend" and not e["ok"]]
    if idx:
        i = rng.choice(idx)
        new = [dict(e) for e in case]
        new[i]["ok"] = True
        return new, "line %d: CanSend true with the window full" % i
    return None


def describe(v):
    st = v.get("stimulus") or {}
    ln = v["trace"][v["line_in_case"]] if v.get("trace") and v["line_in_case"] < len(v["trace"]) else ""
    return "%s (%s): line %s" % (v["inv"], json.dumps(st.get("cfg")), ln)


def sig_of(v):
    ln = json.loads(v["trace"][v["line_in_case"]]) if v.get("trace") and v["line_in_case"] < len(v["trace"]) else {}
    return {"inv": v["inv"], "ev": ln.get("ev")}


def run(replay=None):
    c = vlib.Check("C20", "Congestion")
    thorough = c.tier == "thorough"
    c.assumptions += [
        "the sender is driven through its SendAlgorithm methods with the harness keeping bytes in flight as sentPacketHandler does "
        "(one priorInFlight per ACK, losses before acknowledgements); packet numbers increase",
        "the pacer's products credit = ceil(1.25*cwnd*elapsed/srtt) and burst = max(10*mss, ceil(1.25*cwnd*2ms/srtt)) are computed "
        "exactly by the harness from the inputs it fed (TLC integers are 32 bit) and capped at 2^29; PacerBucket.tla shows the per-call bound implies the interval bound",
        "one burst is 10 packets of the pacer's own datagram size, which stays protocol.InitialPacketSize until the first MTU update (also when a smaller initial size is configured)",
        "window-limited is read as cubic_sender.isCwndLimited defines it (flight >= window, or at most 3 packets of room, or more than half used in slow start)",
    ]
    is_h = False
    if replay:
        cases = [json.load(open(os.path.join(replay, "stimulus.json")))]
        is_h = cases[0]["cfg"].get("tier") == "handler"
    else:
        c.model_check("Congestion_MC.tla", "Congestion_MC.cfg", label="reference sender")
        c.model_check("PacerBucket.tla", "PacerBucket.cfg", label="token bucket => interval bound")
        cases = []
        L = 3
        seqs = c.enumerate("Congestion_Env.tla", {"L": L})
        for pre in PRELUDES:
            for reno in (True, False):
                for mss in ((1200, 1280) if not thorough else (1200, 1252, 1280, 1452)):
                    if not thorough and pre == "fresh" and mss == 1200 and not reno:
                        continue
                    for s in seqs:
                        cases.append({"group": "enum", "cfg": {"reno": reno, "mss": mss, "t0": 10**12, "pre": pre},
                                      "ops": PRELUDES[pre] + [named(o) for o in s]})
        nw = 3000 if not thorough else 40000
        for i in range(nw):
            cases.append({"group": "walk", "cfg": {"reno": c.rng.random() < 0.5, "mss": c.rng.choice([1200, 1252, 1280, 1452]),
                                                   "t0": c.rng.choice([1, 10**12, 2**62]), "pre": "walk"},
                          "ops": (PRELUDES["floor"] if c.rng.random() < 0.25 else []) + walk(c.rng, c.rng.choice([30, 80, 200]))})
        c.parts.append({"step": "generate", "what": "seeded random histories (bursts, app-limited periods, loss epochs, MTU increases, clock steps back and huge)", "cases": nw, "exhaustive": False})
        cases += scripted()
    c.samples = vlib.sample_cases(cases, c.rng, 3)
    for s in c.samples:
        s["ops"] = s["ops"][:12]
    viols = []
    if not is_h:
        groups = c.go_run("./internal/congestion", "TestVerifC20", cases, vlib.pkg_overlay("internal/congestion", "congestion"))
        jobs = [{"label": g, "files": files, "constants": CONST, "invariants": INV} for g, files in groups.items()]
        viols = c.validate_many(c.spec("Congestion_Trace.tla"), jobs, timeout=2400, max_iter=6)
    if not replay:
        c.require_events(["Sent", "Acked", "Lost", "Mtu", "Budget", "CanSend", "ExitSS", "Rto", "Migr"])
        c.negative_control(c.spec("Congestion_Trace.tla"), groups["walk"], CONST, INV, mutate, label="walk")
    # handler tier: the same clauses on the controller as driven by the real sentPacketHandler, plus SendMode vs bytes in flight
    if not replay or is_h:
        if replay:
            hcases, cases, viols = cases, [], []
        else:
            nh = 2000 if not thorough else 20000
            hcases = [{"group": "handler", "cfg": {"mss": c.rng.choice([1200, 1252, 1280]), "tier": "handler"},
                       "ops": hwalk(c.rng, c.rng.choice([40, 120, 300]))} for _ in range(nh)]
            c.parts.append({"step": "generate", "what": "seeded random histories for the handler tier (send loop obeying SendMode, ACKs with gaps, PTOs, MTU increases)", "cases": nh, "exhaustive": False})
        hgroups = c.go_run("./internal/ackhandler", "TestVerifC20H", hcases, vlib.pkg_overlay("internal/ackhandler", "ackhandler"), outname="htraces",
                           env={"VERIF_CASE_BASE": str(len(cases))})
        hv = c.validate_many(c.spec("Congestion_Trace.tla"), [{"label": g, "files": f, "constants": CONST, "invariants": INV} for g, f in hgroups.items()], timeout=2400, max_iter=6)
        for v in hv:
            v["tier"] = "handler"
        viols += hv
        cases = cases + hcases
        if not replay:
            c.require_events(["Sent", "Acked", "Lost", "Mtu", "CanSend", "ExitSS"])
    c.add_violations(viols, cases, describe)
    c.finish(rule="every call of the congestion controller (sent / acked / lost / slow-start exit / RTO / migration / MTU / budget / CanSend) "
                  "is one action of Congestion.tla carrying the observed window; the clauses are invariants over the recorded step")
