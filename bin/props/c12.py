"""C12 - a spec-driven client enforces exactly the limits it advertises (specs/AdvertisedLimits)."""
import json
import os

import vlib

INV = ["Collected"]
KINDS = ["stream_uni_read", "stream_uni", "stream_bidi_local", "stream_bidi_remote", "conn", "streams_uni", "streams_bidi", "cids", "cids_rpt", "datagram", "idle"]
CLIENTS = ["chrome115", "chrome146", "firefox116", "chrome115+suppress", "firefox116c", "firefox116+suppress", "chrome115+shuffle+udp1350", "firefox116+pn+cid"]
CONFIGS = ["default", "small", "large", "dgram", "idle5", "maxwin", "mirror"]
BELOW = {"default", "small", "dgram", "idle5", "maxwin"}   # Config windows / stream counts below what the built-in specs advertise


def sig_of(v):
    st = v.get("stimulus") or {}
    cfg = st.get("cfg") or {}
    tr = [json.loads(x) for x in v.get("trace", [])]
    err = " ".join(e.get("err", "") for e in tr if e.get("ev") == "ClientErr")
    cls = "none"
    for k in ("FLOW_CONTROL_ERROR", "STREAM_LIMIT_ERROR", "CONNECTION_ID_LIMIT_ERROR", "PROTOCOL_VIOLATION", "FRAME_ENCODING_ERROR", "IdleTimeoutError", "timeout"):
        if k in err:
            cls = k
            break
    return {"kind": cfg.get("kind"), "config": cfg.get("config"), "errclass": cls, "config_below_advertised": cfg.get("config") in BELOW, "family": "firefox" if cfg.get("client", "").startswith("firefox") else "chrome"}


def mutate(case, rng):
    idx = [i for i, e in enumerate(case) if e["ev"] == "Use"]
    if not idx:
        return None
    i = rng.choice(idx)
    new = [dict(e) for e in case]
    new.insert(i + 1, {"ev": "ClientErr", "err": "FLOW_CONTROL_ERROR (local)"})
    return new, "after line %d: client raised a local error although the peer stayed within the advertised limit" % i


def describe(v):
    st = v.get("stimulus") or {}
    errs = [json.loads(x).get("err") for x in v.get("trace", []) if '"ClientErr"' in x]
    adv = [json.loads(x).get("adv") for x in v.get("trace", []) if '"Adv"' in x]
    return "%s: cfg %s client error %s advertised %s" % (v["inv"], json.dumps(st.get("cfg")), errs[:1], json.dumps(adv[:1]))


def run(replay=None):
    c = vlib.Check("C12", "AdvertisedLimits")
    thorough = c.tier == "thorough"
    c.assumptions += [
        "the in-tree server is the conformant peer (it obeys the client's transport parameters as it parsed them); advertised values are read from the ClientHello on the wire by the independent observer",
        "each case exercises one advertised limit up to its boundary: stream windows (slow reader, fast sender), connection window, stream counts, connection IDs (incl. a Retire-Prior-To replacement at the limit), DATAGRAM size (capped to what fits one packet), silence until 1.5 s below the advertised idle timeout",
        "the client's own record is the qlog parameters_set event (initiator local)",
    ]
    if replay:
        cases = [json.load(open(os.path.join(replay, "stimulus.json")))]
    else:
        c.model_check("AdvertisedLimits_MC.tla", "AdvertisedLimits_MC.cfg")
        cases = []
        for cl in (CLIENTS if thorough else CLIENTS[:4]):
            for cf in CONFIGS:
                for k in KINDS:
                    cases.append({"group": "all", "cfg": {"client": cl, "config": cf, "kind": k}, "ops": []})
        c.parts.append({"step": "enumerate", "what": "client x Config variant x limit kind lattice", "sequences": len(cases), "exhaustive": True})
    cases = vlib.filter_cases(cases)
    c.samples = vlib.sample_cases(cases, c.rng, 3)
    groups = c.go_run(".", "TestVerifC12", cases, vlib.pkg_overlay(".", "root"), timeout=3000)
    jobs = [{"label": g, "files": files, "constants": {"MaxV": "100000000"}, "invariants": INV} for g, files in groups.items()]
    viols = c.validate_many(c.spec("AdvertisedLimits_Trace.tla"), jobs, timeout=2400)
    for v in viols:
        if 0 <= v["case"] < len(cases):
            v["stimulus"] = cases[v["case"]]
        v["sig"] = sig_of(v)
    if not replay:
        c.require_events(["Adv", "Record", "Plan", "Use", "End"])
        c.negative_control(c.spec("AdvertisedLimits_Trace.tla"), groups["all"], {"MaxV": "100000000"}, INV, mutate, label="all")
    c.add_violations(viols, cases, describe)
    c.finish(rule="built-in and derived fingerprint specs x 6 user Config variants x 10 limit kinds; per case one real connection whose peer uses the limit to the full; traces validated against AdvertisedLimits")
