"""C10 - the Initial flight's headers, numbering, token and sizes are as the spec says (specs/InitialFlight).
Also hosts the shared flight machinery used by C11."""
import json
import os

import vlib

INV = ["Collected"]


def knobs_to_cfg(kn, dials=2):
    cfg = {"base": kn["base"], "dcidlen": kn["dcid"], "scidlen": kn["scid"], "pn0": kn["pn0"], "dials": dials}
    pm = kn["pnmode"]
    if pm == "single1":
        cfg["pnlen"] = 1
        cfg["pnlens"] = []
    elif pm == "single4":
        cfg["pnlen"] = 4
        cfg["pnlens"] = []
    elif pm == "list12":
        cfg["pnlen"] = 0
        cfg["pnlens"] = [1, 2]
    elif pm == "list434_single1":
        cfg["pnlen"] = 1
        cfg["pnlens"] = [4, 3, 4]
    else:
        cfg["pnlen"] = 0
        cfg["pnlens"] = []
        del cfg["pnlen"]
        del cfg["pnlens"]
    t = kn["tok"]
    if t == "pre3len32":
        cfg.update({"tokpre": "c3ec05", "toklen": 32, "tokprelen": 3})
    elif t == "pre8len4":
        cfg.update({"tokpre": "00c3ec05a1b2c3d4", "toklen": 4, "tokprelen": 8})
    elif t == "len16":
        cfg.update({"tokpre": "", "toklen": 16, "tokprelen": 0})
    elif t == "explicit12":
        cfg.update({"tokpre": "0102030405060708090a0b0c", "toklen": 0, "tokprelen": 12})
    elif t == "none":
        cfg.update({"tokpre": "", "toklen": 0, "tokprelen": 0})
    fb = kn["fb"]
    if fb == "nil":
        cfg["fb"] = "nil"
    elif fb == "random_plan999":
        cfg["fb"] = "random"
        cfg["fbp"] = {"minping": 0, "maxping": 3, "mincrypto": 1, "maxcrypto": 4, "minpad": 1, "maxpad": 3, "length": 1215}
        cfg["plan"] = [{"crypto": 1000, "size": 0}]
    elif fb == "random_tight":
        cfg["fb"] = "random"
        cfg["fbp"] = {"minping": 1, "maxping": 1, "mincrypto": 2, "maxcrypto": 2, "minpad": 1, "maxpad": 1, "length": 0}
        cfg["plan"] = [{"crypto": 200, "size": 1250}]
    elif fb == "random_short_plan1000":
        cfg["fb"] = "random"
        cfg["fbp"] = {"minping": 0, "maxping": 2, "mincrypto": 2, "maxcrypto": 4, "minpad": 1, "maxpad": 3, "length": 900}
        cfg["plan"] = [{"crypto": 1000, "size": 1200}, {"crypto": 0, "size": 1200}]
    if kn["udp"]:
        cfg["udpmin"] = kn["udp"]
    return cfg


def sig_of(v):
    st = v.get("stimulus") or {}
    tr = [json.loads(x) for x in v.get("trace", [])]
    i = min(v.get("line_in_case", 0), len(tr) - 1) if tr else 0
    e = tr[i] if tr else {}
    return {"ev": e.get("ev"), "base": (st.get("cfg") or {}).get("base")}


def describe(v):
    st = v.get("stimulus") or {}
    ln = v["trace"][v["line_in_case"]] if v.get("trace") and v["line_in_case"] < len(v["trace"]) else ""
    cfg = dict(st.get("cfg") or {})
    return "%s: knobs %s line %s" % (v["inv"], json.dumps(cfg)[:400], ln[:500])


def mutate(case, rng):
    idx = [i for i, e in enumerate(case) if e["ev"] == "Pkt"]
    if not idx:
        return None
    i = rng.choice(idx)
    new = [dict(e) for e in case]
    new[i]["pn"] = new[i]["pn"] + 1
    return new, "line %d: packet number skips one" % i


def run(replay=None, pid="C10"):
    c = vlib.Check(pid, "InitialFlight")
    thorough = c.tier == "thorough"
    c.assumptions += [
        "the client dials into a socket that never answers; only the first flight (before the first PTO, 150 ms) is judged",
        "Initial packets are decrypted by the independent observer with the keys derived from the first destination connection ID",
        "a fresh QUICSpec value is built from the knobs for every dial (reusing one value across dials is C02's subject)",
    ]
    if replay:
        cases = [json.load(open(os.path.join(replay, "stimulus.json")))]
    else:
        c.model_check("Suppress_MC.tla", "Suppress_MC.cfg")
        bases = {"chrome115", "firefox116", "chrome146"} if not thorough else {"chrome115", "chrome146", "firefox116", "firefox116c", "chrome115v6"}
        seqs = c.enumerate("FlightKnobs.tla", {"Bases": bases}, timeout=1200)
        cases = []
        for s in seqs:
            if not s:
                continue
            if s[0]["pn0"] == 70000 and s[0]["pnmode"] not in ("single4", "list434_single1"):
                continue  # a first packet number that its encoding cannot carry is not decodable by any server: outside the property
            cfg = knobs_to_cfg(s[0], dials=2 if not thorough else 3)
            cases.append({"group": "flight", "cfg": cfg, "ops": []})
        if not thorough:
            c.rng.shuffle(cases)
            cases = cases[:3000]
        # built-in fingerprints as they are, many dials (per-dial randomness such as Chrome's padding draws)
        for b in ("chrome115", "chrome115v6", "chrome146", "chrome146v6", "firefox116", "firefox116b", "firefox116c"):
            cases.append({"group": "flight", "cfg": {"base": b, "dials": 20 if not thorough else 100}, "ops": []})
    cases = vlib.filter_cases(cases)
    c.samples = vlib.sample_cases(cases, c.rng, 3)
    groups = c.go_run(".", "TestVerifC10", cases, vlib.pkg_overlay(".", "root"), timeout=1500)
    jobs = [{"label": g, "files": files, "constants": {}, "invariants": INV} for g, files in groups.items()]
    viols = c.validate_many(c.spec("InitialFlight.tla"), jobs, timeout=2400)
    for v in viols:
        if 0 <= v["case"] < len(cases):
            v["stimulus"] = cases[v["case"]]
        v["sig"] = sig_of(v)
    if not replay:
        c.require_events(["Reported", "DialStart", "Pkt", "CH", "DialEnd", "End"])
        c.negative_control(c.spec("InitialFlight.tla"), groups["flight"], {}, INV, mutate, label="flight")
    c.add_violations(viols, cases, describe)
    c.finish(rule="TLC enumerates the product of InitialPacketSpec knobs (connection-ID lengths, first packet number, packet-number length modes incl. list + deprecated single value, "
                  "token modes incl. prefix longer than length, frame builder / per-datagram plan, minimum datagram size) over base fingerprints; each is dialled 2-3 times into a silent socket; "
                  "built-in fingerprints 20-100 dials; every decrypted first-flight packet is validated against InitialFlight")
