"""C03 - stream / CRYPTO reassembly (specs/Reassembly)."""
import json
import os

import vlib

INV = ["NoDivergence", "CompletionRule", "CompletionOnce", "DeliveredIsPrefix", "EOFOnlyAtFinal",
       "NeverBeyondFinal", "WithinLimit", "CryptoWithinLimit", "GapBound"]

# cell lattices: sizes on both sides of the 128-byte copy threshold of the frame sorter
LATTICES = {
    "stream": {"off": [0, 1, 128, 257, 385], "limit": 257, "impl": "stream"},       # P=4; point 4 lies beyond the receive window
    "streamS": {"off": [0, 2, 4, 6, 8], "limit": 8, "impl": "stream"},
    "sorter": {"off": [0, 1, 128, 257, 385, 449], "limit": 0, "impl": "sorter"},    # P=5
    "crypto": {"off": [0, 1, 128, 256, 16384, 16385], "limit": 16384, "impl": "crypto"},
}


def named(o):
    op = o["op"]
    if op == "Push":
        return {"op": "Push", "a": o["a"], "b": o["b"], "fin": o["f"]}
    if op == "ResetStream":
        return {"op": "ResetStream", "fp": o["a"], "rp": o["b"], "code": o["c"]}
    if op == "Cancel":
        return {"op": "Cancel", "code": o["c"]}
    if op in ("Read", "Peek"):
        return {"op": op, "k": o["a"]}
    return {"op": op}


def constants(lat):
    P = len(lat["off"]) - 1
    return {"P": str(P), "Off": "<- OffDef", "Limit0": str(lat["limit"]), "MaxGaps": "1000",
            "Impl": '"%s"' % lat["impl"], "Codes": "{7, 9}"}


def defs(lat):
    return "OffDef == [i \\in 0..P |-> %s[i+1]]" % vlib.tla_val(lat["off"])


def mutate(case, rng):
    """negative control: corrupt one property-relevant field of a recorded trace"""
    idx = [i for i, e in enumerate(case) if e["ev"] in ("Read", "Done", "Pop") and e.get("n", 0) > 0]
    if idx:
        i = rng.choice(idx)
        new = [dict(e) for e in case]
        kind = rng.choice(["shift", "content", "dup_release"])
        if kind == "shift":
            new[i]["n"] = new[i]["n"] + 100000
            return new, "line %d: delivered byte count raised beyond what was received" % i
        if kind == "content":
            new[i]["cok"] = False
            return new, "line %d: delivered bytes differ from the original" % i
        rel = [e for e in new[: i + 1] if e.get("rel")]
        if rel:
            new[i]["rel"] = list(new[i].get("rel", [])) + [rel[0]["rel"][0]]
            return new, "line %d: buffer %d released a second time" % (i, rel[0]["rel"][0])
        new[i]["cok"] = False
        return new, "line %d: delivered bytes differ from the original" % i
    return None


def describe(v):
    st = v.get("stimulus") or {}
    ln = v["trace"][v["line_in_case"]] if v.get("trace") and v["line_in_case"] < len(v["trace"]) else ""
    return "%s on %s: line %s after stimulus %s" % (v["inv"], (st.get("cfg") or {}).get("impl"), ln, json.dumps(st.get("ops")))


def run(replay=None):
    c = vlib.Check("C03", "Reassembly")
    thorough = c.tier == "thorough"
    c.assumptions += [
        "bytes are compared by the executor against a position-derived content function; the spec sees only counts and a content_ok flag",
        "the receive limit moves only through getControlFrame (WindowUpdate stimulus); connection-level window is unbounded here (C04 covers it)",
        "exhaustive within the stated lattice/length bounds; TLC -simulate walks beyond",
        "harness built with go1.26 (testing/synctest) from /repo's working tree with -tags verif",
    ]
    if replay:
        cases = [json.load(open(os.path.join(replay, "stimulus.json")))]
    else:
        # (0) abstract model
        for impl in ("stream", "sorter", "crypto"):
            c.model_check("Reassembly_MC.tla", "Reassembly_MC_%s.cfg" % impl)
        # (1) stimuli
        cases = []
        # measured: stream L=4 is 5.7M sequences, streamlite L=5 11.8M - the thorough tier deepens the two smaller alphabets
        # and the walks instead (the whole set has to fit in 16 GB)
        plan = [("stream", "stream", 4, 3),
                ("streamS", "streamlite", 4, 4),
                ("sorter", "sorter", 5, 4 if not thorough else 5),
                ("crypto", "crypto", 5, 4 if not thorough else 5)]
        for lat, kind, P, L in plan:
            seqs = c.enumerate("Reassembly_Env.tla", {"P": P, "L": L, "Kind": kind})
            for s in seqs:
                cases.append({"group": lat, "cfg": LATTICES[lat], "ops": [named(o) for o in s]})
        # model-guided random walks (TLC -simulate on the specification itself)
        for lat, impl, P in (("stream", "stream", 4), ("sorter", "sorter", 5), ("crypto", "crypto", 5)):
            walks = c.simulate("Reassembly_Sim.tla", {"P": P, "Off": "<- OffId", "Limit0": 3 if impl != "crypto" else 4,
                                                      "MaxGaps": 1000, "Impl": impl, "Codes": {7}, "D": 14 if not thorough else 40},
                               num=2000 if not thorough else 10000, depth=14 if not thorough else 40, spec="SimSpec")
            for s in walks:
                cases.append({"group": lat, "cfg": LATTICES[lat], "ops": [named(o) for o in s]})
        # the gap limit (1000 gaps) - scripted: odd cells of a 2100-cell lattice
        cases += gap_cases()
    c.samples = vlib.sample_cases(cases, c.rng, 3)
    # (2) execute on the real code
    # measured: 3.1 M cases take ~12 min on an idle 16-core box; the go test deadline leaves room for a loaded one
    groups = c.go_run(".", "TestVerifC03", cases, vlib.pkg_overlay(".", "root"), timeout=900 if not thorough else 5400)
    # (3) validate
    jobs = []
    for g, files in groups.items():
        lat = LATTICES.get(g) or gap_lattice(g)
        jobs.append({"label": g, "files": files, "constants": constants(lat), "defs": defs(lat),
                     "invariants": INV if g in LATTICES else ["NoDivergence", "GapBound"]})
    viols = c.validate_many(c.spec("Reassembly_Trace.tla"), jobs)
    if not replay:
        c.require_events(["Push", "Read", "Peek", "Done", "Pop", "Finish", "ResetStream", "Cancel", "Shutdown", "WindowUpdate"])
        g = "stream"
        c.negative_control(c.spec("Reassembly_Trace.tla"), groups[g], constants(LATTICES[g]), INV, mutate, defs=defs(LATTICES[g]), label=g)
    c.add_violations(viols, cases, describe)
    c.finish(rule="TLC enumerates every stimulus sequence of length L over the op alphabet (Reassembly_Env) per lattice, plus TLC -simulate "
                  "walks of the specification; each is executed on frameSorter / ReceiveStream+StreamFlowController / cryptoStream and the "
                  "recorded trace is validated line by line against Reassembly (results bound to the spec's allowed outcomes)")


def gap_lattice(g):
    n = 2100
    return {"off": list(range(n + 1)), "limit": 1 << 20 if g != "gapsC" else 16384, "impl": "stream" if g == "gapsS" else ("sorter" if g == "gapsQ" else "crypto")}


def gap_cases():
    out = []
    for g in ("gapsS", "gapsQ", "gapsC"):
        lat = gap_lattice(g)
        ops = [{"op": "Push", "a": i, "b": i + 1, "fin": False} for i in range(1, 2100, 2)]
        ops += [{"op": "Read", "k": 10}] if g == "gapsS" else [{"op": "Pop"}]
        out.append({"group": g, "cfg": lat, "ops": ops})
        # descending order, then fill a gap and read
        ops2 = [{"op": "Push", "a": i, "b": i + 1, "fin": False} for i in range(1997, 0, -2)]
        ops2 += [{"op": "Push", "a": 0, "b": 1, "fin": False}, {"op": "Push", "a": 2, "b": 3, "fin": False}]
        ops2 += [{"op": "Read", "k": 10}] if g == "gapsS" else [{"op": "Pop"}, {"op": "Pop"}]
        out.append({"group": g, "cfg": lat, "ops": ops2})
    return out
