"""C14 - unvalidated clients get at most 3x their bytes; tokens prove only their address (specs/AddressValidation)."""
import json
import os

import vlib

INV = ["AmplificationBound", "TokensProveOnlyTheirAddress"]
CONST = {"Factor": "3"}


def apalache_inductive(c):
    """unbounded step: the amplification bound is an inductive invariant (Apalache, symbolic)"""
    import shutil, subprocess, tempfile, time
    wd = tempfile.mkdtemp(prefix="apalache.", dir=c.work)
    shutil.copy(c.spec("AmpInductive.tla"), wd)
    t0 = time.time()
    for args in (["--init=Init", "--length=0"], ["--init=IndInit", "--length=1"]):
        try:
            p = subprocess.run(["apalache-mc", "check", "--cinit=ConstInit", "--inv=IndInv"] + args + ["AmpInductive.tla"], cwd=wd,
                               stdout=subprocess.PIPE, stderr=subprocess.STDOUT, text=True, timeout=600)
        except subprocess.TimeoutExpired:
            c.fail_machinery("apalache timed out on AmpInductive " + " ".join(args))
        if "EXITCODE: OK" not in p.stdout:
            c.fail_machinery("apalache did not prove AmpInductive %s:\n%s" % (" ".join(args), p.stdout[-2000:]))
    shutil.rmtree(wd, ignore_errors=True)
    c.parts.append({"step": "apalache", "module": "AmpInductive.tla", "what": "Init => IndInv; IndInv /\\ Next => IndInv' for all byte counts, datagrams 1..MaxDg (MaxDg symbolic in 1..65535)",
                    "wall_s": round(time.time() - t0, 1), "exhaustive": True})
    vlib.log("[C14] apalache: amplification bound is an inductive invariant (unbounded), %.1fs" % (time.time() - t0))


def token_case(rng, seq):
    ops = []
    nid = 0
    for o in seq:
        if o["op"] == "Issue":
            nid += 1
            ops.append({"op": "Issue", "id": nid, "kind": o["a"], "addr": o["b"]})
        elif o["op"] == "Tick":
            ops.append({"op": "Tick", "d": o["a"]})
        else:
            if nid == 0:
                continue
            ops.append({"op": "Present", "id": rng.randrange(1, nid + 1), "mut": o["a"], "k": rng.randrange(0, 4000), "addr": o["b"], "otherkey": o["c"] == "other"})
    return {"group": "tokens", "cfg": {"tier": "tokens", "retrylife": 100, "toklife": 1000}, "ops": ops}


def token_walk(rng):
    ops = []
    nid = 0
    for _ in range(rng.choice([5, 12, 30])):
        r = rng.random()
        if r < 0.25 or nid == 0:
            nid += 1
            ops.append({"op": "Issue", "id": nid, "kind": rng.choice(["retry", "new"]), "addr": rng.choice(["a", "b", "a6", "b6", "tcp"])})
        elif r < 0.4:
            ops.append({"op": "Tick", "d": rng.choice([1, 50, 99, 100, 101, 500, 999, 1001, 5000])})
        else:
            ops.append({"op": "Present", "id": rng.randrange(1, nid + 1), "mut": rng.choice(["none", "none", "none", "trunc", "flip", "flip", "extend", "empty", "prefix"]),
                        "k": rng.randrange(0, 4000), "addr": rng.choice(["a", "a2", "am", "b", "a6", "b6", "tcp"]), "otherkey": rng.random() < 0.15})
    return {"group": "tokens", "cfg": {"tier": "tokens", "retrylife": rng.choice([100, 400]), "toklife": rng.choice([1000, 3000])}, "ops": ops}


def mutate(case, rng):
    idx = [i for i, e in enumerate(case) if e["ev"] == "Present" and not e["accepted"] and (e["mut"] != "none" or not e["samekey"])]
    if idx and rng.random() < 0.5:
        i = rng.choice(idx)
        new = [dict(e) for e in case]
        new[i]["accepted"] = True
        return new, "line %d: an altered token accepted as proof of address" % i
    idx = [i for i, e in enumerate(case) if e["ev"] == "S2C"]
    if idx:
        new = [dict(e) for e in case]
        # the server sends a lot before anything validated the address
        first = idx[0]
        for k in range(6):
            new.insert(first, {"ev": "S2C", "size": 1252})
        return new, "line %d: six extra server datagrams before the address is validated" % first
    return None


def describe(v):
    st = v.get("stimulus") or {}
    ln = v["trace"][v["line_in_case"]] if v.get("trace") and v["line_in_case"] < len(v["trace"]) else ""
    return "%s: %s ops %s | line %s" % (v["inv"], json.dumps(st.get("cfg")), json.dumps(st.get("ops"))[:300], ln[:200])


def run(replay=None):
    c = vlib.Check("C14", "AddressValidation")
    thorough = c.tier == "thorough"
    c.assumptions += [
        "wire tier: bytes are counted at the router - every datagram delivered to the server from the client's address (genuine or injected) and every datagram the server sends; "
        "the address counts as validated once a genuine client Handshake packet, or an Initial carrying the token of the Retry received, has been delivered",
        "the bound is checked per datagram the server sends: before it, bytes sent < 3 x bytes delivered (so at most the one permitted datagram goes beyond)",
        "the sent_packet_handler-level statement (SendMode None while blocked, for every event history) is validated by C06's LossRecovery traces (AmpBound, ModeNoneWhenBlocked)",
        "token tier: the server's sequence DecodeToken -> validateToken is run in-package in a synctest bubble (virtual clock); a UDP address is identified by its IP (the token does not bind the port)",
    ]
    if replay:
        cases = [json.load(open(os.path.join(replay, "stimulus.json")))]
    else:
        c.model_check("AddressValidation_MC.tla", "AddressValidation_MC.cfg", label="reference server vs every arrival pattern")
        apalache_inductive(c)
        cases = []
        for s in c.enumerate("Tokens_Env.tla", {"L": 4}):
            cases.append(token_case(c.rng, s))
        for _ in range(5000 if not thorough else 50000):
            cases.append(token_walk(c.rng))
        # wire tier: TLC-enumerated fault schedules x configurations x injections
        scheds = c.enumerate("lib/NetFaults.tla", {"K": 1, "NDg": 4 if not thorough else 6, "Kinds": {"drop", "dup", "delay"}, "Dirs": {"c2s", "s2c"}}, label="faults")
        clients = ["plain", "chrome115"] + (["firefox116", "chrome146"] if thorough else [])
        injs = [None, "junk0rtt", "junkcoalesced", "junkhandshake"]
        n = 0
        for client in clients:
            for certkb in (6, 16):
                for retry in (False, True):
                    for inj in injs:
                        for sch in ([[]] + scheds):
                            n += 1
                            if not thorough and sch and (n % 3) != 0:
                                continue
                            ops = [dict(f) for f in sch]
                            if inj:
                                ops.append({"op": "inject", "what": inj, "after": 1})
                            cases.append({"group": "amp", "cfg": {"tier": "amp", "client": client, "certkb": certkb, "retry": retry, "inj": inj or ""}, "ops": ops})
        # the losses that matter most: every client datagram after the first lost for a while
        for client in clients:
            for certkb in (6, 16):
                for inj in injs:
                    ops = [{"dir": "c2s", "from": 2, "to": 4, "kind": "drop"}]
                    if inj:
                        ops.append({"op": "inject", "what": inj, "after": 1})
                    cases.append({"group": "amp", "cfg": {"tier": "amp", "client": client, "certkb": certkb, "retry": False, "inj": inj or ""}, "ops": ops})
        # resumed connections with 0-RTT data answered by 200 kB of 0.5-RTT data while the client's later datagrams are lost
        for at in ((12, 17, 25) if not thorough else (8, 12, 14, 17, 20, 25, 40)):
            for dur in (400, 1500):
                cases.append({"group": "amp", "cfg": {"tier": "amp", "zerortt": True, "client": "plain", "inj": "", "certkb": 0, "retry": False},
                              "ops": [{"dir": "c2s", "kind": "blackout", "at": at, "dur": dur}]})
    c.samples = vlib.sample_cases(cases, c.rng, 3)
    groups = c.go_run(".", "TestVerifC14", cases, vlib.pkg_overlay(".", "root"), timeout=2400)
    viols = c.validate_many(c.spec("AddressValidation_Trace.tla"), [{"label": g, "files": f, "constants": CONST, "invariants": INV} for g, f in groups.items()], timeout=2400, max_iter=6)
    if not replay:
        c.require_events(["C2S", "S2C", "Issue", "Present", "Tick"])
        acc = sum(1 for fn in groups["tokens"] for ln in open(fn) if '"ev":"Present"' in ln and '"accepted":true' in ln)
        okd = sum(1 for fn in groups["amp"] for ln in open(fn) if '"ev":"End"' in ln and '"ok":true' in ln)
        if acc == 0 or okd == 0:
            c.fail_machinery("dead driver: no token was ever accepted (%d) / no handshake ever completed (%d)" % (acc, okd))
        c.negative_control(c.spec("AddressValidation_Trace.tla"), groups["amp"], CONST, INV, mutate, label="amp")
    for v in viols:
        st = (cases[v["case"]] if 0 <= v["case"] < len(cases) else {}).get("cfg", {})
        v["sig"] = {"inv": v["inv"], "inj": st.get("inj", ""), "tier": st.get("tier")}
    c.add_violations(viols, cases, describe)
    c.finish(rule="every datagram delivered to / sent by the server is one step of AddressValidation (bytes counted at the router); "
                  "every token issued / presented is one step with the server's verdict")
