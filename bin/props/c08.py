"""C08 - wire codecs are total, consistent with their length predictions, and round-trip (specs/Codec)."""
import json
import os

import vlib

INV = ["Consistent"]
PARSERS = ["frames", "connid", "short", "long", "vn", "tp", "varint"]


def mutate(case, rng):
    idx = [i for i, e in enumerate(case) if e["ev"] == "Value" and e["parsed"]]
    if idx:
        i = rng.choice(idx)
        new = [dict(e) for e in case]
        new[i]["predicted"] += 1
        return new, "line %d: predicted length off by one" % i
    return None


def describe(v):
    import re
    st = v.get("stimulus") or {}
    m = re.search(r'why \|->\s*"((?:[^"\\]|\\.)*)"', v.get("state", ""), re.S)
    return "%s (%s): %s" % (v["inv"], (m.group(1) if m else "")[:600], json.dumps(st.get("cfg"))[:200])


def run(replay=None):
    import re
    c = vlib.Check("C08", "Codec")
    thorough = c.tier == "thorough"
    c.assumptions += [
        "the byte-level comparison (equality of parsed and original values, bytes consumed) is the harness's; the specification states what must hold of every observation and supplies the expected length of every variable-length integer",
        "ACK delays are compared up to the granularity of the ack delay exponent; STREAM frames up to their DataLenPresent flag",
        "byte strings are seeded random (biased towards valid frame types / header forms), not coverage-guided: the fuzzing/ entry points of the repository are not used",
        "session tickets and address-validation tokens: tokens are covered by C14's mutation tier",
    ]
    if replay:
        cases = [json.load(open(os.path.join(replay, "stimulus.json")))]
    else:
        cases = []
        knobs = [s[0] for s in c.enumerate("CodecKnobs.tla", {}, timeout=1200) if s]
        for k in knobs:
            cases.append({"group": "value", "cfg": {"tier": "value", "kind": k["kind"]}, "ops": [{"b": b} for b in k["f"]]})
        for s in c.enumerate("Varints.tla", {"Lo": 0, "Hi": 17000}):
            if s:
                cases.append({"group": "varint", "cfg": {"tier": "varint", "lo": s[0]["lo"], "hi": s[0]["hi"]}, "ops": []})
        cases.append({"group": "varint", "cfg": {"tier": "varint"}, "ops": []})
        nb = 40 if not thorough else 600
        for parser in PARSERS:
            for i in range(nb):
                cases.append({"group": "batch", "cfg": {"tier": "batch", "parser": parser, "seed": c.seed * 100000 + i, "n": 3000}, "ops": []})
        cases.append({"group": "range", "cfg": {"tier": "range"}, "ops": []})
        c.parts.append({"step": "generate", "what": "seeded batches of 3000 byte strings per parser x %d; out-of-range values" % nb, "cases": nb * len(PARSERS) + 1, "exhaustive": False})
    c.samples = vlib.sample_cases(cases, c.rng, 3)
    groups = c.go_run("./internal/wire", "TestVerifC08", cases, vlib.pkg_overlay("internal/wire", "wire"), timeout=2400)
    viols = c.validate_many(c.spec("Codec_Trace.tla"), [{"label": g, "files": f, "constants": {}, "invariants": INV} for g, f in groups.items()], timeout=2400, max_iter=8)
    if not replay:
        c.require_events(["Value", "Varint", "Batch", "Range"])
        c.negative_control(c.spec("Codec_Trace.tla"), groups["value"], {}, INV, mutate, label="value")
    for v in viols:
        m = re.search(r'why \|->\s*"((?:[^"\\]|\\.)*)"', v.get("state", ""), re.S)
        why = m.group(1) if m else ""
        v["sig"] = {"inv": v["inv"], "why": re.split(r"[\[:]", why)[0][:60]}
    c.add_violations(viols, cases, describe)
    c.finish(rule="every encoded value, every variable-length integer, every batch of byte strings and every out-of-range value is one step of Codec carrying what the real encoder / parser did")
