"""C06 - loss recovery bookkeeping (specs/LossRecovery); also serves the amplification clause of C14."""
import json
import os

import vlib

INV = ["NoDivergence", "InFlightBalanced", "ResolvedGone", "TimerObligation", "NumbersInOrder", "AmpBound", "ModeNoneWhenBlocked"]
KINDS = {0: "norm", 1: "mtu", 2: "probe", 3: "norm"}


def named(o):
    op = o["op"]
    if op == "Send":
        return {"op": "Send", "s": o["a"], "nf": o["b"], "kind": KINDS[o["c"]], "zr": o["c"] == 3, "size": 1200 if o["b"] > 0 else 40}
    if op == "Ack":
        return {"op": "Ack", "s": o["a"], "pat": o["b"]}
    if op == "Tick":
        return {"op": "Tick", "d": o["a"]}
    if op in ("QueueProbe", "Drop", "RecvPacket"):
        return {"op": op, "s": o["a"]}
    if op == "RecvBytes":
        return {"op": op, "n": o["a"]}
    return {"op": op}


def constants(g):
    return {"MaxPN": "100000", "Persp": '"%s"' % ("client" if g == "client" else "server"), "Amp": "3",
            "PreValidated": "TRUE" if g == "serverV" else "FALSE"}


def walks(rng, n, length, persp):
    out = []
    for _ in range(n):
        ops = []
        for i in range(length):
            r = rng.random()
            if r < 0.45:
                s = rng.choice([2, 2, 2, 2, 0, 1])
                if s == 2:
                    c = rng.choice([0, 0, 0, 0, 1, 2, 3])
                    nf = rng.choice([0, 1, 1, 2]) if c == 0 else 1
                else:
                    c, nf = 0, rng.choice([0, 1, 1])
                ops.append({"op": "Send", "s": s, "nf": nf, "kind": KINDS[c], "zr": c == 3, "size": rng.choice([40, 400, 1199, 1200, 1201]) if nf else 40})
            elif r < 0.70:
                s = rng.choice([2, 2, 2, 0, 1])
                ops.append({"op": "Ack", "s": s, "pat": rng.choice([0, 1, 2, 3, 5, 8, 0, 2, 3, 6, 7] if s == 2 else [0, 5])})
            elif r < 0.80:
                ops.append({"op": "Tick", "d": rng.choice([1, 50, 2000])})
            elif r < 0.88:
                ops.append({"op": "Timeout"})
            elif r < 0.92:
                ops.append({"op": "QueueProbe", "s": rng.choice([0, 1, 2])})
            elif r < 0.95:
                ops.append({"op": "RecvBytes", "n": rng.choice([1, 400, 1199, 1200, 1201])})
            elif r < 0.97:
                ops.append({"op": "Drop", "s": rng.choice([0, 1, 3])})
            elif r < 0.98:
                ops.append({"op": "RecvPacket", "s": 1})
            elif r < 0.99:
                ops.append({"op": "Migrated"})
            else:
                ops.append({"op": "Retry"})
        out.append({"group": persp, "cfg": {"persp": persp, "validated": False}, "ops": ops})
    return out


def amp_cases(rng, n):
    """C14: server, unvalidated client: arrivals of various sizes, sends as long as permitted"""
    out = []
    for _ in range(n):
        ops = []
        for i in range(rng.randrange(6, 30)):
            r = rng.random()
            if r < 0.35:
                ops.append({"op": "RecvBytes", "n": rng.choice([1, 400, 1199, 1200, 1201])})
            elif r < 0.9:
                s = rng.choice([0, 0, 1])
                nf = rng.choice([0, 1, 1, 1])
                ops.append({"op": "Send", "s": s, "nf": nf, "kind": "norm", "zr": False, "size": rng.choice([1, 400, 1199, 1200, 1201, 1452])})
            elif r < 0.95:
                ops.append({"op": "Timeout"})
            else:
                ops.append({"op": "RecvPacket", "s": rng.choice([0, 1])})
        out.append({"group": "server", "cfg": {"persp": "server", "validated": False}, "ops": ops})
    return out


def probe_cases(rng, n):
    """several path probes outstanding at once, timing out together or acknowledged / lost in various orders"""
    out = []
    for _ in range(n):
        ops = []
        if rng.random() < 0.7:
            ops.append({"op": "Drop", "s": 1})
        for i in range(rng.randrange(3, 12)):
            r = rng.random()
            if r < 0.55:
                ops.append({"op": "Send", "s": 2, "nf": 1, "kind": "probe", "zr": False, "size": 1200})
            elif r < 0.8:
                k = rng.choice(["norm", "norm", "mtu"])
                ops.append({"op": "Send", "s": 2, "nf": rng.choice([0, 1, 2]) if k == "norm" else 1, "kind": k, "zr": False, "size": 400})
            elif r < 0.9:
                ops.append({"op": "Tick", "d": rng.choice([1, 50, 600, 2000])})
            else:
                ops.append({"op": "Ack", "s": 2, "pat": rng.choice([0, 1, 2, 3, 5, 8])})
        for i in range(rng.randrange(1, 6)):
            ops.append(rng.choice([{"op": "Tick", "d": 2000}, {"op": "Tick", "d": 600}, {"op": "Timeout"}, {"op": "Timeout"},
                                   {"op": "Ack", "s": 2, "pat": rng.choice([0, 1, 2, 3, 5, 8])}, {"op": "Migrated"},
                                   {"op": "Send", "s": 2, "nf": 1, "kind": "probe", "zr": False, "size": 1200}]))
        g = rng.choice(["client", "serverV"])
        out.append({"group": g, "cfg": {"persp": "client" if g == "client" else "server", "validated": True}, "ops": ops})
    return out


def skipped_sets(case):
    """numbers skipped in the application space, in order, as seen in the trace"""
    sk = []
    for e in case:
        if e.get("ev") == "Retry":
            sk = []
        if e.get("ev") in ("Send", "Timeout") and (e.get("s", "a") == "a"):
            sk += list(e.get("skips", []))
    return sk


def sig_of(v):
    """signature for known-findings matching"""
    tr = [json.loads(x) for x in v.get("trace", [])]
    i = v.get("line_in_case", 0)
    if i >= len(tr):
        return {}
    e = tr[i]
    sig = {"ev": e.get("ev")}
    if e.get("ev") == "Ack" and e.get("res") == "ok" and e.get("s") == "a":
        sk = skipped_sets(tr[:i])
        covered = set()
        for lo, hi in e.get("ranges", []):
            covered |= set(range(lo, hi + 1))
        hit = [x for x in sk if x in covered]
        if hit:
            recent = set(sk[-4:])
            sig["kind"] = "ack_for_skipped_accepted"
            sig["only_older_than_4_most_recent_skips"] = all(x not in recent for x in hit)
    return sig


def mutate(case, rng):
    idx = [i for i, e in enumerate(case) if e["ev"] == "Ack" and e.get("res") == "ok" and e.get("acked")]
    if idx:
        i = rng.choice(idx)
        new = [dict(e) for e in case]
        kind = rng.choice(["dup_cb", "inflight"])
        if kind == "dup_cb":
            j = [k for k in range(i + 1, len(new)) if new[k]["ev"] in ("Ack", "Timeout", "Migrated") and new[k].get("res", "ok") == "ok"]
            if j:
                new[j[0]]["lost"] = list(new[j[0]].get("lost", [])) + [new[i]["acked"][0]]
                return new, "line %d: frame %s reported lost after it had been reported acked" % (j[0], new[i]["acked"][0])
        new[i]["inf"] = new[i]["inf"] + 1200
        return new, "line %d: bytes in flight 1200 too high" % i
    return None


def describe(v):
    st = v.get("stimulus") or {}
    ln = v["trace"][v["line_in_case"]] if v.get("trace") and v["line_in_case"] < len(v["trace"]) else ""
    return "%s (%s): line %s" % (v["inv"], (st.get("cfg") or {}).get("persp"), ln[:400])


def run(replay=None, pid="C06"):
    c = vlib.Check(pid, "LossRecovery")
    thorough = c.tier == "thorough"
    c.assumptions += [
        "bytes in flight, history contents and the alarm are read in-package after every call (projection of the concrete state)",
        "which packets are declared lost is not constrained beyond 'older than the largest acknowledged' (thresholds are not the property)",
        "the application-space packet number generator is replaced by the real skipping generator with a short period so that skips are frequent",
        "exhaustive for sequences of 3 stimuli; seeded random walks of 40-120 stimuli beyond (10x as many in the thorough tier)",
    ]
    if replay:
        cases = [json.load(open(os.path.join(replay, "stimulus.json")))]
    else:
        for cfg in ("app", "hs", "retry"):
            c.model_check("LossRecovery_MC.tla", "LossRecovery_MC_%s.cfg" % cfg)
        cases = []
        seqs = c.enumerate("LossRecovery_Env.tla", {"L": 3}, timeout=3000)   # 39 letters: L = 4 would be 2.3M sequences per perspective; the thorough tier adds walks
        for persp in ("client", "server"):
            for s in seqs:
                cases.append({"group": persp, "cfg": {"persp": persp, "validated": False}, "ops": [named(o) for o in s]})
        nw = 1500 if not thorough else 20000
        for persp in ("client", "server"):
            cases += walks(c.rng, nw, 60 if not thorough else 120, persp)
        cases += amp_cases(c.rng, 2000 if not thorough else 20000)
        cases += probe_cases(c.rng, 3000 if not thorough else 30000)
        # scripted: more than 4 skips, then an ACK for the oldest skipped number (known finding C06-old-skipped-ack)
        cases.append({"group": "client", "cfg": {"persp": "client", "validated": False},
                      "ops": [{"op": "Send", "s": 2, "nf": 1, "kind": "norm", "zr": False, "size": 100}] * 80 + [{"op": "Ack", "s": 2, "pat": 7}]})
        c.parts.append({"step": "generate", "what": "seeded random walks (both perspectives) and server amplification scenarios", "cases": 2 * nw + (2000 if not thorough else 20000), "exhaustive": False})
    c.samples = vlib.sample_cases(cases, c.rng, 3)
    for s in c.samples:
        s["ops"] = s["ops"][:10]
    groups = c.go_run("./internal/ackhandler", "TestVerifC06", cases, vlib.pkg_overlay("internal/ackhandler", "ackhandler"))
    jobs = [{"label": g, "files": files, "constants": constants(g), "invariants": INV} for g, files in groups.items()]
    viols = c.validate_many(c.spec("LossRecovery_Trace.tla"), jobs, timeout=2400)
    for v in viols:
        v["sig"] = sig_of(v)
    if not replay:
        c.require_events(["Send", "Ack", "Timeout", "QueueProbe", "Drop", "Retry", "Migrated", "RecvBytes", "RecvPacket", "Blocked"])
        c.negative_control(c.spec("LossRecovery_Trace.tla"), groups["client"], constants("client"), INV, mutate, label="client")
    c.add_violations(viols, cases, describe)
    c.finish(rule="TLC enumerates every sequence of L stimuli over the alphabet of LossRecovery_Env (sends in three spaces incl. MTU/path probes and 0-RTT, "
                  "ACK patterns incl. unsent and skipped numbers, ticks, timer expiry, probes, key drops, Retry, migration, received bytes/packets), both perspectives; "
                  "seeded random walks beyond; every callback, the history, bytes in flight, alarm and send mode are validated against LossRecovery")
