"""C01 - stream data intact, in order, exactly once under network faults (specs/StreamXfer)."""
import json
import os

import vlib

INV = ["NoDivergence", "ReadIsPrefix", "EOFAfterAll", "DgramAtMostOnce", "CompleteIfNoError", "CompleteOnQuiescence"]
SCEN = {"multi": ("1..4", "{}"), "many": ("1..100", "{}"), "bulk": ("1..1", "{}"), "dgram": ("1..1", "1..200")}
KINDS = {"drop": 0, "dup": 0, "delay": 60, "flip": 77, "trunc": 30}


def constants(g):
    sc = g.split("_")[0]
    return {"Streams": "<- StDef", "DgramIds": "<- DgDef"}


def defs(g):
    return "DgDef == " + SCEN[g.split("_")[0]][1] + "\nStDef == " + SCEN[g.split("_")[0]][0]


def fault(f):
    return {"dir": f["dir"], "from": f["from"], "to": f["from"], "kind": f["kind"], "arg": KINDS[f["kind"]]}


def mutate(case, rng):
    idx = [i for i, e in enumerate(case) if e["ev"] == "Read" and e.get("n", 0) > 0]
    if not idx:
        return None
    i = rng.choice(idx)
    new = [dict(e) for e in case]
    k = rng.choice(["content", "early_eof", "beyond"])
    if k == "content":
        new[i]["cok"] = False
        return new, "line %d: bytes read differ from bytes written" % i
    if k == "early_eof" and new[i]["res"] == "ok":
        new[i]["res"] = "eof"
        return new, "line %d: end of stream reported before all bytes" % i
    new[i]["n"] += 10000000
    return new, "line %d: more bytes read than were written" % i


def describe(v):
    st = v.get("stimulus") or {}
    ln = v["trace"][v["line_in_case"]] if v.get("trace") and v["line_in_case"] < len(v["trace"]) else ""
    return "%s: cfg %s faults %s line %s" % (v["inv"], json.dumps(st.get("cfg")), json.dumps(st.get("ops")), ln[:300])


def run(replay=None):
    c = vlib.Check("C01", "StreamXfer")
    thorough = c.tier == "thorough"
    c.assumptions += [
        "whole connections run in a go1.26 synctest bubble over testutils/simnet (5 ms one-way latency); time is virtual",
        "faults of the enumerated schedules are confined to the first datagrams / short blackouts, so the path is never dead for longer than the 20 s idle timeout: every transfer must complete",
        "consecutive successful reads of a stream are logged in aggregate (at most 64 reads per line); a byte mismatch flushes immediately",
        "API-level observation only (what writers offered, what readers got); packet-level conformance is covered by the component checks C03/C04/C06/C07",
    ]
    if replay:
        cases = [json.load(open(os.path.join(replay, "stimulus.json")))]
    else:
        c.model_check("StreamXfer_Net.tla", "StreamXfer_Net.cfg")
        cases = []
        # fault schedules enumerated by TLC
        kinds = {"drop", "dup", "delay", "flip", "trunc"}
        s1 = c.enumerate("lib/NetFaults.tla", {"K": 1, "NDg": 12 if not thorough else 16, "Kinds": kinds, "Dirs": {"c2s", "s2c"}})
        s2 = c.enumerate("lib/NetFaults.tla", {"K": 2, "NDg": 6 if not thorough else 12, "Kinds": {"drop", "delay", "dup"} if not thorough else kinds, "Dirs": {"c2s", "s2c"}})
        scheds = {json.dumps(s, sort_keys=True): s for s in s1 + s2}.values()
        clients = ["plain", "chrome115"] if not thorough else ["plain", "unil", "chrome115", "chrome146", "firefox116"]
        for cl in clients:
            for ver in ((1,) if cl != "plain" else (1, 2)):
                for sched in scheds:
                    cases.append({"group": "multi", "cfg": {"client": cl, "version": ver, "scenario": "multi"}, "ops": [fault(f) for f in sched]})
        # bulk transfers with blackouts at various times (congestion-limited sender), both directions
        for at in ([20, 35, 60, 100, 150, 300, 700] if not thorough else list(range(10, 800, 15))):
            for dur in (300, 1000, 2500):
                for d in ("both", "c2s", "s2c"):
                    cases.append({"group": "bulk", "cfg": {"client": "plain", "version": 1, "scenario": "bulk"},
                                  "ops": [{"dir": d, "kind": "blackout", "at": at, "dur": dur}]})
        # an application-idle period close to the idle timeout, then an upload into a short outage (shorter than the idle timeout)
        for idle in ([3000, 6000] if not thorough else [2000, 3000, 4500, 6000, 10000]):
            for q in (50, 70, 80, 90):
                for o in (20, 30, 40):
                    # the outage hits the direction the acknowledgements travel in: the receiver of the data keeps hearing from the
                    # sender, the sender's idle timer restarts with its first ack-eliciting packet after the quiet period (RFC 9000 10.1).
                    # (An outage on the data direction makes the receiver's silence quiet + outage + PTO back-off: a legitimate timeout.)
                    for up in ("c", "s"):
                        cases.append({"group": "bulk", "cfg": {"client": "plain", "version": 1, "scenario": "quiet", "idle": idle, "up": up,
                                                               "quiet": idle * q // 100, "outage": idle * o // 100, "odir": "s2c" if up == "c" else "c2s"}, "ops": []})
        # datagrams sharing packets with stream data; reordering by delaying every k-th datagram
        for k in ([5, 20] if not thorough else [3, 5, 7, 10, 20, 50]):
            for d in (30, 100, 250):
                for dr in ("c2s", "both"):
                    cases.append({"group": "dgram", "cfg": {"client": "plain", "version": 1, "scenario": "dgram"},
                                  "ops": [{"dir": dr, "kind": "delayevery", "arg": k, "dur": d, "from": 8}]})
        # many short streams closed at staggered times under random loss (seeded)
        for seed in range(1, 41 if not thorough else 401):
            for rate in (20, 40, 80):
                cases.append({"group": "many", "cfg": {"client": "plain", "version": 1, "scenario": "many"},
                              "ops": [{"dir": "both", "kind": "rand", "arg": rate, "at": seed + 1000 * c.seed, "from": 8}]})
        # reordering beyond the loss-detection threshold (spurious retransmissions, split differently because other streams share
        # the packets) combined with random loss: late originals meet partly read retransmissions
        for k in ([3, 4, 7] if not thorough else [2, 3, 4, 5, 7, 11]):
            for d in ([15, 25, 40, 80] if not thorough else [12, 15, 20, 25, 40, 60, 80, 150]):
                for rate in (0, 30, 80):
                    for seed in range(1, 3 if not thorough else 6):
                        for sc in ("many", "multi"):
                            cases.append({"group": sc, "cfg": {"client": "plain", "version": 1, "scenario": sc},
                                          "ops": [{"dir": "both", "kind": "rand", "arg": rate, "at": seed + 77 * c.seed, "from": 8},
                                                  {"dir": "both", "kind": "delayevery", "arg": k, "dur": d, "from": 8}]})
        for f in ("drop", "dup"):
            for o in range(6, 40, 3):
                cases.append({"group": "dgram", "cfg": {"client": "plain", "version": 1, "scenario": "dgram"},
                              "ops": [{"dir": "c2s", "from": o, "to": o + 1, "kind": f, "arg": 0}]})
    c.samples = vlib.sample_cases(cases, c.rng, 3)
    # a panic of the code under test in a reader's goroutine ends the process (recovering it would leave the stream's mutex locked):
    # the cases that do so on their own are reported as traces with a Panic event, which no action of StreamXfer explains
    groups = c.go_run(".", "TestVerifC01", cases, vlib.pkg_overlay(".", "root"), timeout=3000, crash_pkg="github.com/refraction-networking/uquic")
    jobs = [{"label": g, "files": files, "constants": constants(g), "defs": defs(g), "invariants": INV} for g, files in groups.items()]
    viols = c.validate_many(c.spec("StreamXfer_Trace.tla"), jobs, timeout=2400)
    if not replay and not getattr(c, "partial", False):
        c.require_events(["WriteStart", "WriteEnd", "CloseW", "Read", "DgramSend", "DgramRecv", "End"])
        c.negative_control(c.spec("StreamXfer_Trace.tla"), groups["multi"], constants("multi"), INV, mutate, defs=defs("multi"), label="multi")
    c.add_violations(viols, cases, describe)
    c.finish(rule="TLC enumerates every schedule of <=1 fault (drop/dup/delay/bit-flip/truncate) among the first 12-16 datagrams of either direction and <=2 faults among the "
                  "first 6-12, applied to a 4-stream scripted scenario (plain and spec-driven clients, v1/v2); plus blackout and reordering lattices for bulk and datagram scenarios; "
                  "each execution's API trace is validated against StreamXfer incl. completion at quiescence")
