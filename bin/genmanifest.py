#!/usr/bin/env python3
"""Regenerates MANIFEST.json from the table below (one source of truth)."""
import json, os
V = os.path.dirname(os.path.dirname(os.path.abspath(__file__)))
BASE_OFF = ("cd /repo && for m in . ./integrationtests/gomodvendor; do (cd /repo/$m && GOFLAGS=-mod=mod go test -json -vet=off -count=1 -timeout 25m ./...); done")

CHECKS = {
 "C03": dict(engine="Reassembly", design="5 C03",
   text="TLA+ spec Reassembly (contract of reassembly: what a reader may observe, which transport error answers which frame) is model-checked exhaustively by TLC on a small lattice; TLC enumerates every stimulus sequence up to a length bound (and simulates longer walks of the spec); each is executed on the real frameSorter / ReceiveStream+StreamFlowController / cryptoStream and every recorded trace is validated by TLC against the spec, all invariants evaluated in every state.",
   note="Trusted: TLC, the Go harness (position-derived content comparison, buffer poisoning via the verif release hook), go1.26 synctest for blocked calls. Bounded: lattices of 4-5 cells (sizes on both sides of the 128-byte copy threshold), sequences of 3-5 stimuli exhaustively, random walks of 14-40 steps; connection-level window not exercised here.",
   technique="TLA+ model checking (TLC) + TLC-enumerated stimuli replayed into the real code + TLC trace validation"),
 "C07": dict(engine="AckGen", design="5 C07",
   text="TLA+ spec AckGen (what an ACK may contain, when it must be due, what the duplicate filter may answer) model-checked by TLC; TLC enumerates all arrival/tick/GetAck/forget-below sequences up to a length bound over a 6-number universe per packet-number space; each runs on the real ReceivedPacketHandler and every recorded call result (duplicate answer, queued flag, alarm, ACK ranges, ECN counts) is validated by TLC against the spec; seeded walks go beyond the 64 tracked ranges.",
   note="Trusted: TLC, harness projection (ackQueued/hasNewAck read in-package). Bounded: 6 packet numbers x 4-5 stimuli exhaustively; random walks over 400 numbers. The connection-level 'frames not processed twice' is covered only through the duplicate filter contract here.",
   technique="TLA+ model checking (TLC) + TLC-enumerated stimuli replayed into the real code + TLC trace validation"),
 "C06": dict(engine="LossRecovery", design="5 C06",
   text="TLA+ spec LossRecovery (frames resolved at most once and exactly once when their packet leaves the history, bytes-in-flight balance, bogus ACK => PROTOCOL_VIOLATION, timer obligation; loss decisions left open) model-checked by TLC per space; TLC enumerates all stimulus sequences of length 3-4 over sends/ACK patterns/timer/probes/drops/Retry/migration for both perspectives, seeded walks beyond; each runs on the real sentPacketHandler with recording frame handlers and every call's callbacks, history, bytes in flight, alarm and send mode are validated by TLC.",
   note="Trusted: TLC, harness projection (history contents, bytesInFlight read in-package; skipping generator re-created with a short period). Loss thresholds and PTO arithmetic are not checked. One open known finding (ACK for an old skipped number accepted).",
   technique="TLA+ model checking (TLC) + TLC-enumerated stimuli replayed into the real code + TLC trace validation"),
 "C15": dict(engine="StreamsMap", design="5 C15",
   text="TLA+ spec StreamsMap (incoming slot accounting and MAX_STREAMS credit, STREAM_LIMIT_ERROR / STREAM_STATE_ERROR rules, outgoing ordinals within the peer's limit, STREAMS_BLOCKED once per limit, FIFO service of OpenStreamSync waiters, accept exactly once in order) model-checked by TLC; TLC enumerates all stimulus sequences of length 3-5, seeded walks beyond, for both perspectives and stream types and three limit settings; executed on the real streamsMap with concurrent callers in a synctest bubble; every result, queued frame and wake-up validated by TLC, incl. 'no starved waiter at quiescence'.",
   note="Trusted: TLC, go1.26 synctest (quiescence detection), harness. Races (credit vs. new caller / vs. cancellation of the head waiter) are provoked without controlling the scheduler; at most one concurrent AcceptStream caller. 0-RTT reset maps not exercised yet.",
   technique="TLA+ model checking (TLC) + TLC-enumerated stimuli replayed into the real code + TLC trace validation"),
 "C01": dict(engine="StreamXfer", design="5 C01",
   text="TLA+ spec StreamXfer: API-level contract (bytes read are a prefix of bytes written, EOF only after all, datagrams intact and at most once, completion at quiescence) with a network refinement StreamXfer_Net (loss / duplication / reordering / retransmission) model-checked by TLC for safety and completion under fairness; TLC enumerates every schedule of <=1 (<=2) faults among the first datagrams of either direction (NetFaults) plus blackout / reordering / random-loss lattices; each schedule runs a scripted multi-stream transfer between a real client (plain or fingerprint spec, v1/v2) and the in-tree server over simnet in a synctest bubble; the recorded API trace is validated by TLC.",
   note="Trusted: TLC, go1.26 synctest + testutils/simnet (virtual time), harness content check. Observation is at the two APIs only. Completion is required because the enumerated faults never keep the path dead for longer than the idle timeout.",
   technique="TLA+ model checking (TLC, safety + liveness) + TLC-enumerated fault schedules replayed into real connections + TLC trace validation"),
 "C02": dict(engine="Handshake", design="5 C02",
   text="TLA+ spec Handshake (client reconstructed from its Initial packets on the wire: version / connection-ID / Retry / Version-Negotiation rules; outcome from Dial / Accept; ISCID transport parameter = header SCID) model-checked by TLC with a lossy network and a packet-forging attacker; TLC enumerates fault schedules on the first flights; for every built-in QUICID, 11 derived specs, UTransport without spec and plain Transport x 4 server configurations, three successive dials through one spec value run against the in-tree server over simnet; client Initials are decrypted by an independent observer; wire + API traces are validated by TLC in collect mode (every failing execution is classified).",
   note="Trusted: TLC, independent Initial-packet observer, go1.26 synctest + simnet. 4 open known findings (spec value is mutated by a dial: key shares / initial_source_connection_id reused), so redials of spec clients are known to fail; first dials and plain / nil-spec clients must succeed under every schedule.",
   technique="TLA+ model checking (TLC) + TLC-enumerated fault schedules replayed into real connections + TLC trace validation of wire and API events"),
 "C13": dict(engine="Handshake", design="5 C13",
   text="Same TLA+ spec as C02 (Handshake) with the attacker part: forged Version Negotiation / Retry (invalid tag) / correctly keyed Initial with CONNECTION_CLOSE / replayed client Initial injected after the k-th delivered datagram of either direction, crossed with server configurations (default, Retry, v2-only), client kinds and TLC-enumerated loss / delay schedules; the spec marks the windows in which QUIC cannot tell a forged packet from a genuine one (there the handshake may fail cleanly) and requires an unchanged, successful outcome everywhere else; plus 0-RTT accept / reject scenarios (early data exactly once / never). Model-checked by TLC (network + attacker), real handshakes validated by TLC from wire + API traces.",
   note="Trusted: TLC, the observer's packet forging and parsing, go1.26 synctest + simnet. Long certificate chains and CONNECTION_CLOSE in Handshake / 1-RTT packets are not injected. Resource release after failure is checked only as 'Dial / Accept return within the 15 s scenario deadline'.",
   technique="TLA+ model checking (TLC) with attacker model + TLC-enumerated fault / injection schedules replayed into real handshakes + TLC trace validation"),
 "C12": dict(engine="AdvertisedLimits", design="5 C12",
   text="TLA+ spec AdvertisedLimits (advertised value per limit read from the ClientHello on the wire; a conformant peer consumes a limit up to its boundary; no local client error while within, the boundary is reachable, the client's own record equals the wire) model-checked by TLC; a lattice of fingerprint specs (built-in and derived, incl. suppressed parameters) x 7 user Config variants x 11 limit scenarios (stream / connection windows with slow and read-then-stall readers, stream counts, connection IDs incl. Retire-Prior-To replacement at the limit, DATAGRAM size, silence up to the advertised idle timeout) runs as real connections against the in-tree server; traces validated by TLC in collect mode.",
   note="Trusted: TLC, independent observer, in-tree server as conformant peer (the connection-ID scenario crafts NEW_CONNECTION_ID frames through the server's control-frame queue using the quiescent client state). 4 open known findings: limits are enforced from Config, not from what the spec advertises.",
   technique="TLA+ model checking (TLC) + configuration lattice executed as real connections + TLC trace validation"),
 "C04": dict(engine="FlowControl", design="5 C04",
   text="TLA+ spec FlowControl (receive side: accept iff within advertised, advertised limits monotone and = consumed + window, windows bounded, every consumed / abandoned byte credited to the connection exactly once; send side: new bytes within the largest limits seen, blocked once per limit) model-checked by TLC; three tiers bound to it: (1) component - TLC-enumerated call sequences and seeded walks on real stream flow controllers sharing a real connection flow controller, 4 window configurations incl. maximum below initial; (2) send-stream - real SendStreams with packetisation budgets, losses, MAX_* updates, reliable boundary / CancelWrite / STOP_SENDING; (3) wire - real connections where the in-tree server tries to overshoot limits that a fingerprint spec advertises differently per stream kind, judged from the receiver's qlog (FlowWire). All traces validated by TLC.",
   note="Trusted: TLC, harness projections (window sizes, bytes read read in-package), qlog as faithful record of 1-RTT frames in the wire tier. Auto-tuning decisions are left open (a window may grow up to its maximum at any update).",
   technique="TLA+ model checking (TLC) + TLC-enumerated / seeded stimuli replayed into the real code at three tiers + TLC trace validation"),
 "C10": dict(engine="InitialFlight", design="5 C10",
   text="TLA+ spec InitialFlight: what an observer who removes Initial protection with the standard keys must see of the first flight given the InitialPacketSpec knobs (connection-ID lengths, first packet number and increment, per-packet packet-number length incl. list vs deprecated single value, token length / prefix / freshness across dials, frame types and counts, CRYPTO continuity and planned split offsets, exact packet size vs minimum datagram size). TLC enumerates the knob product over base fingerprints (FlightKnobs); every configuration is dialled 2-3 times into a silent socket, built-in fingerprints 20-100 times; every decrypted packet is validated by TLC (collect mode).",
   note="Trusted: TLC, the independent observer (Initial key derivation, header protection, AEAD, frame reader). Configurations whose first packet number cannot be carried by the chosen encoding are excluded (no server could decode them). Only the first flight (before the first PTO) is judged.",
   technique="TLA+ (TLC) knob enumeration + real dials observed on the wire by an independent decryptor + TLC trace validation"),
 "C11": dict(engine="InitialFlight", design="5 C11",
   text="TLA+ spec InitialFlight (ClientHello part) with the suppression operator checked by TLC on its own (exact / idempotent / order preserving for all lists <=3 and all suppression sets): the wire's quic_transport_parameters equal the spec list after suppression, in order or as a multiset when randomised; the identifier list the spec reports equals the canonicalised wire; the per-dial shuffle reaches every permutation of small lists with position frequencies within 7 sigma of uniform. TLC enumerates parameter lists (standard / raw / GREASE / GREASE-shaped raw, duplicates) x suppression sets x randomisation; real dials into a silent socket, ClientHello reassembled from the decrypted flight by the independent observer; validated by TLC.",
   note="Trusted: TLC, the independent observer. NOT covered in this round: equality of cipher suites / extension contents with a second uTLS instance, and the reference fingerprinter's identifiers (stability / recorded values) - stated as residue in DESIGN.md.",
   technique="TLA+ (TLC) enumeration of parameter lists + real dials observed on the wire + TLC trace validation incl. a distributional post-condition"),
 "C20": dict(engine="Congestion", design="5 C20",
   text="TLA+ spec Congestion: one action per call of the congestion controller carrying the observed window; the clauses (window between 2 packets and maximum + 1 packet, shrinks only on loss / RTO / migration and at most once per window of packets, never on an acknowledgement, grows only while window-limited, CanSend / SendMode release new data only below the window, every pacing budget within the token bucket min(burst, left over + 1.25 x bandwidth x elapsed)) are invariants. TLC checks them on a reference sender (abstract Reno, every ack / loss order, MTU increase, RTO, migration) and checks on PacerBucket that the per-call bucket bound implies the any-interval bound. TLC enumerates every 3-event history after three preludes (fresh / floor / congestion avoidance) for Reno and CUBIC and several datagram sizes; seeded walks add bursts, app-limited periods, clocks stepping back and to 2^61, RTT samples from 1 ns to 10 s; a scripted history reaches the 10000-packet maximum in congestion avoidance (25M acks). A second tier records the controller's calls as made by the real sentPacketHandler and its SendMode. All traces validated by TLC.",
   note="Trusted: TLC, harness bookkeeping of bytes in flight in the component tier (the handler tier uses the handler's own), exact big-integer pre-computation of the two pacer products (TLC integers are 32 bit; saturating at 2^29 = no claim). HyStart's exit decision and PTO arithmetic are left open. Two defects found and fixed (5e969a6, 25a4f5e).",
   technique="TLA+ model checking (TLC) + TLC-enumerated / seeded histories replayed into the real code at two tiers + TLC trace validation"),
 "C19": dict(engine="FieldSection", design="5 C19",
   text="TLA+ spec FieldSection: declarative WellFormed (lower-case token names, no forbidden value bytes, no connection-specific fields, TE only trailers, pseudo-header fields known / unique / ahead of regular fields / of the kind allowed for a request, response or trailer, content-length single-valued numeric, decoded size within the limit) and an incremental acceptor (one step per decoded field); TLC proves them equivalent for every sequence of <= 4 field classes, all section kinds and limits around the size. TLC enumerates every sequence of 3 (4) field letters; each is instantiated with concrete bytes and handed to the real requestFromHeaders / parseHeaders / updateResponseFromHeaders / parseTrailers through a decode function, with limits at and one below the section size; every pulled field (classified by the harness's own classifier) and the verdict / error class are validated by TLC. Writer tier: TLC enumerates header maps in every key spelling x request / response shapes; the real request and response writers' output is decoded independently, validated as a field section and parsed back (accepted and same fields).",
   note="Trusted: TLC, the harness classifier (RFC 9110 tokens, NUL/CR/LF), github.com/quic-go/qpack as independent decoder of the writers' output. Control bytes other than NUL/CR/LF and an empty content-length are not judged. The mapping error -> stream error code is checked at the error-class level (errHeaderTooLarge vs other), not on a live connection. Four defects found and fixed (c23d9a1 and following).",
   technique="TLA+ model checking (TLC: equivalence of incremental and declarative definitions) + TLC-enumerated field sequences replayed into the real parser / writers + TLC trace validation"),
}
NA = {}

def main():
    props = [json.loads(l)["id"] for l in open(os.path.join(V, "properties.jsonl"))]
    checks = []
    for pid in props:
        if pid not in CHECKS:
            continue
        c = CHECKS[pid]
        checks.append({
            "property_id": pid,
            "quick_cmd": "python3 bin/vcheck %s --tier quick" % pid,
            "thorough_cmd": "python3 bin/vcheck %s --tier thorough" % pid,
            "evidence_file": "evidence/%s.json" % pid,
            "replay_cmd_template": "python3 bin/vcheck %s --replay {path}" % pid,
            "engine": c["engine"],
            "level_claimed": {"category": "model_checking", "text": c["text"], "design_ref": "DESIGN.md section " + c["design"]},
            "level_note": c["note"],
            "technique": c["technique"],
        })
    na = [{"property_id": p, "reason": NA.get(p, "check not built yet in this round (see DESIGN.md section 9 for the construction order); no claim is made")}
          for p in props if p not in CHECKS]
    m = {
        "version": 1,
        "setup_cmd": "python3 bin/setup.py",
        "hooks": {"guard": "verif", "enable": "go1.26 test -tags verif -overlay <generated overlay.json> (harness files from /verif/harness are injected in-package; /repo is built from its working tree)",
                  "baseline_off_cmd": BASE_OFF,
                  "source_commits": [l.strip() for l in open(os.path.join(V, "hooks.txt")) if l.strip()] if os.path.exists(os.path.join(V, "hooks.txt")) else [],
                  "add_only": True},
        "engines": [{"name": c["engine"], "path": "specs/" + c["engine"], "serves_properties": [p for p in CHECKS if CHECKS[p]["engine"] == c["engine"]],
                     "kind_free_text": "TLA+ specification + TLC configs + trace specification"} for c in {v["engine"]: v for v in CHECKS.values()}.values()],
        "checks": checks,
        "notes": "Every check: python3 bin/vcheck <id>. Pipeline and soundness rules in DESIGN.md sections 2-3. exit 0 held / 1 VIOLATION / 2 machinery failure.",
        "not_applicable": na,
    }
    json.dump(m, open(os.path.join(V, "MANIFEST.json"), "w"), indent=1)

main()
